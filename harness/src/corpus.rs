//! The golden corpus: inputs of the repository's own test!/error! cases (committed snapshot in
//! /verif/corpus/corpus.json, produced by tools/extract_corpus.py).

use crate::engine::{verif_root, Style, Syntax};
use serde::Deserialize;
use std::sync::OnceLock;

#[derive(Deserialize, Clone, Debug)]
pub struct Entry {
    pub name: String,
    pub file: String,
    /// "test" | "error"
    pub kind: String,
    pub input: String,
    pub expected: String,
    pub syntax: String,
    pub style: String,
    pub default_options: bool,
    pub ignored: bool,
}

impl Entry {
    pub fn syntax(&self) -> Syntax {
        match self.syntax.as_str() {
            "sass" => Syntax::Sass,
            "css" => Syntax::Css,
            _ => Syntax::Scss,
        }
    }
    pub fn style(&self) -> Style {
        if self.style == "compressed" {
            Style::Compressed
        } else {
            Style::Expanded
        }
    }
    pub fn uses_random(&self) -> bool {
        self.input.contains("random(") || self.input.contains("unique-id") || self.input.contains("unique_id")
    }
}

static CORPUS: OnceLock<Vec<Entry>> = OnceLock::new();

pub fn corpus() -> &'static [Entry] {
    CORPUS.get_or_init(|| {
        let p = verif_root().join("corpus").join("corpus.json");
        let txt = std::fs::read_to_string(&p).unwrap_or_else(|e| {
            eprintln!("cannot read {}: {}", p.display(), e);
            std::process::exit(2);
        });
        let v: Vec<Entry> = serde_json::from_str(&txt).unwrap_or_else(|e| {
            eprintln!("corpus.json malformed: {}", e);
            std::process::exit(2);
        });
        v
    })
}

static FUZZ: OnceLock<Vec<Entry>> = OnceLock::new();

/// Inputs harvested from the coverage-guided C01 campaign (tools/snapshot_fuzz_corpus.py: the
/// libFuzzer corpus after `-merge=1`, minus golden entries, loops, possible recursion, deep
/// nesting, random()/unique-id()). A committed snapshot, used by thorough tiers only so that the
/// quick tiers stay a function of the golden corpus. Absent file = empty list.
pub fn fuzz_corpus() -> &'static [Entry] {
    FUZZ.get_or_init(|| {
        let p = verif_root().join("corpus").join("fuzz_corpus.json");
        match std::fs::read_to_string(&p) {
            Ok(txt) => serde_json::from_str(&txt).unwrap_or_else(|e| {
                eprintln!("fuzz_corpus.json malformed: {}", e);
                std::process::exit(2);
            }),
            Err(_) => vec![],
        }
    })
}

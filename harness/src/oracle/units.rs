//! CSS unit classes and exact conversion ratios, written from CSS Values and Units (absolute lengths,
//! angles, times, frequencies, resolutions):
//!   1in = 96px = 2.54cm = 25.4mm = 101.6q = 72pt = 6pc
//!   1turn = 360deg = 400grad = 2*pi rad
//!   1s = 1000ms;  1kHz = 1000Hz;  1dppx = 96dpi;  1dpcm = 2.54dpi
//! Every unit of a class has an exact rational factor (times a power of pi) to the class's canonical
//! unit (px, deg, ms, Hz, dpi). Everything else (font/viewport-relative lengths, %, fr, unknown units)
//! converts only to itself.

/// the 34 unit names the implementation knows (names only; spelled as printed)
pub const KNOWN_UNITS: [&str; 34] = [
    "px", "mm", "in", "cm", "q", "pt", "pc", "em", "rem", "lh", "%", "ex", "ch", "cap", "ic", "rlh", "vw", "vh", "vmin", "vmax", "vi", "vb", "deg", "grad", "rad",
    "turn", "s", "ms", "Hz", "kHz", "dpi", "dpcm", "dppx", "fr",
];

#[derive(Clone, Copy, Debug, PartialEq, Eq, Hash, PartialOrd, Ord)]
pub enum Class {
    Length,
    Angle,
    Time,
    Frequency,
    Resolution,
}

impl Class {
    pub fn canonical(self) -> &'static str {
        match self {
            Class::Length => "px",
            Class::Angle => "deg",
            Class::Time => "ms",
            Class::Frequency => "Hz",
            Class::Resolution => "dpi",
        }
    }
}

/// (class, numerator, denominator, power of pi): 1 unit = num/den * pi^k canonical units
pub fn entry(u: &str) -> Option<(Class, u64, u64, i32)> {
    use Class::*;
    Some(match u {
        "px" => (Length, 1, 1, 0),
        "in" => (Length, 96, 1, 0),
        "cm" => (Length, 9600, 254, 0),   // 96 / 2.54
        "mm" => (Length, 9600, 2540, 0),  // 96 / 25.4
        "q" => (Length, 9600, 10160, 0),  // 96 / 101.6
        "pt" => (Length, 96, 72, 0),
        "pc" => (Length, 96, 6, 0),
        "deg" => (Angle, 1, 1, 0),
        "grad" => (Angle, 360, 400, 0),
        "turn" => (Angle, 360, 1, 0),
        "rad" => (Angle, 180, 1, -1), // 2 pi rad = 360deg
        "ms" => (Time, 1, 1, 0),
        "s" => (Time, 1000, 1, 0),
        "Hz" => (Frequency, 1, 1, 0),
        "kHz" => (Frequency, 1000, 1, 0),
        "dpi" => (Resolution, 1, 1, 0),
        "dppx" => (Resolution, 96, 1, 0),
        "dpcm" => (Resolution, 254, 100, 0), // 1dpcm = 2.54dpi
        _ => return None,
    })
}

pub fn class_of(u: &str) -> Option<Class> {
    entry(u).map(|e| e.0)
}

/// multiply a value in `from` by this to obtain the value in `to`; None if not convertible
pub fn factor(from: &str, to: &str) -> Option<f64> {
    if from == to {
        return Some(1.0);
    }
    let (ca, na, da, ka) = entry(from)?;
    let (cb, nb, db, kb) = entry(to)?;
    if ca != cb {
        return None;
    }
    // (na/da) / (nb/db): both products are small exact integers
    let mut f = (na * db) as f64 / (da * nb) as f64;
    let k = ka - kb;
    if k > 0 {
        f *= std::f64::consts::PI.powi(k);
    } else if k < 0 {
        f /= std::f64::consts::PI.powi(-k);
    }
    Some(f)
}

/// two single units (""= unitless) on which + - < % min max are defined
pub fn compatible(a: &str, b: &str) -> bool {
    a.is_empty() || b.is_empty() || a == b || (class_of(a).is_some() && class_of(a) == class_of(b))
}

/// strictly convertible (both have units)
pub fn convertible(a: &str, b: &str) -> bool {
    !a.is_empty() && !b.is_empty() && (a == b || (class_of(a).is_some() && class_of(a) == class_of(b)))
}

/// A number with compound units.
#[derive(Clone, Debug, PartialEq)]
pub struct Quantity {
    pub value: f64,
    pub numer: Vec<String>,
    pub denom: Vec<String>,
}

impl Quantity {
    pub fn single(value: f64, unit: &str) -> Quantity {
        Quantity { value, numer: if unit.is_empty() { vec![] } else { vec![unit.to_string()] }, denom: vec![] }
    }
    pub fn mul(&self, o: &Quantity) -> Quantity {
        let mut n = self.numer.clone();
        n.extend(o.numer.iter().cloned());
        let mut d = self.denom.clone();
        d.extend(o.denom.iter().cloned());
        Quantity { value: self.value * o.value, numer: n, denom: d }
    }
    pub fn div(&self, o: &Quantity) -> Quantity {
        let mut n = self.numer.clone();
        n.extend(o.denom.iter().cloned());
        let mut d = self.denom.clone();
        d.extend(o.numer.iter().cloned());
        Quantity { value: self.value / o.value, numer: n, denom: d }
    }
    /// canonical form: every convertible unit expressed in its class's canonical unit, equal units
    /// cancelled between numerator and denominator, both lists sorted
    pub fn canonical(&self) -> Quantity {
        let mut v = self.value;
        let mut n = vec![];
        let mut d = vec![];
        for u in &self.numer {
            match entry(u) {
                Some((c, ..)) => {
                    v *= factor(u, c.canonical()).unwrap();
                    n.push(c.canonical().to_string());
                }
                None => n.push(u.clone()),
            }
        }
        for u in &self.denom {
            match entry(u) {
                Some((c, ..)) => {
                    v /= factor(u, c.canonical()).unwrap();
                    d.push(c.canonical().to_string());
                }
                None => d.push(u.clone()),
            }
        }
        let mut i = 0;
        while i < n.len() {
            if let Some(j) = d.iter().position(|x| *x == n[i]) {
                d.remove(j);
                n.remove(i);
            } else {
                i += 1;
            }
        }
        n.sort();
        d.sort();
        Quantity { value: v, numer: n, denom: d }
    }
    /// no numerator unit is convertible to a denominator unit
    pub fn fully_cancelled(&self) -> bool {
        !self.numer.iter().any(|a| self.denom.iter().any(|b| convertible(a, b)))
    }
    /// representable as a CSS dimension / number
    pub fn emittable(&self) -> bool {
        let c = self.canonical();
        c.numer.len() <= 1 && c.denom.is_empty()
    }
}

/// the text `math.unit()` / `inspect` use for a unit product (dart-sass 1.54 `unitString`)
pub fn unit_string(numer: &[String], denom: &[String]) -> String {
    if numer.is_empty() {
        return match denom.len() {
            0 => String::new(),
            1 => format!("{}^-1", denom[0]),
            _ => format!("({})^-1", denom.join("*")),
        };
    }
    if denom.is_empty() {
        return numer.join("*");
    }
    format!("{}/{}", numer.join("*"), denom.join("*"))
}

/// inverse of `unit_string`
pub fn parse_unit_string(s: &str) -> Option<(Vec<String>, Vec<String>)> {
    let split = |t: &str| -> Vec<String> { t.split('*').filter(|x| !x.is_empty()).map(|x| x.to_string()).collect() };
    if s.is_empty() {
        return Some((vec![], vec![]));
    }
    if let Some(inner) = s.strip_suffix("^-1") {
        let inner = inner.strip_prefix('(').and_then(|x| x.strip_suffix(')')).unwrap_or(inner);
        return Some((vec![], split(inner)));
    }
    match s.split_once('/') {
        Some((n, d)) => Some((split(n), split(d))),
        None => Some((split(s), vec![])),
    }
}

/// split `-12.5px*in` into the numeric prefix and the rest
pub fn split_number(text: &str) -> (&str, &str) {
    let end = text
        .char_indices()
        .find(|(i, c)| !(c.is_ascii_digit() || *c == '.' || (*i == 0 && *c == '-')))
        .map(|(i, _)| i)
        .unwrap_or(text.len());
    (&text[..end], &text[end..])
}

#[cfg(test)]
mod tests {
    use super::*;
    #[test]
    fn ratios() {
        let close = |a: f64, b: f64| (a - b).abs() <= 1e-15 * b.abs();
        assert!(close(factor("in", "px").unwrap(), 96.0));
        assert!(close(factor("in", "cm").unwrap(), 2.54));
        assert!(close(factor("in", "mm").unwrap(), 25.4));
        assert!(close(factor("in", "q").unwrap(), 101.6));
        assert!(close(factor("in", "pt").unwrap(), 72.0));
        assert!(close(factor("in", "pc").unwrap(), 6.0));
        assert!(close(factor("turn", "deg").unwrap(), 360.0));
        assert!(close(factor("turn", "grad").unwrap(), 400.0));
        assert!(close(factor("turn", "rad").unwrap(), 2.0 * std::f64::consts::PI));
        assert!(close(factor("s", "ms").unwrap(), 1000.0));
        assert!(close(factor("kHz", "Hz").unwrap(), 1000.0));
        assert!(close(factor("dppx", "dpi").unwrap(), 96.0));
        assert!(close(factor("dpcm", "dpi").unwrap(), 2.54));
        assert!(factor("px", "em").is_none());
        assert!(factor("px", "s").is_none());
        assert_eq!(factor("em", "em"), Some(1.0));
        // coherence of the table itself
        for a in KNOWN_UNITS {
            for b in KNOWN_UNITS {
                for c in KNOWN_UNITS {
                    if let (Some(ab), Some(bc), Some(ac)) = (factor(a, b), factor(b, c), factor(a, c)) {
                        assert!(close(ab * bc, ac), "{} {} {}", a, b, c);
                    }
                }
            }
        }
    }
    #[test]
    fn strings() {
        let v = |x: &[&str]| x.iter().map(|s| s.to_string()).collect::<Vec<_>>();
        assert_eq!(unit_string(&v(&["px", "in"]), &v(&[])), "px*in");
        assert_eq!(unit_string(&v(&[]), &v(&["px"])), "px^-1");
        assert_eq!(unit_string(&v(&[]), &v(&["px", "em"])), "(px*em)^-1");
        assert_eq!(unit_string(&v(&["px"]), &v(&["em", "s"])), "px/em*s");
        for s in ["px*in", "px^-1", "(px*em)^-1", "px/em*s", "", "%*%"] {
            let (n, d) = parse_unit_string(s).unwrap();
            assert_eq!(unit_string(&n, &d), s);
        }
        assert_eq!(split_number("-12.5px*in"), ("-12.5", "px*in"));
        assert_eq!(split_number("3em"), ("3", "em"));
        assert_eq!(split_number("0.4"), ("0.4", ""));
    }
    #[test]
    fn quantities() {
        let q = Quantity::single(3.0, "px").mul(&Quantity::single(2.0, "in")).div(&Quantity::single(7.0, "cm"));
        let c = q.canonical();
        assert_eq!(c.numer, vec!["px".to_string()]);
        assert!(c.denom.is_empty());
        assert!(q.emittable());
        assert!(!q.fully_cancelled());
        assert!(!Quantity::single(1.0, "px").div(&Quantity::single(1.0, "em")).emittable());
    }
}

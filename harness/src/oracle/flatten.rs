//! Hand-flattening model for rule trees (C04): what the nested source means as flat CSS, written
//! from the Sass documentation (style rules / parent selector / nested properties / `@at-root` /
//! "CSS at-rules: bubbling") and dart-sass 1.54 behaviour. It never calls grass and does not look at
//! how grass builds its CSS tree: the model walks the *source* and keeps only a logical context
//! (list of enclosing at-rules, the selector declarations would land in, the selector `&` refers to).
//!
//! Output: the sequence of rows `(at-rule path, selector list, property, value)` in the order in
//! which a reader flattening by hand would write them down:
//!   * a style rule's own declarations (declarations, nested properties, childless at-rules) are
//!     written together at the rule's position; nested rules / at-rules / `@at-root` follow in
//!     source order (a declaration after a nested rule still belongs to the first block);
//!   * a body without a style rule (the body of an unknown at-rule) is written in source order;
//!   * selector of a nested rule: for every child complex selector the list over all parent complex
//!     selectors (explicit `&`: substitution, the first `&` varies slowest; otherwise the parent is
//!     prefixed as a descendant), the per-child lists interleaved round-robin (`a c, a d, b c, b d`);
//!   * an at-rule with a body nested in a style rule moves outside it and the style rule is
//!     re-created inside; at-rules nest in source order;
//!   * `@at-root` removes from the context every enclosing rule its query excludes (default:
//!     `without: rule`); `&` keeps referring to the source parent; without `&` nothing is prefixed
//!     when the style rule has been excluded; an `@at-root` that excludes nothing is transparent;
//!   * nested property names are joined with `-`; a nested property with a value also yields the
//!     value under the outer name, first.
//! A childless at-rule `@foo v;` is represented as the row `(path, selector, "@foo", "v")`.

use crate::gen::ruletree::{Comb, Complex, Compound, Node, Query, SelList, Tree};
use serde::Serialize;

#[derive(Clone, Debug, PartialEq, Eq, Hash, PartialOrd, Ord, Serialize)]
pub struct FlatRow {
    pub at_path: Vec<String>,
    pub selector: String,
    pub prop: String,
    pub value: String,
}

// ---- resolved selectors ---------------------------------------------------------------------

#[derive(Clone, Debug, PartialEq)]
enum Part {
    Comb(Comb),
    /// simple selectors of one compound
    Cmp(Vec<String>),
}

/// compounds and combinators alternating; descendant combinators are explicit; may start with a
/// combinator (leading combinator)
type RComplex = Vec<Part>;
type RList = Vec<RComplex>;

fn render_complex(c: &RComplex) -> String {
    let mut words: Vec<String> = vec![];
    for p in c {
        match p {
            Part::Comb(Comb::Desc) => {}
            Part::Comb(k) => words.push(k.symbol().to_string()),
            Part::Cmp(s) => words.push(s.concat()),
        }
    }
    words.join(" ")
}

fn render_list(l: &RList) -> String {
    l.iter().map(render_complex).collect::<Vec<_>>().join(", ")
}

/// `parent` with `suffix` glued to its last simple selector and `extra` simple selectors appended
/// to its last compound
fn substitute(parent: &RComplex, suffix: &str, extra: &[String]) -> RComplex {
    let mut out = parent.clone();
    if let Some(Part::Cmp(last)) = out.last_mut() {
        if let Some(s) = last.last_mut() {
            s.push_str(suffix);
        }
        last.extend(extra.iter().cloned());
    }
    out
}

fn plain(c: &Compound) -> Part {
    Part::Cmp(c.simples.clone())
}

/// all resolutions of one child complex selector against the parent list
fn resolve_complex(child: &Complex, parent: Option<&RList>, implicit: bool) -> RList {
    let has_amp = child.compounds().any(|c| c.amp.is_some());
    let mut seq: Vec<(Option<Comb>, &Compound)> = vec![(child.lead, &child.first)];
    for (k, c) in &child.rest {
        seq.push((Some(*k), c));
    }
    if !has_amp {
        let mut own: RComplex = vec![];
        for (i, (k, c)) in seq.iter().enumerate() {
            if let Some(k) = k {
                if i > 0 || *k != Comb::Desc {
                    own.push(Part::Comb(*k));
                }
            }
            own.push(plain(c));
        }
        return match parent {
            Some(p) if implicit => p
                .iter()
                .map(|pc| {
                    let mut r = pc.clone();
                    if !matches!(own.first(), Some(Part::Comb(_))) {
                        r.push(Part::Comb(Comb::Desc));
                    }
                    r.extend(own.iter().cloned());
                    r
                })
                .collect(),
            _ => vec![own],
        };
    }
    // explicit `&`: build the product left to right, so the first `&` varies slowest
    let empty: RList = vec![];
    let parents = parent.unwrap_or(&empty);
    let mut acc: RList = vec![vec![]];
    for (k, c) in seq {
        if let Some(k) = k {
            for a in acc.iter_mut() {
                a.push(Part::Comb(k));
            }
        }
        match &c.amp {
            None => {
                for a in acc.iter_mut() {
                    a.push(plain(c));
                }
            }
            Some(suffix) => {
                let mut next: RList = vec![];
                for a in &acc {
                    for pc in parents {
                        let mut r = a.clone();
                        r.extend(substitute(pc, suffix, &c.simples));
                        next.push(r);
                    }
                }
                acc = next;
            }
        }
    }
    acc
}

/// round-robin interleaving of the per-child lists: `[[a c, b c], [a d, b d]]` -> `a c, a d, b c, b d`
fn interleave(lists: Vec<RList>) -> RList {
    let longest = lists.iter().map(|l| l.len()).max().unwrap_or(0);
    let mut out = vec![];
    for i in 0..longest {
        for l in &lists {
            if let Some(x) = l.get(i) {
                out.push(x.clone());
            }
        }
    }
    out
}

fn resolve(sel: &SelList, parent: Option<&RList>, implicit: bool) -> RList {
    interleave(sel.0.iter().map(|c| resolve_complex(c, parent, implicit)).collect())
}

// ---- context ----------------------------------------------------------------------------------

#[derive(Clone, Debug)]
struct At {
    /// name `@at-root` queries know this rule by: "media", "supports" or the at-rule's own name
    name: String,
    prelude: String,
}

#[derive(Clone, Debug)]
struct Ctx {
    /// enclosing at-rules, outermost first
    at: Vec<At>,
    /// the selector declarations land in (None: no style rule in effect)
    style: Option<RList>,
    /// what `&` refers to: the nearest enclosing style rule of the source, even when excluded
    amp: Option<RList>,
}

fn lists(q: &Query, name: &str) -> bool {
    q.names.iter().any(|n| n == "all" || n.eq_ignore_ascii_case(name))
}

/// does the query remove a rule known by `name` ("rule" for style rules)?
fn excludes(q: &Option<Query>, name: &str) -> bool {
    match q {
        // the default query is (without: rule)
        None => name == "rule",
        // `with` keeps only what is listed, `without` removes what is listed
        Some(q) => lists(q, name) != q.with,
    }
}

struct Model {
    rows: Vec<FlatRow>,
    /// (ancestors kept, ancestors removed) for every `@at-root` that removes something
    at_roots: Vec<(usize, usize)>,
}

fn is_own(n: &Node) -> bool {
    matches!(n, Node::Decl { .. } | Node::Nested { .. } | Node::Unknown { body: None, .. })
}

impl Model {
    fn emit(&mut self, cx: &Ctx, prop: String, value: String) {
        self.rows.push(FlatRow {
            at_path: cx.at.iter().map(|a| a.prelude.clone()).collect(),
            selector: cx.style.as_ref().map(render_list).unwrap_or_default(),
            prop,
            value,
        });
    }

    fn own(&mut self, n: &Node, cx: &Ctx, prefix: &str) {
        match n {
            Node::Decl { prop, value } => self.emit(cx, format!("{}{}", prefix, prop), value.clone()),
            Node::Nested { name, value, children } => {
                let full = format!("{}{}", prefix, name);
                if let Some(v) = value {
                    self.emit(cx, full.clone(), v.clone());
                }
                let inner = format!("{}-", full);
                for c in children {
                    self.own(c, cx, &inner);
                }
            }
            Node::Unknown { name, params, body: None } => self.emit(cx, format!("@{}", name), params.clone()),
            _ => {}
        }
    }

    /// `@at-root` rules that exclude nothing of the current context are replaced by their bodies
    fn inline_transparent<'a>(&self, body: &'a [Node], cx: &Ctx, out: &mut Vec<&'a Node>) {
        for n in body {
            if let Node::AtRoot { query, sel: None, body: inner } = n {
                let drops_style = cx.style.is_some() && excludes(query, "rule");
                let drops_at = cx.at.iter().any(|a| excludes(query, &a.name));
                if !drops_style && !drops_at {
                    self.inline_transparent(inner, cx, out);
                    continue;
                }
            }
            out.push(n);
        }
    }

    fn body(&mut self, body: &[Node], cx: &Ctx) {
        let mut items: Vec<&Node> = vec![];
        self.inline_transparent(body, cx, &mut items);
        if cx.style.is_some() {
            for n in items.iter().filter(|n| is_own(n)) {
                self.own(n, cx, "");
            }
            for n in items.iter().filter(|n| !is_own(n)) {
                self.child(n, cx);
            }
        } else {
            for n in &items {
                if is_own(n) {
                    self.own(n, cx, "");
                } else {
                    self.child(n, cx);
                }
            }
        }
    }

    fn rule(&mut self, sel: &SelList, body: &[Node], cx: &Ctx) {
        // the parent is prefixed only while the parent style rule is in effect
        let implicit = cx.style.is_some();
        let resolved = resolve(sel, cx.amp.as_ref(), implicit);
        let inner = Ctx { at: cx.at.clone(), style: Some(resolved.clone()), amp: Some(resolved) };
        self.body(body, &inner);
    }

    fn child(&mut self, n: &Node, cx: &Ctx) {
        match n {
            Node::Rule { sel, body } => self.rule(sel, body, cx),
            Node::Media { query, body } => {
                let mut inner = cx.clone();
                inner.at.push(At { name: "media".into(), prelude: format!("@media {}", query) });
                self.body(body, &inner);
            }
            Node::Supports { cond, body } => {
                let mut inner = cx.clone();
                inner.at.push(At { name: "supports".into(), prelude: format!("@supports {}", cond) });
                self.body(body, &inner);
            }
            Node::Unknown { name, params, body: Some(body) } => {
                let mut inner = cx.clone();
                let prelude = if params.is_empty() { format!("@{}", name) } else { format!("@{} {}", name, params) };
                inner.at.push(At { name: name.clone(), prelude });
                self.body(body, &inner);
            }
            Node::AtRoot { query, sel, body } => {
                // `@at-root sel {..}` is `@at-root { sel {..} }`
                let q = if sel.is_some() { &None } else { query };
                let total = cx.at.len() + cx.style.is_some() as usize;
                let kept = cx.at.iter().filter(|a| !excludes(q, &a.name)).count()
                    + (cx.style.is_some() && !excludes(q, "rule")) as usize;
                if kept < total {
                    self.at_roots.push((kept, total - kept));
                }
                let inner = Ctx {
                    at: cx.at.iter().filter(|a| !excludes(q, &a.name)).cloned().collect(),
                    style: if excludes(q, "rule") { None } else { cx.style.clone() },
                    amp: cx.amp.clone(),
                };
                match sel {
                    Some(s) => self.rule(s, body, &inner),
                    None => self.body(body, &inner),
                }
            }
            _ => {}
        }
    }
}

/// The expected rows of a tree, in hand-flattening order.
pub fn flatten(t: &Tree) -> Vec<FlatRow> {
    flatten_info(t).0
}

/// The rows plus, for every `@at-root` that removes at least one enclosing rule from the
/// context, the pair (enclosing rules kept, enclosing rules removed).
pub fn flatten_info(t: &Tree) -> (Vec<FlatRow>, Vec<(usize, usize)>) {
    let mut m = Model { rows: vec![], at_roots: vec![] };
    let cx = Ctx { at: vec![], style: None, amp: None };
    m.body(&t.0, &cx);
    (m.rows, m.at_roots)
}

#[cfg(test)]
mod tests {
    use super::*;

    fn cmp(s: &[&str]) -> Compound {
        Compound { amp: None, simples: s.iter().map(|x| x.to_string()).collect() }
    }
    fn amp(suffix: &str, s: &[&str]) -> Compound {
        Compound { amp: Some(suffix.to_string()), simples: s.iter().map(|x| x.to_string()).collect() }
    }
    fn cx1(c: Compound) -> Complex {
        Complex { lead: None, first: c, rest: vec![] }
    }
    fn decl(p: &str, v: &str) -> Node {
        Node::Decl { prop: p.into(), value: v.into() }
    }
    fn row(at: &[&str], sel: &str, p: &str, v: &str) -> FlatRow {
        FlatRow { at_path: at.iter().map(|s| s.to_string()).collect(), selector: sel.into(), prop: p.into(), value: v.into() }
    }

    /// The examples of the Sass documentation (style-rules, parent-selector, at-root, css at-rules).
    #[test]
    fn documented_examples() {
        // a, b { c, d { p: v } }  ->  a c, a d, b c, b d
        let t = Tree(vec![Node::Rule {
            sel: SelList(vec![cx1(cmp(&["a"])), cx1(cmp(&["b"]))]),
            body: vec![Node::Rule {
                sel: SelList(vec![cx1(cmp(&["c"])), cx1(cmp(&["d"]))]),
                body: vec![decl("p", "v")],
            }],
        }]);
        assert_eq!(flatten(&t), vec![row(&[], "a c, a d, b c, b d", "p", "v")]);

        // .alert { &:hover {..} [dir=rtl] & {..} :not(&) } -- here: &:hover, .x &, &-s, & + &
        let t = Tree(vec![Node::Rule {
            sel: SelList(vec![cx1(cmp(&[".alert"])), cx1(cmp(&["b"]))]),
            body: vec![
                Node::Rule { sel: SelList(vec![cx1(amp("", &[":hover"]))]), body: vec![decl("p", "1")] },
                Node::Rule {
                    sel: SelList(vec![Complex { lead: None, first: cmp(&[".x"]), rest: vec![(Comb::Desc, amp("", &[]))] }]),
                    body: vec![decl("p", "2")],
                },
                Node::Rule { sel: SelList(vec![cx1(amp("-s", &[]))]), body: vec![decl("p", "3")] },
                Node::Rule {
                    sel: SelList(vec![Complex { lead: None, first: amp("", &[]), rest: vec![(Comb::Next, amp("", &[]))] }]),
                    body: vec![decl("p", "4")],
                },
                decl("q", "5"),
            ],
        }]);
        assert_eq!(
            flatten(&t),
            vec![
                row(&[], ".alert, b", "q", "5"),
                row(&[], ".alert:hover, b:hover", "p", "1"),
                row(&[], ".x .alert, .x b", "p", "2"),
                row(&[], ".alert-s, b-s", "p", "3"),
                row(&[], ".alert + .alert, .alert + b, b + .alert, b + b", "p", "4"),
            ]
        );

        // .print-only { display: none; @media print { display: block } }
        let t = Tree(vec![Node::Rule {
            sel: SelList(vec![cx1(cmp(&[".print-only"]))]),
            body: vec![
                decl("display", "none"),
                Node::Media { query: "print".into(), body: vec![decl("display", "block")] },
            ],
        }]);
        assert_eq!(
            flatten(&t),
            vec![row(&[], ".print-only", "display", "none"), row(&["@media print"], ".print-only", "display", "block")]
        );

        // @media print { .page { width: 8in; @at-root (without: media) { color: red } } }  (at-root docs)
        let t = Tree(vec![Node::Media {
            query: "print".into(),
            body: vec![Node::Rule {
                sel: SelList(vec![cx1(cmp(&[".page"]))]),
                body: vec![
                    decl("width", "8in"),
                    Node::AtRoot {
                        query: Some(Query { with: false, names: vec!["media".into()] }),
                        sel: None,
                        body: vec![decl("color", "red")],
                    },
                    Node::AtRoot {
                        query: Some(Query { with: true, names: vec!["rule".into()] }),
                        sel: None,
                        body: vec![decl("color", "blue")],
                    },
                    Node::AtRoot { query: None, sel: Some(SelList(vec![cx1(amp("-x", &[]))])), body: vec![decl("r", "1")] },
                    Node::AtRoot {
                        query: None,
                        sel: None,
                        body: vec![Node::Rule { sel: SelList(vec![cx1(cmp(&["k"]))]), body: vec![decl("r", "2")] }],
                    },
                ],
            }],
        }]);
        assert_eq!(
            flatten(&t),
            vec![
                row(&["@media print"], ".page", "width", "8in"),
                row(&[], ".page", "color", "red"),
                row(&[], ".page", "color", "blue"),
                row(&["@media print"], ".page-x", "r", "1"),
                row(&["@media print"], "k", "r", "2"),
            ]
        );

        // nested properties
        let t = Tree(vec![Node::Rule {
            sel: SelList(vec![cx1(cmp(&["a"]))]),
            body: vec![Node::Nested {
                name: "font".into(),
                value: Some("12px".into()),
                children: vec![
                    decl("family", "x"),
                    Node::Nested { name: "size".into(), value: None, children: vec![decl("a", "y")] },
                ],
            }],
        }]);
        assert_eq!(
            flatten(&t),
            vec![row(&[], "a", "font", "12px"), row(&[], "a", "font-family", "x"), row(&[], "a", "font-size-a", "y")]
        );
    }
}

//! Exact decimal arithmetic for C07: a small big-integer type, the exact decimal expansion of an
//! `f64`, a verified decimal -> nearest-double conversion, and the reference number formatter /
//! printed-text judge (<= 10 fractional digits, correctly rounded, either neighbour on a tie).
//!
//! Nothing here uses Rust's float *formatting*. `str::parse::<f64>` is used only to obtain a first
//! guess which is then verified (and corrected if necessary) against the exact expansion.

use std::cmp::Ordering;

const BASE: u64 = 1_000_000_000;

/// Unsigned big integer, little-endian limbs in base 1e9.
#[derive(Clone, Debug, PartialEq, Eq)]
pub struct BigUint {
    limbs: Vec<u32>,
}

impl BigUint {
    pub fn zero() -> BigUint {
        BigUint { limbs: vec![] }
    }
    pub fn from_u64(mut v: u64) -> BigUint {
        let mut limbs = vec![];
        while v > 0 {
            limbs.push((v % BASE) as u32);
            v /= BASE;
        }
        BigUint { limbs }
    }
    pub fn is_zero(&self) -> bool {
        self.limbs.is_empty()
    }
    fn trim(&mut self) {
        while let Some(&0) = self.limbs.last() {
            self.limbs.pop();
        }
    }
    pub fn mul_small(&mut self, m: u32) {
        if m == 0 {
            self.limbs.clear();
            return;
        }
        let mut carry: u64 = 0;
        for l in self.limbs.iter_mut() {
            let t = (*l as u64) * (m as u64) + carry;
            *l = (t % BASE) as u32;
            carry = t / BASE;
        }
        while carry > 0 {
            self.limbs.push((carry % BASE) as u32);
            carry /= BASE;
        }
    }
    pub fn add_small(&mut self, a: u32) {
        let mut carry = a as u64;
        let mut i = 0;
        while carry > 0 {
            if i == self.limbs.len() {
                self.limbs.push(0);
            }
            let t = self.limbs[i] as u64 + carry;
            self.limbs[i] = (t % BASE) as u32;
            carry = t / BASE;
            i += 1;
        }
    }
    /// multiply by 10^k
    pub fn mul_pow10(&mut self, k: u32) {
        if self.is_zero() {
            return;
        }
        let whole = (k / 9) as usize;
        let rest = k % 9;
        if rest > 0 {
            self.mul_small(10u32.pow(rest));
        }
        if whole > 0 {
            let mut v = vec![0u32; whole];
            v.extend_from_slice(&self.limbs);
            self.limbs = v;
        }
    }
    pub fn mul_pow2(&mut self, k: u32) {
        let mut k = k;
        while k >= 29 {
            self.mul_small(1 << 29);
            k -= 29;
        }
        if k > 0 {
            self.mul_small(1 << k);
        }
    }
    pub fn mul_pow5(&mut self, k: u32) {
        let mut k = k;
        while k >= 13 {
            self.mul_small(1_220_703_125); // 5^13
            k -= 13;
        }
        if k > 0 {
            self.mul_small(5u32.pow(k));
        }
    }
    pub fn add(&self, o: &BigUint) -> BigUint {
        let n = self.limbs.len().max(o.limbs.len());
        let mut out = Vec::with_capacity(n + 1);
        let mut carry = 0u64;
        for i in 0..n {
            let t = *self.limbs.get(i).unwrap_or(&0) as u64 + *o.limbs.get(i).unwrap_or(&0) as u64 + carry;
            out.push((t % BASE) as u32);
            carry = t / BASE;
        }
        if carry > 0 {
            out.push(carry as u32);
        }
        BigUint { limbs: out }
    }
    /// self - o, requires self >= o
    pub fn sub(&self, o: &BigUint) -> BigUint {
        debug_assert!(self.cmp(o) != Ordering::Less);
        let mut out = Vec::with_capacity(self.limbs.len());
        let mut borrow = 0i64;
        for i in 0..self.limbs.len() {
            let mut t = self.limbs[i] as i64 - *o.limbs.get(i).unwrap_or(&0) as i64 - borrow;
            if t < 0 {
                t += BASE as i64;
                borrow = 1;
            } else {
                borrow = 0;
            }
            out.push(t as u32);
        }
        let mut r = BigUint { limbs: out };
        r.trim();
        r
    }
    pub fn cmp(&self, o: &BigUint) -> Ordering {
        if self.limbs.len() != o.limbs.len() {
            return self.limbs.len().cmp(&o.limbs.len());
        }
        for i in (0..self.limbs.len()).rev() {
            if self.limbs[i] != o.limbs[i] {
                return self.limbs[i].cmp(&o.limbs[i]);
            }
        }
        Ordering::Equal
    }
    /// decimal digits, most significant first, "0" for zero
    pub fn to_dec_string(&self) -> String {
        if self.limbs.is_empty() {
            return "0".to_string();
        }
        let mut s = String::new();
        for (i, l) in self.limbs.iter().rev().enumerate() {
            if i == 0 {
                s.push_str(&l.to_string()); // integer formatting (u32), not float formatting
            } else {
                s.push_str(&format!("{:09}", l));
            }
        }
        s
    }
    pub fn from_dec_str(s: &str) -> Option<BigUint> {
        if s.is_empty() || !s.bytes().all(|b| b.is_ascii_digit()) {
            return None;
        }
        let b = s.as_bytes();
        let mut limbs = vec![];
        let mut end = b.len();
        while end > 0 {
            let start = end.saturating_sub(9);
            let mut v = 0u32;
            for &c in &b[start..end] {
                v = v * 10 + (c - b'0') as u32;
            }
            limbs.push(v);
            end = start;
        }
        let mut r = BigUint { limbs };
        r.trim();
        Some(r)
    }
}

/// Exact signed decimal: value = (-1)^neg * mag / 10^scale
#[derive(Clone, Debug)]
pub struct Dec {
    pub neg: bool,
    pub mag: BigUint,
    pub scale: u32,
}

impl Dec {
    pub fn zero() -> Dec {
        Dec { neg: false, mag: BigUint::zero(), scale: 0 }
    }
    pub fn is_zero(&self) -> bool {
        self.mag.is_zero()
    }
    pub fn abs(&self) -> Dec {
        Dec { neg: false, mag: self.mag.clone(), scale: self.scale }
    }
    fn rescaled(&self, scale: u32) -> BigUint {
        let mut m = self.mag.clone();
        m.mul_pow10(scale - self.scale);
        m
    }
    /// exact value of a finite double
    pub fn from_f64(x: f64) -> Dec {
        assert!(x.is_finite());
        let bits = x.to_bits();
        let neg = bits >> 63 == 1;
        let exp = ((bits >> 52) & 0x7ff) as i32;
        let frac = bits & ((1u64 << 52) - 1);
        let (m, e) = if exp == 0 { (frac, -1074) } else { (frac | (1u64 << 52), exp - 1075) };
        if m == 0 {
            return Dec { neg: false, mag: BigUint::zero(), scale: 0 };
        }
        // strip trailing zero bits so the expansion is as short as possible
        let tz = m.trailing_zeros() as i32;
        let (m, e) = (m >> tz, e + tz);
        let mut mag = BigUint::from_u64(m);
        if e >= 0 {
            mag.mul_pow2(e as u32);
            Dec { neg, mag, scale: 0 }
        } else {
            // m / 2^k = m * 5^k / 10^k
            let k = (-e) as u32;
            mag.mul_pow5(k);
            Dec { neg, mag, scale: k }
        }
    }
    /// parse `[-+]digits[.digits][(e|E)[-+]digits]` exactly
    pub fn parse(text: &str) -> Option<Dec> {
        let mut s = text;
        let mut neg = false;
        if let Some(r) = s.strip_prefix('-') {
            neg = true;
            s = r;
        } else if let Some(r) = s.strip_prefix('+') {
            s = r;
        }
        let (mant, exp) = match s.find(|c| c == 'e' || c == 'E') {
            Some(i) => (&s[..i], Some(&s[i + 1..])),
            None => (s, None),
        };
        let (ip, fp) = match mant.find('.') {
            Some(i) => (&mant[..i], &mant[i + 1..]),
            None => (mant, ""),
        };
        if ip.is_empty() && fp.is_empty() {
            return None;
        }
        if !ip.bytes().all(|b| b.is_ascii_digit()) || !fp.bytes().all(|b| b.is_ascii_digit()) {
            return None;
        }
        let digits = format!("{}{}", ip, fp);
        let mut mag = BigUint::from_dec_str(&digits)?;
        let mut scale = fp.len() as i64;
        if let Some(e) = exp {
            let ev: i64 = e.parse().ok()?;
            if ev.abs() > 5000 {
                return None;
            }
            scale -= ev;
        }
        if scale < 0 {
            mag.mul_pow10((-scale) as u32);
            scale = 0;
        }
        let neg = neg && !mag.is_zero();
        Some(Dec { neg, mag, scale: scale as u32 })
    }
    pub fn cmp(&self, o: &Dec) -> Ordering {
        let sz = self.is_zero();
        let oz = o.is_zero();
        let sneg = self.neg && !sz;
        let oneg = o.neg && !oz;
        match (sneg, oneg) {
            (false, true) => return Ordering::Greater,
            (true, false) => return Ordering::Less,
            _ => {}
        }
        let s = self.scale.max(o.scale);
        let c = self.rescaled(s).cmp(&o.rescaled(s));
        if sneg {
            c.reverse()
        } else {
            c
        }
    }
    pub fn add(&self, o: &Dec) -> Dec {
        let s = self.scale.max(o.scale);
        let a = self.rescaled(s);
        let b = o.rescaled(s);
        if self.neg == o.neg {
            Dec { neg: self.neg, mag: a.add(&b), scale: s }
        } else {
            match a.cmp(&b) {
                Ordering::Equal => Dec { neg: false, mag: BigUint::zero(), scale: s },
                Ordering::Greater => Dec { neg: self.neg, mag: a.sub(&b), scale: s },
                Ordering::Less => Dec { neg: o.neg, mag: b.sub(&a), scale: s },
            }
        }
    }
    pub fn negated(&self) -> Dec {
        Dec { neg: !self.neg, mag: self.mag.clone(), scale: self.scale }
    }
    pub fn sub(&self, o: &Dec) -> Dec {
        self.add(&o.negated())
    }
    pub fn doubled(&self) -> Dec {
        let mut m = self.mag.clone();
        m.mul_small(2);
        Dec { neg: self.neg, mag: m, scale: self.scale }
    }
    /// plain decimal text of the exact value (no rounding), for messages
    pub fn to_plain(&self) -> String {
        let d = self.mag.to_dec_string();
        let k = self.scale as usize;
        let mut s = String::new();
        if self.neg && !self.is_zero() {
            s.push('-');
        }
        if k == 0 {
            s.push_str(&d);
        } else if d.len() > k {
            s.push_str(&d[..d.len() - k]);
            s.push('.');
            s.push_str(&d[d.len() - k..]);
        } else {
            s.push_str("0.");
            s.push_str(&"0".repeat(k - d.len()));
            s.push_str(&d);
        }
        s
    }
}

pub fn next_up(x: f64) -> f64 {
    // for finite x
    if x == 0.0 {
        return f64::from_bits(1);
    }
    let b = x.to_bits();
    if x > 0.0 {
        f64::from_bits(b + 1)
    } else {
        f64::from_bits(b - 1)
    }
}

pub fn next_down(x: f64) -> f64 {
    -next_up(-x)
}

/// size of the larger of the two gaps around x (an upper bound of "one ulp at x")
pub fn ulp(x: f64) -> f64 {
    if !x.is_finite() {
        return f64::NAN;
    }
    let a = x.abs();
    let up = next_up(a);
    if up.is_finite() {
        up - a
    } else {
        a - next_down(a)
    }
}

/// Is the exact decimal `d` within half an ulp of `x` (i.e. would a correctly rounding reader map
/// `d` to `x`, ties included)?
pub fn rounds_to(d: &Dec, x: f64) -> bool {
    if !x.is_finite() {
        return false;
    }
    let ex = Dec::from_f64(x);
    let d2 = d.doubled();
    let up = next_up(x);
    let dn = next_down(x);
    // d <= (x+up)/2  and d >= (x+dn)/2
    let ok_up = if up.is_finite() { d2.cmp(&ex.add(&Dec::from_f64(up))) != Ordering::Greater } else { true };
    let ok_dn = if dn.is_finite() { d2.cmp(&ex.add(&Dec::from_f64(dn))) != Ordering::Less } else { true };
    ok_up && ok_dn
}

/// Nearest double of a decimal literal (`digits[.digits][e[+-]digits]` with optional sign).
/// The first guess comes from the standard library and is verified/corrected with exact arithmetic.
/// Returns None for texts that are not of that shape or whose value overflows.
pub fn nearest_f64(text: &str) -> Option<f64> {
    let d = Dec::parse(text)?;
    let mut x: f64 = text.parse().ok()?;
    if !x.is_finite() {
        return None;
    }
    for _ in 0..8 {
        if rounds_to(&d, x) {
            // choose the strictly nearer one if d is an exact midpoint (ties-to-even): check neighbours
            let ex = Dec::from_f64(x);
            let diff = d.sub(&ex);
            if diff.is_zero() {
                return Some(x);
            }
            let other = if diff.neg { next_down(x) } else { next_up(x) };
            if other.is_finite() && rounds_to(&d, other) {
                // exact midpoint: even mantissa wins
                return Some(if x.to_bits() & 1 == 0 { x } else { other });
            }
            return Some(x);
        }
        let ex = Dec::from_f64(x);
        x = if d.cmp(&ex) == Ordering::Greater { next_up(x) } else { next_down(x) };
        if !x.is_finite() {
            return None;
        }
    }
    None
}

pub const FRAC_DIGITS: u32 = 10;

/// Signed integer in units of 1e-10 (sign + magnitude).
#[derive(Clone, Debug, PartialEq, Eq)]
pub struct Fixed {
    pub neg: bool,
    pub mag: BigUint,
}

impl Fixed {
    pub fn cmp(&self, o: &Fixed) -> Ordering {
        let sneg = self.neg && !self.mag.is_zero();
        let oneg = o.neg && !o.mag.is_zero();
        match (sneg, oneg) {
            (false, true) => Ordering::Greater,
            (true, false) => Ordering::Less,
            (false, false) => self.mag.cmp(&o.mag),
            (true, true) => o.mag.cmp(&self.mag),
        }
    }
    /// canonical text: no exponent, no trailing zeros, no '+', no "-0"; leading 0 kept
    pub fn to_text(&self) -> String {
        let d = self.mag.to_dec_string();
        let k = FRAC_DIGITS as usize;
        let (ip, fp) = if d.len() > k {
            (d[..d.len() - k].to_string(), d[d.len() - k..].to_string())
        } else {
            ("0".to_string(), format!("{}{}", "0".repeat(k - d.len()), d))
        };
        let fp = fp.trim_end_matches('0');
        let mut s = String::new();
        if self.neg && !self.mag.is_zero() {
            s.push('-');
        }
        s.push_str(&ip);
        if !fp.is_empty() {
            s.push('.');
            s.push_str(fp);
        }
        s
    }
}

#[derive(Clone, Debug, PartialEq, Eq)]
pub enum TieKind {
    /// the exact value is not half-way between two 10-digit decimals
    None,
    /// the exact value is exactly half-way
    Exact,
    /// not exactly half-way, but the half-way decimal is indistinguishable from x in double precision
    /// (a reader maps it to x): an implementation rounding the shortest round-trip text sees a tie
    Indistinguishable,
}

/// The acceptable 10-digit roundings of the exact value of `x`: (smallest, largest, tie kind).
/// smallest == largest unless a tie is involved.
pub fn roundings(x: f64) -> (Fixed, Fixed, TieKind) {
    let d = Dec::from_f64(x);
    let neg = d.neg;
    // magnitude scaled to at least 11 fractional digits so that the tie point is representable
    let scale = d.scale.max(FRAC_DIGITS + 1);
    let mut m = d.mag.clone();
    m.mul_pow10(scale - d.scale);
    let digits = m.to_dec_string();
    let drop = (scale - FRAC_DIGITS) as usize;
    let (q_str, rem) = if digits.len() > drop {
        (digits[..digits.len() - drop].to_string(), digits[digits.len() - drop..].to_string())
    } else {
        ("0".to_string(), format!("{}{}", "0".repeat(drop - digits.len()), digits))
    };
    let q = BigUint::from_dec_str(&q_str).unwrap();
    let mut q1 = q.clone();
    q1.add_small(1);
    let first = rem.as_bytes()[0];
    let rest_zero = rem.as_bytes()[1..].iter().all(|&b| b == b'0');
    let (lo_m, hi_m, kind) = if first == b'5' && rest_zero {
        (q.clone(), q1.clone(), TieKind::Exact)
    } else {
        // tie point between q and q+1: (q + 0.5) * 1e-10
        let mut t = q.clone();
        t.mul_small(10);
        t.add_small(5);
        let tie = Dec { neg, mag: t, scale: FRAC_DIGITS + 1 };
        if rounds_to(&tie, x) {
            (q.clone(), q1.clone(), TieKind::Indistinguishable)
        } else if first >= b'5' {
            (q1.clone(), q1.clone(), TieKind::None)
        } else {
            (q.clone(), q.clone(), TieKind::None)
        }
    };
    if neg {
        (Fixed { neg: true, mag: hi_m }, Fixed { neg: true, mag: lo_m }, kind)
    } else {
        (Fixed { neg: false, mag: lo_m }, Fixed { neg: false, mag: hi_m }, kind)
    }
}

/// Does the exact expansion of x have a non-zero digit beyond the 10th fractional digit?
pub fn needs_rounding(x: f64) -> bool {
    let d = Dec::from_f64(x);
    if d.scale <= FRAC_DIGITS {
        return false;
    }
    // from_f64 strips trailing zero bits, so mag is not divisible by 10 when scale > 0 ... not
    // guaranteed in general; test the dropped digits explicitly
    let s = d.mag.to_dec_string();
    let drop = (d.scale - FRAC_DIGITS) as usize;
    let tail = if s.len() > drop { &s[s.len() - drop..] } else { &s[..] };
    tail.bytes().any(|b| b != b'0')
}

/// Reference text of a finite double (nearest; on an exact tie the neighbour away from zero, as
/// dart-sass prints it). Used for messages and samples; judging is done by `judge_printed`.
pub fn reference_text(x: f64, compressed: bool) -> String {
    let (lo, hi, _) = roundings(x);
    let pick = if x < 0.0 { lo } else { hi };
    let t = pick.to_text();
    if compressed {
        strip_leading_zero(&t)
    } else {
        t
    }
}

pub fn strip_leading_zero(t: &str) -> String {
    if let Some(r) = t.strip_prefix("0.") {
        format!(".{}", r)
    } else if let Some(r) = t.strip_prefix("-0.") {
        format!("-.{}", r)
    } else {
        t.to_string()
    }
}

/// Syntactic judgement of a printed number and its value in units of 1e-10.
/// Rules: optional '-', digits, optional '.' + 1..=10 digits; no exponent, no '+', no trailing zero
/// in the fraction, no redundant leading zeros, not "-0"; the integer part may be absent only in
/// compressed mode (".5", "-.5") and must be present in expanded mode.
pub fn parse_printed(text: &str, compressed: bool) -> Result<Fixed, String> {
    let (neg, body) = match text.strip_prefix('-') {
        Some(r) => (true, r),
        None => (false, text),
    };
    if body.is_empty() {
        return Err("empty number".into());
    }
    if body.contains(|c| c == 'e' || c == 'E') {
        return Err("exponent notation".into());
    }
    if body.starts_with('+') || text.starts_with('+') {
        return Err("explicit '+' sign".into());
    }
    let (ip, fp) = match body.find('.') {
        Some(i) => (&body[..i], Some(&body[i + 1..])),
        None => (body, None),
    };
    if !ip.bytes().all(|b| b.is_ascii_digit()) || !fp.unwrap_or("").bytes().all(|b| b.is_ascii_digit()) {
        return Err("not a plain decimal number".into());
    }
    if let Some(f) = fp {
        if f.is_empty() {
            return Err("'.' without fractional digits".into());
        }
        if f.len() > FRAC_DIGITS as usize {
            return Err(format!("{} fractional digits (more than 10)", f.len()));
        }
        if f.ends_with('0') {
            return Err("trailing zero in the fraction".into());
        }
    }
    if ip.is_empty() {
        if fp.is_none() {
            return Err("no digits".into());
        }
        if !compressed {
            return Err("leading zero omitted in expanded mode".into());
        }
    } else if ip.len() > 1 && ip.starts_with('0') {
        return Err("redundant leading zero".into());
    }
    let f = fp.unwrap_or("");
    let digits = format!("{}{}{}", if ip.is_empty() { "0" } else { ip }, f, "0".repeat(FRAC_DIGITS as usize - f.len()));
    let mag = BigUint::from_dec_str(&digits).ok_or("bad digits")?;
    if neg && mag.is_zero() {
        return Err("negative zero".into());
    }
    Ok(Fixed { neg, mag })
}

#[derive(Clone, Debug)]
pub struct PrintJudgement {
    pub ok: bool,
    pub reason: String,
    pub tie: TieKind,
}

/// Judge the printed text of a number whose value is known to lie in [lo, hi] (lo == hi for an
/// exactly known double): it must be syntactically canonical and equal to an acceptable rounding of
/// some value in the interval.
pub fn judge_printed(text: &str, lo: f64, hi: f64, compressed: bool) -> PrintJudgement {
    let (a, _, k1) = roundings(lo);
    let (_, b, k2) = if lo.to_bits() == hi.to_bits() { roundings(lo) } else { roundings(hi) };
    let tie = if k1 != TieKind::None { k1 } else { k2 };
    match parse_printed(text, compressed) {
        Err(e) => PrintJudgement { ok: false, reason: e, tie },
        Ok(p) => {
            if p.cmp(&a) == Ordering::Less || p.cmp(&b) == Ordering::Greater {
                PrintJudgement {
                    ok: false,
                    reason: format!("value not an acceptable rounding (acceptable: {} .. {})", a.to_text(), b.to_text()),
                    tie,
                }
            } else {
                PrintJudgement { ok: true, reason: String::new(), tie }
            }
        }
    }
}

#[cfg(test)]
mod tests {
    use super::*;

    #[test]
    fn expansions() {
        assert_eq!(Dec::from_f64(0.5).to_plain(), "0.5");
        assert_eq!(Dec::from_f64(0.1).to_plain(), "0.1000000000000000055511151231257827021181583404541015625");
        assert_eq!(Dec::from_f64(-3.0).to_plain(), "-3");
        assert_eq!(Dec::from_f64(1e18).to_plain(), "1000000000000000000");
        assert_eq!(Dec::from_f64(1e21).to_plain(), "1000000000000000000000");
        assert_eq!(Dec::from_f64(5e-324).to_plain().len(), 2 + 1074);
        assert_eq!(Dec::from_f64(2f64.powi(70)).to_plain(), "1180591620717411303424");
    }

    #[test]
    fn reference() {
        assert_eq!(reference_text(0.1 + 0.2, false), "0.3");
        assert_eq!(reference_text(0.99999999999, false), "1");
        assert_eq!(reference_text(0.99999999999, true), "1");
        assert_eq!(reference_text(-0.00000000001, false), "0");
        assert_eq!(reference_text(-0.5, true), "-.5");
        assert_eq!(reference_text(1.0 / 3.0, false), "0.3333333333");
        assert_eq!(reference_text(2.0 / 3.0, true), ".6666666667");
        assert_eq!(reference_text(123456.0, false), "123456");
        // 2^-11 = 0.00048828125 is an exact tie at the 10th digit
        let (lo, hi, k) = roundings(0.00048828125);
        assert_eq!(k, TieKind::Exact);
        assert_eq!(lo.to_text(), "0.0004882812");
        assert_eq!(hi.to_text(), "0.0004882813");
        // 0.12345678905 is not exactly representable; the tie decimal reads back as the same double
        let (_, _, k) = roundings(0.12345678905);
        assert_eq!(k, TieKind::Indistinguishable);
        let (_, _, k) = roundings(0.123456789051);
        assert_eq!(k, TieKind::None);
    }

    #[test]
    fn judge() {
        assert!(judge_printed("0.3", 0.3, 0.3, false).ok);
        assert!(judge_printed(".3", 0.3, 0.3, true).ok);
        assert!(judge_printed("0.3", 0.3, 0.3, true).ok);
        assert!(!judge_printed(".3", 0.3, 0.3, false).ok);
        assert!(!judge_printed("0.30", 0.3, 0.3, false).ok);
        assert!(!judge_printed("3e-1", 0.3, 0.3, false).ok);
        assert!(!judge_printed("+0.3", 0.3, 0.3, false).ok);
        assert!(!judge_printed("-0", -1e-12, -1e-12, false).ok);
        assert!(judge_printed("0", -1e-12, -1e-12, false).ok);
        assert!(!judge_printed("0", 0.99999999999, 0.99999999999, true).ok);
        assert!(judge_printed("1", 0.99999999999, 0.99999999999, true).ok);
        assert!(!judge_printed("0.33333333333", 1.0 / 3.0, 1.0 / 3.0, false).ok);
        assert!(!judge_printed("0.333333333", 1.0 / 3.0, 1.0 / 3.0, false).ok);
        assert!(judge_printed("0.3333333334", 0.33333333334, 0.33333333336, false).ok);
        assert!(judge_printed("0.3333333333", 0.33333333334, 0.33333333336, false).ok);
        assert!(!judge_printed("0.3333333335", 0.33333333334, 0.33333333336, false).ok);
    }

    #[test]
    fn nearest() {
        for t in ["0.1", "0.3", "1e-12", "123456789.123456789", "0.99999999995", "9007199254740993", "1.5e-3", "4.35", "2.675", "1e23", "8.41e21"] {
            let x = nearest_f64(t).unwrap();
            assert!(rounds_to(&Dec::parse(t).unwrap(), x), "{}", t);
            assert_eq!(x, t.parse::<f64>().unwrap(), "{}", t);
        }
        // exact midpoint between 2^53 and 2^53+2 -> even
        assert_eq!(nearest_f64("9007199254740993").unwrap(), 9007199254740992.0);
    }
}

//! CSS canonicaliser: reduces a stylesheet to a tree whose equality means "same CSS up to
//! insignificant whitespace, optional semicolons, non-preserved comments and equivalent spellings
//! of numbers and colours". Built on `oracle::css`; independent of grass.

use super::css::{self, Node, Tok};
use crate::engine::verif_root;
use serde::Serialize;
use std::collections::HashMap;
use std::sync::OnceLock;

#[derive(Clone, Debug, PartialEq, Serialize)]
pub enum CTok {
    Ident(String),
    Func(String),
    At(String),
    Hash(String),
    Str(String),
    Url(String),
    /// canonical decimal text (no leading/trailing zeros, no '+', "-0" -> "0") and unit
    Num(String, String),
    /// r g b in 0..=255 and alpha; `approx` = came from hsl()/hwb() notation (rounding is C15's subject)
    Color { rgb: [i64; 3], alpha: f64, approx: bool },
    Delim(char),
    Ws,
    Colon,
    Comma,
    Open(char),
    Close(char),
    Semi,
    Brace(char),
}

pub fn named_colors() -> &'static HashMap<String, [i64; 3]> {
    static T: OnceLock<HashMap<String, [i64; 3]>> = OnceLock::new();
    T.get_or_init(|| {
        let p = verif_root().join("data").join("css_named_colors.txt");
        let txt = std::fs::read_to_string(p).unwrap_or_default();
        let mut m = HashMap::new();
        for l in txt.lines() {
            if l.starts_with('#') || l.trim().is_empty() {
                continue;
            }
            let f: Vec<&str> = l.split_whitespace().collect();
            if f.len() == 4 {
                if let (Ok(r), Ok(g), Ok(b)) = (f[1].parse(), f[2].parse(), f[3].parse()) {
                    m.insert(f[0].to_string(), [r, g, b]);
                }
            }
        }
        m
    })
}

/// canonical decimal spelling of a CSS number token text; None if it has an exponent we do not expand
pub fn canon_number(n: &str) -> String {
    let (neg, body) = match n.strip_prefix('-') {
        Some(b) => (true, b),
        None => (false, n.strip_prefix('+').unwrap_or(n)),
    };
    if body.contains('e') || body.contains('E') {
        // expand small exponents exactly
        let (m, e) = body.split_once(|c| c == 'e' || c == 'E').unwrap();
        if let Ok(exp) = e.parse::<i32>() {
            if exp.abs() <= 30 {
                let (ip, fp) = m.split_once('.').unwrap_or((m, ""));
                let digits = format!("{}{}", ip, fp);
                let point = ip.len() as i32 + exp;
                let s = if point <= 0 {
                    format!("0.{}{}", "0".repeat((-point) as usize), digits)
                } else if point as usize >= digits.len() {
                    format!("{}{}", digits, "0".repeat(point as usize - digits.len()))
                } else {
                    format!("{}.{}", &digits[..point as usize], &digits[point as usize..])
                };
                return canon_number(&format!("{}{}", if neg { "-" } else { "" }, s));
            }
        }
        return n.to_ascii_lowercase();
    }
    let (ip, fp) = body.split_once('.').unwrap_or((body, ""));
    let ip = ip.trim_start_matches('0');
    let fp = fp.trim_end_matches('0');
    let mut s = String::new();
    let zero = ip.is_empty() && fp.is_empty();
    if neg && !zero {
        s.push('-');
    }
    s.push_str(if ip.is_empty() { "0" } else { ip });
    if !fp.is_empty() {
        s.push('.');
        s.push_str(fp);
    }
    s
}

fn hex_color(h: &str) -> Option<([i64; 3], f64)> {
    if !h.chars().all(|c| c.is_ascii_hexdigit()) {
        return None;
    }
    let v: Vec<i64> = h.chars().map(|c| c.to_digit(16).unwrap() as i64).collect();
    match v.len() {
        3 => Some(([v[0] * 17, v[1] * 17, v[2] * 17], 1.0)),
        4 => Some(([v[0] * 17, v[1] * 17, v[2] * 17], (v[3] * 17) as f64 / 255.0)),
        6 => Some(([v[0] * 16 + v[1], v[2] * 16 + v[3], v[4] * 16 + v[5]], 1.0)),
        8 => Some((
            [v[0] * 16 + v[1], v[2] * 16 + v[3], v[4] * 16 + v[5]],
            (v[6] * 16 + v[7]) as f64 / 255.0,
        )),
        _ => None,
    }
}

fn num_of(t: &Tok) -> Option<(f64, String)> {
    if let Tok::Num(n, u) = t {
        n.parse::<f64>().ok().map(|v| (v, u.to_ascii_lowercase()))
    } else {
        None
    }
}

fn hsl_to_rgb(h: f64, s: f64, l: f64) -> [i64; 3] {
    let h = ((h % 360.0) + 360.0) % 360.0 / 360.0;
    let s = s.clamp(0.0, 1.0);
    let l = l.clamp(0.0, 1.0);
    let m2 = if l <= 0.5 { l * (s + 1.0) } else { l + s - l * s };
    let m1 = l * 2.0 - m2;
    let f = |mut h: f64| {
        if h < 0.0 {
            h += 1.0
        }
        if h > 1.0 {
            h -= 1.0
        }
        let v = if h * 6.0 < 1.0 {
            m1 + (m2 - m1) * h * 6.0
        } else if h * 2.0 < 1.0 {
            m2
        } else if h * 3.0 < 2.0 {
            m1 + (m2 - m1) * (2.0 / 3.0 - h) * 6.0
        } else {
            m1
        };
        (v * 255.0).round() as i64
    };
    [f(h + 1.0 / 3.0), f(h), f(h - 1.0 / 3.0)]
}

/// try to read `name(args)` starting at toks[i] (a Function token) as a colour
fn color_function(toks: &[Tok], i: usize) -> Option<(CTok, usize)> {
    let name = match &toks[i] {
        Tok::Function(n) => n.to_ascii_lowercase(),
        _ => return None,
    };
    if !matches!(name.as_str(), "rgb" | "rgba" | "hsl" | "hsla") {
        return None;
    }
    let mut j = i + 1;
    let mut args: Vec<(f64, String)> = vec![];
    while j < toks.len() {
        match &toks[j] {
            Tok::RParen => break,
            Tok::Ws | Tok::Comma | Tok::Delim('/') => {}
            t => match num_of(t) {
                Some(a) => args.push(a),
                None => return None,
            },
        }
        j += 1;
    }
    if j >= toks.len() || !(args.len() == 3 || args.len() == 4) {
        return None;
    }
    let alpha = if args.len() == 4 {
        if args[3].1 == "%" {
            args[3].0 / 100.0
        } else {
            args[3].0
        }
    } else {
        1.0
    };
    let ch = |a: &(f64, String)| -> i64 {
        if a.1 == "%" {
            (a.0 * 255.0 / 100.0).round() as i64
        } else {
            a.0.round() as i64
        }
    };
    if name.starts_with("rgb") {
        Some((
            CTok::Color {
                rgb: [ch(&args[0]).clamp(0, 255), ch(&args[1]).clamp(0, 255), ch(&args[2]).clamp(0, 255)],
                alpha,
                approx: false,
            },
            j + 1,
        ))
    } else {
        if args[1].1 != "%" || args[2].1 != "%" {
            return None;
        }
        let h = match args[0].1.as_str() {
            "" | "deg" => args[0].0,
            "turn" => args[0].0 * 360.0,
            "rad" => args[0].0.to_degrees(),
            "grad" => args[0].0 * 0.9,
            _ => return None,
        };
        Some((
            CTok::Color {
                rgb: hsl_to_rgb(h, args[1].0 / 100.0, args[2].0 / 100.0),
                alpha,
                approx: true,
            },
            j + 1,
        ))
    }
}

#[derive(Clone, Copy, Debug, PartialEq)]
pub struct CanonOpts {
    /// map colour spellings (names, hex, rgb(), hsl()) to one representation
    pub colors: bool,
    /// compare numbers by value
    pub numbers: bool,
}

impl CanonOpts {
    pub const FULL: CanonOpts = CanonOpts {
        colors: true,
        numbers: true,
    };
}

/// canonical form of a value / prelude token sequence
pub fn canon_tokens(toks: &[Tok], o: CanonOpts) -> Vec<CTok> {
    let mut out: Vec<CTok> = vec![];
    let mut i = 0;
    while i < toks.len() {
        let t = &toks[i];
        match t {
            Tok::Comment(..) => {}
            Tok::Ws => out.push(CTok::Ws),
            Tok::Ident(s) => {
                let lower = s.to_ascii_lowercase();
                if o.colors {
                    if let Some(rgb) = named_colors().get(&lower) {
                        out.push(CTok::Color {
                            rgb: *rgb,
                            alpha: 1.0,
                            approx: false,
                        });
                        i += 1;
                        continue;
                    }
                    if lower == "transparent" {
                        out.push(CTok::Color {
                            rgb: [0, 0, 0],
                            alpha: 0.0,
                            approx: false,
                        });
                        i += 1;
                        continue;
                    }
                }
                out.push(CTok::Ident(s.clone()))
            }
            Tok::Function(n) => {
                if o.colors {
                    if let Some((c, next)) = color_function(toks, i) {
                        out.push(c);
                        i = next;
                        continue;
                    }
                }
                out.push(CTok::Func(n.clone()))
            }
            Tok::AtKeyword(s) => out.push(CTok::At(s.clone())),
            Tok::Hash(h) => {
                if o.colors {
                    if let Some((rgb, alpha)) = hex_color(h) {
                        out.push(CTok::Color {
                            rgb,
                            alpha,
                            approx: false,
                        });
                        i += 1;
                        continue;
                    }
                }
                out.push(CTok::Hash(h.clone()))
            }
            Tok::Str(s) | Tok::BadStr(s) => out.push(CTok::Str(s.clone())),
            Tok::Url(u) => out.push(CTok::Url(u.clone())),
            Tok::Num(n, u) => {
                if o.numbers {
                    out.push(CTok::Num(canon_number(n), u.clone()))
                } else {
                    out.push(CTok::Num(n.clone(), u.clone()))
                }
            }
            Tok::Delim(c) => out.push(CTok::Delim(*c)),
            Tok::Colon => out.push(CTok::Colon),
            Tok::Semi => out.push(CTok::Semi),
            Tok::Comma => out.push(CTok::Comma),
            Tok::LBrace => out.push(CTok::Brace('{')),
            Tok::RBrace => out.push(CTok::Brace('}')),
            Tok::LParen => out.push(CTok::Open('(')),
            Tok::RParen => out.push(CTok::Close(')')),
            Tok::LBracket => out.push(CTok::Open('[')),
            Tok::RBracket => out.push(CTok::Close(']')),
            Tok::Cdo | Tok::Cdc => {}
        }
        i += 1;
    }
    // whitespace: drop at the ends, next to , / : ( ) [ ] { } ; and before '!' ; collapse runs
    let mut res: Vec<CTok> = vec![];
    let glue = |t: &CTok| {
        matches!(
            t,
            CTok::Comma
                | CTok::Delim('/')
                | CTok::Delim('*')
                | CTok::Colon
                | CTok::Open(_)
                | CTok::Close(_)
                | CTok::Func(_)
                | CTok::Semi
                | CTok::Brace(_)
                | CTok::Delim('>')
                | CTok::Delim('~')
                | CTok::Delim('=')
        )
    };
    for (k, t) in out.iter().enumerate() {
        if *t == CTok::Ws {
            let prev = res.last();
            let next = out[k + 1..].iter().find(|x| **x != CTok::Ws);
            if prev.is_none() || next.is_none() {
                continue;
            }
            if prev.map(|p| glue(p) || *p == CTok::Ws).unwrap_or(false) {
                continue;
            }
            if next.map(|n| glue(n) || *n == CTok::Delim('!')).unwrap_or(false) {
                continue;
            }
            res.push(CTok::Ws);
        } else {
            res.push(t.clone());
        }
    }
    res
}

#[derive(Clone, Debug, PartialEq, Serialize)]
pub enum CNode {
    Rule { selector: String, children: Vec<CNode> },
    AtBlock { prelude: Vec<CTok>, children: Vec<CNode> },
    Decl { name: String, value: Vec<CTok>, important_last: bool },
    AtStmt { prelude: Vec<CTok> },
    Comment(String),
    Junk(Vec<CTok>),
}

#[derive(Clone, Copy, Debug, PartialEq)]
pub enum Comments {
    /// keep every comment between statements (whitespace-squeezed)
    All,
    /// keep only preserved comments `/*! … */`
    Preserved,
    None,
}

/// true if the block holds nothing but comments (possibly inside nested style rules / @media /
/// @supports); unknown at-rules are never dropped by Sass, so they do not count
fn only_ignored_comments(prelude: &[Tok], children: &[Node]) -> bool {
    if matches!(prelude.first(), Some(Tok::AtKeyword(k)) if !matches!(k.to_ascii_lowercase().as_str(), "media" | "supports")) {
        return false;
    }
    !children.is_empty()
        && children.iter().all(|c| match c {
            Node::Comment(_) => true,
            Node::Block { prelude, children } => only_ignored_comments(prelude, children),
            _ => false,
        })
}

pub fn canon_nodes(nodes: &[Node], o: CanonOpts, comments: Comments) -> Vec<CNode> {
    let mut out = vec![];
    for n in nodes {
        match n {
            Node::Block { prelude, children } => {
                let ch = canon_nodes(children, o, comments);
                // a block whose only content is comments that this comparison ignores is itself
                // ignored (compressed output omits such a rule together with its comment)
                if ch.is_empty() && only_ignored_comments(prelude, children) {
                    continue;
                }
                if matches!(prelude.first(), Some(Tok::AtKeyword(_))) {
                    out.push(CNode::AtBlock {
                        prelude: canon_tokens(prelude, o),
                        children: ch,
                    });
                } else {
                    out.push(CNode::Rule {
                        selector: css::canon_selector(&css::render(prelude)),
                        children: ch,
                    });
                }
            }
            Node::Decl { name, value } => {
                let nm = css::squeeze(&css::render(name));
                let v = canon_tokens(value, o);
                out.push(CNode::Decl {
                    name: nm,
                    value: v,
                    important_last: false,
                });
            }
            Node::AtStmt { prelude } => out.push(CNode::AtStmt {
                prelude: canon_tokens(prelude, o),
            }),
            Node::Comment(c) => match comments {
                Comments::All => out.push(CNode::Comment(css::squeeze(c))),
                Comments::Preserved if c.starts_with('!') => out.push(CNode::Comment(css::squeeze(c))),
                _ => {}
            },
            Node::Junk(t) => out.push(CNode::Junk(canon_tokens(t, o))),
        }
    }
    out
}

pub fn canon_sheet(css_text: &str, o: CanonOpts, comments: Comments) -> Vec<CNode> {
    let text = css_text.strip_prefix('\u{feff}').unwrap_or(css_text);
    let toks = css::tokenize(text);
    let mut nodes = css::parse_nodes(&toks);
    // a leading @charset is encoding metadata, not content
    if let Some(Node::AtStmt { prelude }) = nodes.first() {
        if matches!(prelude.first(), Some(Tok::AtKeyword(k)) if k.eq_ignore_ascii_case("charset")) {
            nodes.remove(0);
        }
    }
    canon_nodes(&nodes, o, comments)
}

/// drop every whitespace token from values and preludes (token-stream comparison)
pub fn strip_ws(nodes: Vec<CNode>) -> Vec<CNode> {
    let f = |v: Vec<CTok>| -> Vec<CTok> { v.into_iter().filter(|t| *t != CTok::Ws).collect() };
    nodes
        .into_iter()
        .map(|n| match n {
            CNode::Rule { selector, children } => CNode::Rule {
                selector,
                children: strip_ws(children),
            },
            CNode::AtBlock { prelude, children } => CNode::AtBlock {
                prelude: f(prelude),
                children: strip_ws(children),
            },
            CNode::Decl { name, value, important_last } => CNode::Decl {
                name,
                value: f(value),
                important_last,
            },
            CNode::AtStmt { prelude } => CNode::AtStmt { prelude: f(prelude) },
            CNode::Junk(j) => CNode::Junk(f(j)),
            c => c,
        })
        .collect()
}

/// equality of canonical token sequences with the colour tolerances of C06: alpha to 1e-9, and
/// +-1 per channel when either side was written in hsl() notation
pub fn ctoks_eq(a: &[CTok], b: &[CTok]) -> bool {
    if a.len() != b.len() {
        return false;
    }
    a.iter().zip(b).all(|(x, y)| match (x, y) {
        (
            CTok::Color { rgb: r1, alpha: a1, approx: p1 },
            CTok::Color { rgb: r2, alpha: a2, approx: p2 },
        ) => {
            let tol = if *p1 || *p2 { 1 } else { 0 };
            (0..3).all(|k| (r1[k] - r2[k]).abs() <= tol) && (a1 - a2).abs() <= 1e-9
        }
        _ => x == y,
    })
}

/// first difference between two canonical trees, as a path + description; None if equal
pub fn diff(a: &[CNode], b: &[CNode]) -> Option<String> {
    fn go(a: &[CNode], b: &[CNode], path: &str) -> Option<String> {
        for k in 0..a.len().max(b.len()) {
            let p = format!("{}/{}", path, k);
            match (a.get(k), b.get(k)) {
                (Some(x), Some(y)) => match (x, y) {
                    (CNode::Rule { selector: s1, children: c1 }, CNode::Rule { selector: s2, children: c2 }) => {
                        if s1 != s2 {
                            return Some(format!("{}: selector {:?} vs {:?}", p, s1, s2));
                        }
                        if let Some(d) = go(c1, c2, &p) {
                            return Some(d);
                        }
                    }
                    (CNode::AtBlock { prelude: p1, children: c1 }, CNode::AtBlock { prelude: p2, children: c2 }) => {
                        if !ctoks_eq(p1, p2) {
                            return Some(format!("{}: at-rule prelude {:?} vs {:?}", p, p1, p2));
                        }
                        if let Some(d) = go(c1, c2, &p) {
                            return Some(d);
                        }
                    }
                    (CNode::Decl { name: n1, value: v1, .. }, CNode::Decl { name: n2, value: v2, .. }) => {
                        if n1 != n2 {
                            return Some(format!("{}: property {:?} vs {:?}", p, n1, n2));
                        }
                        if !ctoks_eq(v1, v2) {
                            return Some(format!("{}: value of {} {:?} vs {:?}", p, n1, v1, v2));
                        }
                    }
                    (CNode::AtStmt { prelude: p1 }, CNode::AtStmt { prelude: p2 }) => {
                        if !ctoks_eq(p1, p2) {
                            return Some(format!("{}: at-statement {:?} vs {:?}", p, p1, p2));
                        }
                    }
                    (CNode::Comment(c1), CNode::Comment(c2)) => {
                        if c1 != c2 {
                            return Some(format!("{}: comment {:?} vs {:?}", p, c1, c2));
                        }
                    }
                    (CNode::Junk(j1), CNode::Junk(j2)) => {
                        if !ctoks_eq(j1, j2) {
                            return Some(format!("{}: {:?} vs {:?}", p, j1, j2));
                        }
                    }
                    _ => return Some(format!("{}: node kinds differ: {:?} vs {:?}", p, x, y)),
                },
                (Some(x), None) => return Some(format!("{}: only in first: {:?}", p, x)),
                (None, Some(y)) => return Some(format!("{}: only in second: {:?}", p, y)),
                (None, None) => {}
            }
        }
        None
    }
    go(a, b, "")
}

#[cfg(test)]
mod tests {
    use super::*;
    #[test]
    fn numbers() {
        assert_eq!(canon_number(".5"), "0.5");
        assert_eq!(canon_number("0.50"), "0.5");
        assert_eq!(canon_number("-0.0"), "0");
        assert_eq!(canon_number("+010"), "10");
        assert_eq!(canon_number("1e3"), "1000");
        assert_eq!(canon_number("1.5e-2"), "0.015");
    }
    #[test]
    fn styles_agree() {
        let a = canon_sheet("a > b, c {\n  color: #ff0000;\n  margin: 0.5px 1px;\n  x: a, b;\n}\n", CanonOpts::FULL, Comments::Preserved);
        let b = canon_sheet("a>b,c{color:red;margin:.5px 1px;x:a,b}", CanonOpts::FULL, Comments::Preserved);
        assert_eq!(diff(&a, &b), None);
    }
}

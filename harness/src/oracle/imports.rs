//! Import-resolution model for C13, written from the property text (properties.jsonl C13), the Sass
//! documentation ("Finding the file", "Load paths", "Partials", "Index files", "Import-only files",
//! "Importing CSS / plain CSS @imports") and dart-sass 1.54 behaviour. Nothing here looks at grass.
//!
//! Search order (property text): the URL is looked up relative to the importing file first and then
//! in each load path in order; the first location that has a match wins. Within a location:
//!
//! * URL ends in `.sass`/`.scss`/`.css`: only the literal path and its `_partial` are tried (for
//!   `@import` the `stem.import.ext` variant and its partial are preferred); no index search;
//! * otherwise (the extension is APPENDED to the whole basename, dots are kept):
//!   for `@import` first `name.import.sass|scss` (+ partials), then `name.import.css` (+ partial);
//!   then `name.sass|scss` (+ partials), then `name.css` (+ partial); if none exists and `name` is a
//!   directory, the same search for `name/index`.
//!
//! Files of one group have the same priority; two existing files in one group (in one location) are
//! what dart-sass reports as ambiguous, such layouts are outside the property's domain.

use std::collections::BTreeSet;

#[derive(Clone, Copy, Debug, PartialEq, Eq, Hash, serde::Serialize, serde::Deserialize, PartialOrd, Ord)]
pub enum Rule {
    Import,
    Use,
    Forward,
}

/// Lexical path normalisation: removes `.` and empty segments, folds `a/..`; a relative path that
/// climbs above its start keeps the leading `..` segments; `..` at the root of an absolute path is
/// dropped.
pub fn normalize(p: &str) -> String {
    let abs = p.starts_with('/');
    let mut out: Vec<&str> = vec![];
    for seg in p.split('/') {
        match seg {
            "" | "." => {}
            ".." => {
                if out.last().map(|s| *s != "..").unwrap_or(false) {
                    out.pop();
                } else if !abs {
                    out.push("..");
                }
            }
            s => out.push(s),
        }
    }
    let j = out.join("/");
    if abs {
        format!("/{}", j)
    } else {
        j
    }
}

pub fn join(base: &str, rel: &str) -> String {
    if rel.starts_with('/') || base.is_empty() {
        rel.to_string()
    } else if base.ends_with('/') {
        format!("{}{}", base, rel)
    } else {
        format!("{}/{}", base, rel)
    }
}

/// directory part of a path as written ("" when there is none)
pub fn dirname(p: &str) -> &str {
    match p.rfind('/') {
        Some(0) => "/",
        Some(i) => &p[..i],
        None => "",
    }
}

pub fn basename(p: &str) -> &str {
    match p.rfind('/') {
        Some(i) => &p[i + 1..],
        None => p,
    }
}

/// `Some(ext)` (with the dot) when the URL "already ends in .sass/.scss/.css"
pub fn explicit_ext(url: &str) -> Option<&'static str> {
    for e in [".sass", ".scss", ".css"] {
        // a bare ".scss" has no basename; not generated, not classified as explicit
        if url.ends_with(e) && basename(url).len() > e.len() {
            return Some(e);
        }
    }
    None
}

/// The virtual tree: the set of normalised file paths that exist.
#[derive(Clone, Debug, Default)]
pub struct Tree {
    pub files: BTreeSet<String>,
}

impl Tree {
    pub fn new<I: IntoIterator<Item = String>>(it: I) -> Tree {
        Tree {
            files: it.into_iter().map(|p| normalize(&p)).collect(),
        }
    }
    pub fn is_file(&self, p: &str) -> bool {
        self.files.contains(&normalize(p))
    }
    pub fn is_dir(&self, p: &str) -> bool {
        let n = normalize(p);
        if n.is_empty() {
            return true;
        }
        let pre = if n == "/" { n } else { format!("{}/", n) };
        self.files.iter().any(|f| f.starts_with(&pre))
    }
}

/// One priority group of candidate paths (normalised) in one location.
#[derive(Clone, Debug, PartialEq, Eq)]
pub struct Group {
    /// 0 = importing file's directory, 1.. = load paths in order
    pub loc: usize,
    /// true for the groups of the `name/index` search (only consulted when `dir` is a directory)
    pub index_level: bool,
    /// the directory whose existence gates the index-level groups (normalised), "" for direct groups
    pub dir: String,
    /// the `*.import.*` groups (only present for `@import`, or when `liberal`)
    pub import_only: bool,
    /// the `.css` fallback groups
    pub css: bool,
    pub paths: Vec<String>,
}

fn with_partial(dir: &str, name: &str) -> Vec<String> {
    vec![
        normalize(&join(dir, name)),
        normalize(&join(dir, &format!("_{}", name))),
    ]
}

/// groups for `name` + each Sass extension / css inside `dir`
fn ext_groups(loc: usize, index_level: bool, gate: &str, dir: &str, name: &str, import_only: bool, out: &mut Vec<Group>) {
    let mid = if import_only { ".import" } else { "" };
    let mut sass = with_partial(dir, &format!("{}{}.sass", name, mid));
    sass.extend(with_partial(dir, &format!("{}{}.scss", name, mid)));
    out.push(Group {
        loc,
        index_level,
        dir: gate.to_string(),
        import_only,
        css: false,
        paths: sass,
    });
    out.push(Group {
        loc,
        index_level,
        dir: gate.to_string(),
        import_only,
        css: true,
        paths: with_partial(dir, &format!("{}{}.css", name, mid)),
    });
}

/// The locations of a search: directory of the importing file, then the load paths in order.
pub fn locations(from_file: &str, load_paths: &[String]) -> Vec<String> {
    let mut v = vec![dirname(from_file).to_string()];
    v.extend(load_paths.iter().cloned());
    v
}

/// All priority groups of a search in the order in which they decide. `with_import_only` adds the
/// `*.import.*` groups (true for `@import`; the Fs-confinement check may also pass true for
/// `@use`/`@forward` to obtain a liberal candidate set).
pub fn groups(url: &str, from_file: &str, load_paths: &[String], with_import_only: bool) -> Vec<Group> {
    let mut out = vec![];
    for (loc, base) in locations(from_file, load_paths).iter().enumerate() {
        let p = join(base, url);
        let dir = dirname(&p).to_string();
        let name = basename(&p).to_string();
        if let Some(ext) = explicit_ext(url) {
            let stem = &name[..name.len() - ext.len()];
            if with_import_only {
                out.push(Group {
                    loc,
                    index_level: false,
                    dir: String::new(),
                    import_only: true,
                    css: ext == ".css",
                    paths: with_partial(&dir, &format!("{}.import{}", stem, ext)),
                });
            }
            out.push(Group {
                loc,
                index_level: false,
                dir: String::new(),
                import_only: false,
                css: ext == ".css",
                paths: with_partial(&dir, &name),
            });
            continue;
        }
        if with_import_only {
            ext_groups(loc, false, "", &dir, &name, true, &mut out);
        }
        ext_groups(loc, false, "", &dir, &name, false, &mut out);
        let gate = normalize(&p);
        if with_import_only {
            ext_groups(loc, true, &gate, &p, "index", true, &mut out);
        }
        ext_groups(loc, true, &gate, &p, "index", false, &mut out);
    }
    out
}

#[derive(Clone, Debug, PartialEq, Eq)]
pub enum Resolution {
    Found { path: String, group: Group },
    /// two same-priority candidates in the deciding group (outside the property's domain)
    Ambiguous(Vec<String>),
    NotFound,
}

/// Expected result of the search per the property text.
pub fn resolve(tree: &Tree, rule: Rule, url: &str, from_file: &str, load_paths: &[String]) -> Resolution {
    for g in groups(url, from_file, load_paths, rule == Rule::Import) {
        if g.index_level && !tree.is_dir(&g.dir) {
            continue;
        }
        let mut hits: Vec<String> = vec![];
        for p in &g.paths {
            if tree.is_file(p) && !hits.contains(p) {
                hits.push(p.clone());
            }
        }
        match hits.len() {
            0 => {}
            1 => {
                return Resolution::Found {
                    path: hits.pop().unwrap(),
                    group: g,
                }
            }
            _ => return Resolution::Ambiguous(hits),
        }
    }
    Resolution::NotFound
}

/// Every group (in any location, reached or not; import-only groups included regardless of the rule)
/// that holds two or more existing files. The generator removes these, the check discards them.
pub fn ambiguities(tree: &Tree, url: &str, from_file: &str, load_paths: &[String]) -> Vec<Vec<String>> {
    let mut out = vec![];
    for g in groups(url, from_file, load_paths, true) {
        let mut hits: Vec<String> = vec![];
        for p in &g.paths {
            if tree.is_file(p) && !hits.contains(p) {
                hits.push(p.clone());
            }
        }
        if hits.len() >= 2 {
            out.push(hits);
        }
    }
    out
}

/// Existing files that are candidates of the search for this rule (distinct normalised paths).
pub fn existing_candidates(tree: &Tree, rule: Rule, url: &str, from_file: &str, load_paths: &[String]) -> Vec<String> {
    let mut out: Vec<String> = vec![];
    for g in groups(url, from_file, load_paths, rule == Rule::Import) {
        for p in &g.paths {
            if tree.is_file(p) && !out.contains(p) {
                out.push(p.clone());
            }
        }
    }
    out
}

/// The candidate set of a search for the confinement check: every candidate file path in every
/// location, the `name` directory of each location (existence test of the index search), and the
/// location directories themselves. `liberal` adds the import-only candidates for `@use`/`@forward`.
pub fn candidate_set(rule: Rule, url: &str, from_file: &str, load_paths: &[String], liberal: bool) -> BTreeSet<String> {
    let mut s = BTreeSet::new();
    for g in groups(url, from_file, load_paths, rule == Rule::Import || liberal) {
        for p in &g.paths {
            s.insert(p.clone());
        }
        if g.index_level {
            s.insert(g.dir.clone());
        }
    }
    for base in locations(from_file, load_paths) {
        s.insert(normalize(&base));
        s.insert(normalize(dirname(&join(&base, url))));
    }
    s
}

/// Plain-CSS classification of one `@import` argument (Sass documentation, "Plain CSS @imports"):
/// the URL ends in `.css`, begins with `http://` or `https://` (dart-sass: also `//`), is written as
/// `url(...)`, or the import has media queries / supports modifiers.
pub fn is_plain_css_import(url: &str, written_as_url_fn: bool, has_modifiers: bool) -> bool {
    written_as_url_fn
        || has_modifiers
        || url.ends_with(".css")
        || url.starts_with("http://")
        || url.starts_with("https://")
        || url.starts_with("//")
}

#[cfg(test)]
mod tests {
    use super::*;
    #[test]
    fn norm() {
        assert_eq!(normalize("a/./b/../c"), "a/c");
        assert_eq!(normalize("../a"), "../a");
        assert_eq!(normalize("a/../../b"), "../b");
        assert_eq!(normalize("/a/../../b"), "/b");
        assert_eq!(normalize("./x.scss"), "x.scss");
    }
    #[test]
    fn order() {
        let t = Tree::new(vec!["p/x.css".to_string(), "lp/x.scss".to_string(), "p/x/index.scss".to_string()]);
        let r = resolve(&t, Rule::Import, "x", "p/e.scss", &["lp".to_string()]);
        match r {
            Resolution::Found { path, .. } => assert_eq!(path, "p/x.css"),
            _ => panic!(),
        }
        let t = Tree::new(vec!["p/foo.scss".to_string(), "p/foo.bar.scss".to_string()]);
        match resolve(&t, Rule::Use, "foo.bar", "p/e.scss", &[]) {
            Resolution::Found { path, .. } => assert_eq!(path, "p/foo.bar.scss"),
            _ => panic!(),
        }
        let t = Tree::new(vec!["p/x.import.scss".to_string(), "p/_x.sass".to_string()]);
        match resolve(&t, Rule::Use, "x", "p/e.scss", &[]) {
            Resolution::Found { path, .. } => assert_eq!(path, "p/_x.sass"),
            _ => panic!(),
        }
        match resolve(&t, Rule::Import, "x", "p/e.scss", &[]) {
            Resolution::Found { path, .. } => assert_eq!(path, "p/x.import.scss"),
            _ => panic!(),
        }
    }
}

//! Reference implementations of the Sass list, map and string built-ins, written from the Sass
//! documentation (sass-lang.com/documentation/modules/{list,map,string}) and dart-sass 1.54
//! behaviour, over the value AST of `crate::gen::values`. Nothing here consults grass.
//!
//! `eval(call)` binds the arguments (positional / named / rest, overloads) and returns what the
//! documentation defines: a value, an error, or — where the documentation is silent — a weaker
//! expectation (`ErrorOr`, `OneOf`, `Unspecified`).

use crate::gen::values::{Sep, Val};
use serde::{Deserialize, Serialize};

#[derive(Clone, Copy, Debug, PartialEq, Eq, Hash, Serialize, Deserialize, PartialOrd, Ord)]
pub enum Func {
    Length,
    Nth,
    SetNth,
    Join,
    Append,
    Zip,
    Index,
    ListSeparator,
    IsBracketed,
    MapGet,
    MapHasKey,
    MapKeys,
    MapValues,
    MapMerge,
    MapRemove,
    MapSet,
    MapDeepMerge,
    MapDeepRemove,
    StrLength,
    StrSlice,
    StrIndex,
    StrInsert,
    Quote,
    Unquote,
    ToUpperCase,
    ToLowerCase,
    StrSplit,
}

pub const ALL_FUNCS: [Func; 27] = [
    Func::Length,
    Func::Nth,
    Func::SetNth,
    Func::Join,
    Func::Append,
    Func::Zip,
    Func::Index,
    Func::ListSeparator,
    Func::IsBracketed,
    Func::MapGet,
    Func::MapHasKey,
    Func::MapKeys,
    Func::MapValues,
    Func::MapMerge,
    Func::MapRemove,
    Func::MapSet,
    Func::MapDeepMerge,
    Func::MapDeepRemove,
    Func::StrLength,
    Func::StrSlice,
    Func::StrIndex,
    Func::StrInsert,
    Func::Quote,
    Func::Unquote,
    Func::ToUpperCase,
    Func::ToLowerCase,
    Func::StrSplit,
];

/// one overload: named parameters (with optional default) and an optional rest parameter
#[derive(Clone, Debug)]
pub struct Sig {
    pub params: Vec<(&'static str, Option<Val>)>,
    pub rest: Option<&'static str>,
}

fn sig(params: &[(&'static str, Option<Val>)], rest: Option<&'static str>) -> Sig {
    Sig { params: params.to_vec(), rest }
}

impl Func {
    /// global alias, if the function has one
    pub fn global_name(self) -> Option<&'static str> {
        Some(match self {
            Func::Length => "length",
            Func::Nth => "nth",
            Func::SetNth => "set-nth",
            Func::Join => "join",
            Func::Append => "append",
            Func::Zip => "zip",
            Func::Index => "index",
            Func::ListSeparator => "list-separator",
            Func::IsBracketed => "is-bracketed",
            Func::MapGet => "map-get",
            Func::MapHasKey => "map-has-key",
            Func::MapKeys => "map-keys",
            Func::MapValues => "map-values",
            Func::MapMerge => "map-merge",
            Func::MapRemove => "map-remove",
            Func::StrLength => "str-length",
            Func::StrSlice => "str-slice",
            Func::StrIndex => "str-index",
            Func::StrInsert => "str-insert",
            Func::Quote => "quote",
            Func::Unquote => "unquote",
            Func::ToUpperCase => "to-upper-case",
            Func::ToLowerCase => "to-lower-case",
            Func::MapSet | Func::MapDeepMerge | Func::MapDeepRemove | Func::StrSplit => return None,
        })
    }
    /// `module.member`
    pub fn module_name(self) -> &'static str {
        match self {
            Func::Length => "list.length",
            Func::Nth => "list.nth",
            Func::SetNth => "list.set-nth",
            Func::Join => "list.join",
            Func::Append => "list.append",
            Func::Zip => "list.zip",
            Func::Index => "list.index",
            Func::ListSeparator => "list.separator",
            Func::IsBracketed => "list.is-bracketed",
            Func::MapGet => "map.get",
            Func::MapHasKey => "map.has-key",
            Func::MapKeys => "map.keys",
            Func::MapValues => "map.values",
            Func::MapMerge => "map.merge",
            Func::MapRemove => "map.remove",
            Func::MapSet => "map.set",
            Func::MapDeepMerge => "map.deep-merge",
            Func::MapDeepRemove => "map.deep-remove",
            Func::StrLength => "string.length",
            Func::StrSlice => "string.slice",
            Func::StrIndex => "string.index",
            Func::StrInsert => "string.insert",
            Func::Quote => "string.quote",
            Func::Unquote => "string.unquote",
            Func::ToUpperCase => "string.to-upper-case",
            Func::ToLowerCase => "string.to-lower-case",
            Func::StrSplit => "string.split",
        }
    }
    /// short name used in signatures and histograms
    pub fn short(self) -> &'static str {
        self.global_name().unwrap_or(self.module_name())
    }

    /// documented signatures, in overload order
    pub fn signatures(self) -> Vec<Sig> {
        let auto = || Some(Val::u("auto"));
        match self {
            Func::Length | Func::ListSeparator | Func::IsBracketed => vec![sig(&[("list", None)], None)],
            Func::Nth => vec![sig(&[("list", None), ("n", None)], None)],
            Func::SetNth => vec![sig(&[("list", None), ("n", None), ("value", None)], None)],
            Func::Join => vec![sig(
                &[("list1", None), ("list2", None), ("separator", auto()), ("bracketed", auto())],
                None,
            )],
            Func::Append => vec![sig(&[("list", None), ("val", None), ("separator", auto())], None)],
            Func::Zip => vec![sig(&[], Some("lists"))],
            Func::Index => vec![sig(&[("list", None), ("value", None)], None)],
            Func::MapGet | Func::MapHasKey | Func::MapDeepRemove => {
                vec![sig(&[("map", None), ("key", None)], Some("keys"))]
            }
            Func::MapKeys | Func::MapValues => vec![sig(&[("map", None)], None)],
            Func::MapMerge => vec![
                sig(&[("map1", None), ("map2", None)], None),
                sig(&[("map1", None)], Some("args")),
            ],
            Func::MapRemove => vec![
                sig(&[("map", None)], None),
                sig(&[("map", None), ("key", None)], Some("keys")),
            ],
            Func::MapSet => vec![
                sig(&[("map", None), ("key", None), ("value", None)], None),
                sig(&[("map", None)], Some("args")),
            ],
            Func::MapDeepMerge => vec![sig(&[("map1", None), ("map2", None)], None)],
            Func::StrLength | Func::Quote | Func::Unquote | Func::ToUpperCase | Func::ToLowerCase => {
                vec![sig(&[("string", None)], None)]
            }
            Func::StrSlice => vec![sig(
                &[("string", None), ("start-at", None), ("end-at", Some(Val::int(-1)))],
                None,
            )],
            Func::StrIndex => vec![sig(&[("string", None), ("substring", None)], None)],
            Func::StrInsert => vec![sig(&[("string", None), ("insert", None), ("index", None)], None)],
            Func::StrSplit => vec![sig(
                &[("string", None), ("separator", None), ("limit", Some(Val::Null))],
                None,
            )],
        }
    }
}

#[derive(Clone, Debug, PartialEq, Eq, Hash, Serialize, Deserialize)]
pub struct Call {
    pub f: Func,
    pub pos: Vec<Val>,
    /// parameter name without `$`
    pub named: Vec<(String, Val)>,
}

impl Call {
    pub fn args_scss(&self) -> String {
        let mut parts: Vec<String> = self.pos.iter().map(|v| v.to_scss()).collect();
        for (n, v) in &self.named {
            parts.push(format!("${}: {}", n, v.to_scss()));
        }
        parts.join(", ")
    }
    pub fn global_scss(&self) -> Option<String> {
        self.f.global_name().map(|n| format!("{}({})", n, self.args_scss()))
    }
    pub fn module_scss(&self) -> String {
        format!("{}({})", self.f.module_name(), self.args_scss())
    }
    pub fn all_args(&self) -> Vec<&Val> {
        self.pos.iter().chain(self.named.iter().map(|(_, v)| v)).collect()
    }
}

#[derive(Clone, Debug, PartialEq)]
pub enum Expect {
    Value(Val),
    /// the call must fail
    Error,
    /// the documentation does not say whether this argument is accepted; if it is, this is the value
    ErrorOr(Val),
    /// any of these values
    OneOf(Vec<Val>),
    /// the documentation is silent about this combination (reason); must not crash, aliases must agree
    Unspecified(&'static str),
}

/// parameters of the chosen overload (defaults applied) and the rest arguments
pub struct Bound {
    pub overload: usize,
    pub params: Vec<Val>,
    pub rest: Vec<Val>,
}

pub fn bind(f: Func, call: &Call) -> Option<Bound> {
    'sigs: for (oi, s) in f.signatures().iter().enumerate() {
        let np = s.params.len();
        if call.pos.len() > np && s.rest.is_none() {
            continue;
        }
        let mut slots: Vec<Option<Val>> = vec![None; np];
        let mut rest = vec![];
        for (i, v) in call.pos.iter().enumerate() {
            if i < np {
                slots[i] = Some(v.clone());
            } else {
                rest.push(v.clone());
            }
        }
        for (n, v) in &call.named {
            match s.params.iter().position(|(pn, _)| pn == n) {
                Some(i) if slots[i].is_none() => slots[i] = Some(v.clone()),
                // unknown name (also with a rest parameter: built-ins never read keywords), or
                // a parameter passed both by position and by name
                _ => continue 'sigs,
            }
        }
        let mut params = vec![];
        for (i, sl) in slots.into_iter().enumerate() {
            match sl.or_else(|| s.params[i].1.clone()) {
                Some(v) => params.push(v),
                None => continue 'sigs,
            }
        }
        return Some(Bound { overload: oi, params, rest });
    }
    None
}

// ---------------------------------------------------------------------------------------------

struct Idx {
    /// zero-based position, None = out of range / zero / not an integer
    pos: Option<usize>,
    has_unit: bool,
}

/// documented index rule: 1-based, negative counts from the end, 0 and |n| > len are errors
fn list_index(n: &Val, len: usize) -> Option<Idx> {
    match n {
        Val::Num { milli, unit } => {
            let has_unit = !unit.is_empty();
            if milli % 1000 != 0 {
                return Some(Idx { pos: None, has_unit });
            }
            let k = milli / 1000;
            let pos = if k == 0 || k.unsigned_abs() as usize > len {
                None
            } else if k > 0 {
                Some((k - 1) as usize)
            } else {
                Some((len as i64 + k) as usize)
            };
            Some(Idx { pos, has_unit })
        }
        _ => None,
    }
}

fn wrap_unit(has_unit: bool, v: Val) -> Expect {
    if has_unit {
        Expect::ErrorOr(v)
    } else {
        Expect::Value(v)
    }
}

fn str_of(v: &Val) -> Option<(Vec<char>, bool)> {
    match v {
        Val::Str { text, quoted } => Some((text.chars().collect(), *quoted)),
        _ => None,
    }
}

fn mk_str(chars: &[char], quoted: bool) -> Val {
    Val::Str { text: chars.iter().collect(), quoted }
}

/// integer argument of the string functions: (value, has unit); None = not an integer number
fn int_arg(v: &Val) -> Option<(i64, bool)> {
    match v {
        Val::Num { milli, unit } if milli % 1000 == 0 => Some((milli / 1000, !unit.is_empty())),
        _ => None,
    }
}

fn separator_arg(v: &Val, first: Sep, second: Option<Sep>) -> Option<Sep> {
    match v {
        Val::Str { text, .. } => match text.as_str() {
            "auto" => Some(if first != Sep::Undecided {
                first
            } else {
                match second {
                    Some(s) if s != Sep::Undecided => s,
                    _ => Sep::Space,
                }
            }),
            "space" => Some(Sep::Space),
            "comma" => Some(Sep::Comma),
            "slash" => Some(Sep::Slash),
            _ => None,
        },
        _ => None,
    }
}

fn map_lookup<'a>(m: &'a [(Val, Val)], k: &Val) -> Option<&'a Val> {
    m.iter().find(|(k2, _)| k2.sass_eq(k)).map(|(_, v)| v)
}

fn map_insert(m: &mut Vec<(Val, Val)>, k: &Val, v: Val) {
    if let Some(e) = m.iter_mut().find(|(k2, _)| k2.sass_eq(k)) {
        e.1 = v;
    } else {
        m.push((k.clone(), v));
    }
}

/// `{...a, ...b}`: keys of `a` keep their position, values from `b` win, new keys are appended
fn merged(a: &[(Val, Val)], b: &[(Val, Val)]) -> Vec<(Val, Val)> {
    let mut out = a.to_vec();
    for (k, v) in b {
        map_insert(&mut out, k, v.clone());
    }
    out
}

/// dart-sass `_modify` with addNesting = true: walk `keys`, creating / overwriting with nested maps
fn modify(m: &[(Val, Val)], keys: &[Val], f: &dyn Fn(Option<&Val>) -> Val) -> Vec<(Val, Val)> {
    let mut out = m.to_vec();
    let k = &keys[0];
    if keys.len() == 1 {
        let nv = f(map_lookup(m, k));
        map_insert(&mut out, k, nv);
    } else {
        let nested = map_lookup(m, k).and_then(|v| v.try_map()).unwrap_or_default();
        let nv = Val::Map(modify(&nested, &keys[1..], f));
        map_insert(&mut out, k, nv);
    }
    out
}

/// deep merge; `ambiguous` is set when a non-empty nested map meets an empty list (dart-sass
/// treats `()` as an empty map and keeps the nested map; the documentation only says that
/// nested *map* values are merged)
fn deep_merge(a: &[(Val, Val)], b: &[(Val, Val)], ambiguous: &mut bool) -> Vec<(Val, Val)> {
    let mut out = a.to_vec();
    for (k, v) in b {
        let cur = map_lookup(&out, k).cloned();
        if let (Some(c), Val::List { items, bracketed, .. }) = (&cur, v) {
            if items.is_empty() {
                match c {
                    Val::Map(cm) if !cm.is_empty() || *bracketed => *ambiguous = true,
                    Val::List { items: ci, bracketed: cb, .. } if ci.is_empty() && cb != bracketed => {
                        *ambiguous = true
                    }
                    _ => {}
                }
            }
        }
        let nv = match (cur.as_ref().and_then(|c| plain_map(c)), plain_map(v)) {
            (Some(cm), Some(vm)) => Val::Map(deep_merge(&cm, &vm, ambiguous)),
            _ => v.clone(),
        };
        map_insert(&mut out, k, nv);
    }
    out
}

fn plain_map(v: &Val) -> Option<Vec<(Val, Val)>> {
    match v {
        Val::Map(m) => Some(m.clone()),
        _ => None,
    }
}

fn find_sub(hay: &[char], needle: &[char], from: usize) -> Option<usize> {
    if needle.len() > hay.len() {
        return None;
    }
    (from..=hay.len() - needle.len()).find(|&i| &hay[i..i + needle.len()] == needle)
}

/// The map argument: Ok(pairs) | Err(expectation to return)
fn map_arg(v: &Val) -> Result<Vec<(Val, Val)>, Expect> {
    match v {
        Val::Map(m) => Ok(m.clone()),
        Val::List { items, bracketed, .. } if items.is_empty() => {
            if *bracketed {
                Err(Expect::Unspecified("[] as a map"))
            } else {
                Ok(vec![])
            }
        }
        _ => Err(Expect::Error),
    }
}

pub fn eval(call: &Call) -> Expect {
    let f = call.f;
    let b = match bind(f, call) {
        Some(b) => b,
        None => return Expect::Error,
    };
    let p = &b.params;
    macro_rules! map_or_return {
        ($v:expr) => {
            match map_arg($v) {
                Ok(m) => m,
                Err(e) => return e,
            }
        };
    }
    match f {
        // ------------------------------------------------------------------ lists
        Func::Length => Expect::Value(Val::int(p[0].as_list().len() as i64)),
        Func::Nth => {
            let l = p[0].as_list();
            match list_index(&p[1], l.len()) {
                None => Expect::Error,
                Some(Idx { pos: None, .. }) => Expect::Error,
                Some(Idx { pos: Some(i), has_unit }) => wrap_unit(has_unit, l[i].clone()),
            }
        }
        Func::SetNth => {
            let mut l = p[0].as_list();
            match list_index(&p[1], l.len()) {
                None => Expect::Error,
                Some(Idx { pos: None, .. }) => Expect::Error,
                Some(Idx { pos: Some(i), has_unit }) => {
                    l[i] = p[2].clone();
                    wrap_unit(
                        has_unit,
                        Val::List { items: l, sep: p[0].separator(), bracketed: p[0].is_bracketed() },
                    )
                }
            }
        }
        Func::Join => {
            let sep = match separator_arg(&p[2], p[0].separator(), Some(p[1].separator())) {
                Some(s) => s,
                None => return Expect::Error,
            };
            let bracketed = match &p[3] {
                Val::Str { text, .. } if text == "auto" => p[0].is_bracketed(),
                other => other.truthy(),
            };
            let mut items = p[0].as_list();
            items.extend(p[1].as_list());
            Expect::Value(Val::List { items, sep, bracketed })
        }
        Func::Append => {
            let sep = match separator_arg(&p[2], p[0].separator(), None) {
                Some(s) => s,
                None => return Expect::Error,
            };
            let mut items = p[0].as_list();
            items.push(p[1].clone());
            Expect::Value(Val::List { items, sep, bracketed: p[0].is_bracketed() })
        }
        Func::Zip => {
            let lists: Vec<Vec<Val>> = b.rest.iter().map(|v| v.as_list()).collect();
            let n = lists.iter().map(|l| l.len()).min().unwrap_or(0);
            let items = (0..n)
                .map(|i| Val::List {
                    items: lists.iter().map(|l| l[i].clone()).collect(),
                    sep: Sep::Space,
                    bracketed: false,
                })
                .collect();
            Expect::Value(Val::List { items, sep: Sep::Comma, bracketed: false })
        }
        Func::Index => {
            let l = p[0].as_list();
            Expect::Value(match l.iter().position(|x| x.sass_eq(&p[1])) {
                Some(i) => Val::int(i as i64 + 1),
                None => Val::Null,
            })
        }
        Func::ListSeparator => Expect::Value(Val::u(match p[0].separator() {
            Sep::Comma => "comma",
            Sep::Slash => "slash",
            _ => "space",
        })),
        Func::IsBracketed => Expect::Value(Val::Bool(p[0].is_bracketed())),

        // ------------------------------------------------------------------ maps
        Func::MapGet | Func::MapHasKey => {
            let m = map_or_return!(&p[0]);
            let mut keys = vec![p[1].clone()];
            keys.extend(b.rest.iter().cloned());
            let mut cur: Vec<(Val, Val)> = m;
            let mut found: Option<Val> = None;
            for (i, k) in keys.iter().enumerate() {
                match map_lookup(&cur, k) {
                    None => {
                        found = None;
                        break;
                    }
                    Some(v) => {
                        if i + 1 == keys.len() {
                            found = Some(v.clone());
                        } else {
                            match v {
                                Val::Map(n) => cur = n.clone(),
                                Val::List { items, .. } if items.is_empty() => cur = vec![],
                                _ => {
                                    found = None;
                                    break;
                                }
                            }
                        }
                    }
                }
            }
            Expect::Value(if f == Func::MapGet {
                found.unwrap_or(Val::Null)
            } else {
                Val::Bool(found.is_some())
            })
        }
        Func::MapKeys => {
            let m = map_or_return!(&p[0]);
            Expect::Value(Val::List { items: m.into_iter().map(|(k, _)| k).collect(), sep: Sep::Comma, bracketed: false })
        }
        Func::MapValues => {
            let m = map_or_return!(&p[0]);
            Expect::Value(Val::List { items: m.into_iter().map(|(_, v)| v).collect(), sep: Sep::Comma, bracketed: false })
        }
        Func::MapMerge => {
            let m1 = map_or_return!(&p[0]);
            if b.overload == 0 {
                let m2 = map_or_return!(&p[1]);
                Expect::Value(Val::Map(merged(&m1, &m2)))
            } else {
                if b.rest.is_empty() {
                    return Expect::Error; // "Expected $args to contain a key."
                }
                let (last, keys) = b.rest.split_last().unwrap();
                if keys.is_empty() {
                    // map.merge($map1, $map2) passed through the rest overload cannot happen
                    // positionally (overload 0 binds two positionals); reached only via names
                    return Expect::Error;
                }
                let m2 = map_or_return!(last);
                let out = modify(&m1, keys, &|old| match old.and_then(|o| o.try_map()) {
                    Some(n) => Val::Map(merged(&n, &m2)),
                    None => Val::Map(m2.clone()),
                });
                if nested_path_hits_bracketed_empty(&m1, keys) {
                    return Expect::Unspecified("[] as a nested map");
                }
                Expect::Value(Val::Map(out))
            }
        }
        Func::MapRemove => {
            if call.named.iter().any(|(n, _)| n == "key") {
                // documentation: map.remove($map, $keys...); dart-sass: ($map, $key, $keys...)
                return Expect::Unspecified("map-remove with $key passed by name");
            }
            let m = map_or_return!(&p[0]);
            if b.overload == 0 {
                return Expect::Value(Val::Map(m));
            }
            let mut keys = vec![p[1].clone()];
            keys.extend(b.rest.iter().cloned());
            let out: Vec<(Val, Val)> = m.into_iter().filter(|(k, _)| !keys.iter().any(|r| r.sass_eq(k))).collect();
            Expect::Value(Val::Map(out))
        }
        Func::MapSet => {
            let m = map_or_return!(&p[0]);
            let (keys, value): (Vec<Val>, Val) = if b.overload == 0 {
                (vec![p[1].clone()], p[2].clone())
            } else {
                match b.rest.len() {
                    0 | 1 => return Expect::Error, // no key / no value
                    n => (b.rest[..n - 1].to_vec(), b.rest[n - 1].clone()),
                }
            };
            if nested_path_hits_bracketed_empty(&m, &keys) {
                return Expect::Unspecified("[] as a nested map");
            }
            Expect::Value(Val::Map(modify(&m, &keys, &|_| value.clone())))
        }
        Func::MapDeepMerge => {
            let m1 = map_or_return!(&p[0]);
            let m2 = map_or_return!(&p[1]);
            let mut ambiguous = false;
            let out = deep_merge(&m1, &m2, &mut ambiguous);
            if ambiguous {
                // is `()` a map to merge (keeps the nested map) or a value (replaces it)?
                return Expect::Unspecified("deep-merge of a nested map with an empty list");
            }
            Expect::Value(Val::Map(out))
        }
        Func::MapDeepRemove => {
            let m = map_or_return!(&p[0]);
            let mut keys = vec![p[1].clone()];
            keys.extend(b.rest.iter().cloned());
            // walk to the map that holds the last key; a missing or non-map step: the documentation
            // does not say what is returned (dart-sass 1.54 adds `key: null` for a missing last step)
            fn go(m: &[(Val, Val)], keys: &[Val]) -> Option<Vec<(Val, Val)>> {
                if keys.len() == 1 {
                    return Some(m.iter().filter(|(k, _)| !k.sass_eq(&keys[0])).cloned().collect());
                }
                match map_lookup(m, &keys[0]) {
                    Some(Val::Map(n)) => {
                        let inner = go(n, &keys[1..])?;
                        let mut out = m.to_vec();
                        map_insert(&mut out, &keys[0], Val::Map(inner));
                        Some(out)
                    }
                    _ => None,
                }
            }
            match go(&m, &keys) {
                Some(out) => Expect::Value(Val::Map(out)),
                None => Expect::Unspecified("deep-remove along a missing / non-map path"),
            }
        }

        // ------------------------------------------------------------------ strings
        Func::StrLength => match str_of(&p[0]) {
            Some((c, _)) => Expect::Value(Val::int(c.len() as i64)),
            None => Expect::Error,
        },
        Func::Quote => match &p[0] {
            Val::Str { text, .. } => Expect::Value(Val::Str { text: text.clone(), quoted: true }),
            _ => Expect::Error,
        },
        Func::Unquote => match &p[0] {
            Val::Str { text, .. } => Expect::Value(Val::Str { text: text.clone(), quoted: false }),
            _ => Expect::Error,
        },
        Func::ToUpperCase | Func::ToLowerCase => match &p[0] {
            Val::Str { text, quoted } => {
                let t: String = text
                    .chars()
                    .map(|c| if f == Func::ToUpperCase { c.to_ascii_uppercase() } else { c.to_ascii_lowercase() })
                    .collect();
                Expect::Value(Val::Str { text: t, quoted: *quoted })
            }
            _ => Expect::Error,
        },
        Func::StrSlice => {
            let (s, quoted) = match str_of(&p[0]) {
                Some(x) => x,
                None => return Expect::Error,
            };
            let (start, u1) = match int_arg(&p[1]) {
                Some(x) => x,
                None => return Expect::Error,
            };
            let (end, u2) = match int_arg(&p[2]) {
                Some(x) => x,
                None => return Expect::Error,
            };
            let len = s.len() as i64;
            // inclusive 1-based positions; negative count from the end; out-of-range is clamped
            let first = if start > 0 { start } else if start == 0 { 1 } else { (len + start + 1).max(1) };
            let last = if end >= 0 { end.min(len) } else { len + end + 1 };
            let out: Vec<char> = if last < first || first > len {
                vec![]
            } else {
                s[(first - 1) as usize..last as usize].to_vec()
            };
            wrap_unit(u1 || u2, mk_str(&out, quoted))
        }
        Func::StrIndex => {
            let (s, _) = match str_of(&p[0]) {
                Some(x) => x,
                None => return Expect::Error,
            };
            let (t, _) = match str_of(&p[1]) {
                Some(x) => x,
                None => return Expect::Error,
            };
            if t.is_empty() {
                return Expect::Unspecified("str-index of the empty string");
            }
            Expect::Value(match find_sub(&s, &t, 0) {
                Some(i) => Val::int(i as i64 + 1),
                None => Val::Null,
            })
        }
        Func::StrInsert => {
            let (s, quoted) = match str_of(&p[0]) {
                Some(x) => x,
                None => return Expect::Error,
            };
            let (t, _) = match str_of(&p[1]) {
                Some(x) => x,
                None => return Expect::Error,
            };
            let (i, unit) = match int_arg(&p[2]) {
                Some(x) => x,
                None => return Expect::Error,
            };
            let len = s.len() as i64;
            // positive: $insert starts at position i of the result (clamped to the end);
            // negative: $insert ends at position i (from the end) of the result (clamped to the start)
            let at = if i > 0 { (i - 1).min(len) } else if i == 0 { 0 } else { (len + i + 1).max(0) };
            let mut out = s[..at as usize].to_vec();
            out.extend(t.iter());
            out.extend(s[at as usize..].iter());
            wrap_unit(unit, mk_str(&out, quoted))
        }
        Func::StrSplit => {
            let (s, quoted) = match str_of(&p[0]) {
                Some(x) => x,
                None => return Expect::Error,
            };
            let (sep, _) = match str_of(&p[1]) {
                Some(x) => x,
                None => return Expect::Error,
            };
            let (limit, unit) = match &p[2] {
                Val::Null => (None, false),
                other => match int_arg(other) {
                    Some((n, u)) => {
                        if n < 1 {
                            return Expect::Error;
                        }
                        (Some(n as usize), u)
                    }
                    None => return Expect::Error,
                },
            };
            if s.is_empty() {
                return Expect::Unspecified("split of the empty string");
            }
            // the documentation's examples split quoted strings; whether the pieces of an unquoted
            // string are quoted is not stated (dart-sass keeps the quotedness): accept both
            let finish = |alts: Vec<Vec<Vec<char>>>| -> Expect {
                let qs: &[bool] = if quoted { &[true] } else { &[false, true] };
                let mut vals = vec![];
                for chunks in &alts {
                    for q in qs {
                        vals.push(Val::List {
                            items: chunks.iter().map(|c| mk_str(c, *q)).collect(),
                            sep: Sep::Comma,
                            bracketed: true,
                        });
                    }
                }
                if vals.len() == 1 {
                    wrap_unit(unit, vals.pop().unwrap())
                } else if unit {
                    Expect::Unspecified("split: several admissible results and a limit with unit")
                } else {
                    Expect::OneOf(vals)
                }
            };
            if sep.is_empty() {
                // Sass specification (string.split): an empty separator splits into code points
                if limit.map_or(false, |l| l < s.len()) {
                    return Expect::Unspecified("split with empty separator and a limit that bites");
                }
                return finish(vec![s.iter().map(|c| vec![*c]).collect()]);
            }
            let mut chunks: Vec<Vec<char>> = vec![];
            let mut from = 0;
            while limit.map_or(true, |l| chunks.len() < l) {
                match find_sub(&s, &sep, from) {
                    Some(i) => {
                        chunks.push(s[from..i].to_vec());
                        from = i + sep.len();
                    }
                    None => break,
                }
            }
            let tail = s[from..].to_vec();
            if tail.is_empty() {
                // "a," split at ",": the documentation's wording ("substrings separated by the
                // separator") gives ["a", ""]; the specification's algorithm drops an empty remainder
                let mut with = chunks.clone();
                with.push(vec![]);
                return finish(vec![with, chunks]);
            }
            chunks.push(tail);
            finish(vec![chunks])
        }
    }
}

/// along `keys[..len-1]` (the steps that must be maps), is some existing value the bracketed empty list?
fn nested_path_hits_bracketed_empty(m: &[(Val, Val)], keys: &[Val]) -> bool {
    let mut cur = m.to_vec();
    for k in keys {
        match map_lookup(&cur, k) {
            Some(Val::List { items, bracketed: true, .. }) if items.is_empty() => return true,
            Some(Val::Map(n)) => cur = n.clone(),
            _ => return false,
        }
    }
    false
}

#[cfg(test)]
mod tests {
    use super::*;
    fn c(f: Func, pos: Vec<Val>) -> Call {
        Call { f, pos, named: vec![] }
    }
    fn abc() -> Val {
        Val::list(vec![Val::u("a"), Val::u("b"), Val::u("c")], Sep::Space, false)
    }
    #[test]
    fn docs_examples() {
        // examples from sass-lang.com/documentation/modules
        assert_eq!(eval(&c(Func::Nth, vec![abc(), Val::int(-1)])), Expect::Value(Val::u("c")));
        assert_eq!(eval(&c(Func::Nth, vec![abc(), Val::int(0)])), Expect::Error);
        assert_eq!(eval(&c(Func::Nth, vec![abc(), Val::int(4)])), Expect::Error);
        let e = eval(&c(Func::StrInsert, vec![Val::q("Roboto Bold"), Val::q(" Mono"), Val::int(7)]));
        assert_eq!(e, Expect::Value(Val::q("Roboto Mono Bold")));
        let e = eval(&c(Func::StrInsert, vec![Val::q("Roboto Bold"), Val::q(" Mono"), Val::int(-6)]));
        assert_eq!(e, Expect::Value(Val::q("Roboto Mono Bold")));
        let e = eval(&c(Func::StrInsert, vec![Val::q("Roboto"), Val::q(" Bold"), Val::int(100)]));
        assert_eq!(e, Expect::Value(Val::q("Roboto Bold")));
        let e = eval(&c(Func::StrInsert, vec![Val::q("Bold"), Val::q("Roboto "), Val::int(-100)]));
        assert_eq!(e, Expect::Value(Val::q("Roboto Bold")));
        let e = eval(&c(Func::StrSlice, vec![Val::q("Helvetica Neue"), Val::int(11)]));
        assert_eq!(e, Expect::Value(Val::q("Neue")));
        let e = eval(&c(Func::StrSlice, vec![Val::q("Helvetica Neue"), Val::int(1), Val::int(3)]));
        assert_eq!(e, Expect::Value(Val::q("Hel")));
        let e = eval(&c(Func::StrSlice, vec![Val::q("Helvetica Neue"), Val::int(1), Val::int(-6)]));
        assert_eq!(e, Expect::Value(Val::q("Helvetica")));
        let e = eval(&c(Func::StrIndex, vec![Val::q("Helvetica Neue"), Val::q("Neue")]));
        assert_eq!(e, Expect::Value(Val::int(11)));
        let e = eval(&c(Func::StrSplit, vec![Val::q("Segoe UI Emoji"), Val::q(" "), Val::int(1)]));
        assert_eq!(
            e,
            Expect::Value(Val::list(vec![Val::q("Segoe"), Val::q("UI Emoji")], Sep::Comma, true))
        );
        // join
        let l1 = Val::list(vec![Val::int(1), Val::int(2)], Sep::Space, false);
        let l2 = Val::list(vec![Val::int(3), Val::int(4)], Sep::Comma, true);
        match eval(&c(Func::Join, vec![l1.clone(), l2.clone()])) {
            Expect::Value(v) => assert_eq!(v.inspect(), "1 2 3 4"),
            _ => panic!(),
        }
        match eval(&c(Func::Join, vec![l2, l1])) {
            Expect::Value(v) => assert_eq!(v.inspect(), "[3, 4, 1, 2]"),
            _ => panic!(),
        }
        match eval(&c(Func::Zip, vec![abc(), Val::list(vec![Val::int(1), Val::int(2)], Sep::Comma, false)])) {
            Expect::Value(v) => assert_eq!(v.inspect(), "a 1, b 2"),
            _ => panic!(),
        }
    }
}

//! Independent selector reader for the bounded alphabet of C10/C11: parser, printer, Sass
//! specificity. Written from Selectors Level 4 and the Sass documentation; nothing here calls grass.
//!
//! Alphabet: `*`, type, `.class`, `#id`, `[attr…]` (opaque text, presence semantics for `[p]`),
//! `%placeholder`, opaque pseudo-classes / pseudo-elements (with or without an argument), and the
//! selector pseudos `:not/:is/:where/:matches/:any` whose argument is a selector list.
//! Combinators: descendant, `>`, `+`, `~`. Leading/trailing/doubled combinators are parse errors
//! here (callers treat such texts as "outside the judged alphabet").

use serde::{Deserialize, Serialize};

#[derive(Clone, Debug, PartialEq, Eq, Hash, PartialOrd, Ord, Serialize, Deserialize)]
pub enum Simple {
    Universal,
    Type(String),
    Class(String),
    Id(String),
    /// text between the brackets, whitespace-trimmed
    Attr(String),
    Placeholder(String),
    /// opaque pseudo-class (`:hover`, `:nth-child(2n+1)`): name and raw argument
    PseudoClass(String, Option<String>),
    /// pseudo-element (`::before`, legacy `:before`): name and raw argument
    PseudoElement(String, Option<String>),
    /// `:not(..)`, `:is(..)`, `:where(..)`, `:matches(..)`, `:any(..)` (name lower-cased, vendor prefix kept)
    Sel(String, List),
}

#[derive(Clone, Copy, Debug, PartialEq, Eq, Hash, PartialOrd, Ord, Serialize, Deserialize)]
pub enum Comb {
    Desc,
    Child,
    Next,
    Sib,
}

#[derive(Clone, Debug, PartialEq, Eq, Hash, PartialOrd, Ord, Serialize, Deserialize)]
pub struct Compound(pub Vec<Simple>);

/// `comps.len() == combs.len() + 1`; `combs[i]` stands between `comps[i]` and `comps[i+1]`.
#[derive(Clone, Debug, PartialEq, Eq, Hash, PartialOrd, Ord, Serialize, Deserialize)]
pub struct Complex {
    pub comps: Vec<Compound>,
    pub combs: Vec<Comb>,
}

#[derive(Clone, Debug, PartialEq, Eq, Hash, PartialOrd, Ord, Serialize, Deserialize)]
pub struct List(pub Vec<Complex>);

pub fn unvendored(name: &str) -> &str {
    // -moz-any -> any
    if let Some(rest) = name.strip_prefix('-') {
        if let Some(p) = rest.find('-') {
            if !rest.starts_with('-') {
                return &rest[p + 1..];
            }
        }
    }
    name
}

pub fn is_selector_pseudo(name: &str) -> bool {
    matches!(unvendored(name), "not" | "is" | "where" | "matches" | "any")
}

fn legacy_pseudo_element(name: &str) -> bool {
    matches!(name, "before" | "after" | "first-line" | "first-letter")
}

/// canonical spelling of the inside of an attribute selector: single spaces, quotes dropped around
/// identifier-like values, double quotes otherwise
fn norm_attr(raw: &str) -> String {
    let t = raw.split_whitespace().collect::<Vec<_>>().join(" ");
    let cs: Vec<char> = t.chars().collect();
    let mut out = String::new();
    let mut i = 0;
    while i < cs.len() {
        let c = cs[i];
        if c == '"' || c == '\'' {
            let mut j = i + 1;
            let mut inner = String::new();
            while j < cs.len() && cs[j] != c {
                inner.push(cs[j]);
                j += 1;
            }
            let identish = !inner.is_empty()
                && inner.chars().all(is_name_char)
                && inner.chars().next().map(is_name_start).unwrap_or(false);
            if identish {
                out.push_str(&inner);
            } else {
                out.push('"');
                out.push_str(&inner);
                out.push('"');
            }
            i = j + 1;
        } else {
            out.push(c);
            i += 1;
        }
    }
    out
}

struct P<'a> {
    s: &'a [char],
    i: usize,
}

fn is_name_start(c: char) -> bool {
    c.is_ascii_alphabetic() || c == '_' || !c.is_ascii()
}
fn is_name_char(c: char) -> bool {
    is_name_start(c) || c.is_ascii_digit() || c == '-'
}

impl<'a> P<'a> {
    fn peek(&self) -> Option<char> {
        self.s.get(self.i).copied()
    }
    fn peek2(&self) -> Option<char> {
        self.s.get(self.i + 1).copied()
    }
    fn ws(&mut self) -> bool {
        let st = self.i;
        while matches!(self.peek(), Some(c) if c.is_whitespace()) {
            self.i += 1;
        }
        self.i > st
    }
    fn ident(&mut self) -> Result<String, String> {
        let mut out = String::new();
        // leading '-' / '--'
        while self.peek() == Some('-') {
            out.push('-');
            self.i += 1;
        }
        match self.peek() {
            Some(c) if is_name_start(c) => {}
            Some(c) if c.is_ascii_digit() && !out.is_empty() => {}
            Some('\\') => return Err("escape in identifier (outside the alphabet)".into()),
            _ if out.len() >= 2 => {}
            _ => return Err(format!("identifier expected at {}", self.i)),
        }
        while let Some(c) = self.peek() {
            if is_name_char(c) {
                out.push(c);
                self.i += 1;
            } else if c == '\\' {
                return Err("escape in identifier (outside the alphabet)".into());
            } else {
                break;
            }
        }
        Ok(out)
    }
    fn balanced(&mut self, close: char) -> Result<String, String> {
        // after the opener; returns raw text up to the matching closer (consumed)
        let mut depth = 0i32;
        let mut out = String::new();
        loop {
            let c = self.peek().ok_or("unterminated bracket")?;
            self.i += 1;
            match c {
                '"' | '\'' => {
                    out.push(c);
                    loop {
                        let d = self.peek().ok_or("unterminated string")?;
                        self.i += 1;
                        out.push(d);
                        if d == '\\' {
                            if let Some(e) = self.peek() {
                                out.push(e);
                                self.i += 1;
                            }
                        } else if d == c {
                            break;
                        }
                    }
                }
                '(' | '[' => {
                    depth += 1;
                    out.push(c);
                }
                ')' | ']' => {
                    if depth == 0 {
                        if c == close {
                            return Ok(out);
                        }
                        return Err("mismatched bracket".into());
                    }
                    depth -= 1;
                    out.push(c);
                }
                _ => out.push(c),
            }
        }
    }
    fn list(&mut self, until_paren: bool) -> Result<List, String> {
        let mut v = vec![];
        loop {
            self.ws();
            v.push(self.complex(until_paren)?);
            self.ws();
            match self.peek() {
                Some(',') => {
                    self.i += 1;
                }
                Some(')') if until_paren => return Ok(List(v)),
                None if !until_paren => return Ok(List(v)),
                other => return Err(format!("unexpected {:?} at {}", other, self.i)),
            }
        }
    }
    fn complex(&mut self, until_paren: bool) -> Result<Complex, String> {
        let mut comps = vec![self.compound()?];
        let mut combs = vec![];
        loop {
            let had_ws = self.ws();
            let comb = match self.peek() {
                Some('>') => Some(Comb::Child),
                Some('+') => Some(Comb::Next),
                Some('~') => Some(Comb::Sib),
                _ => None,
            };
            if let Some(c) = comb {
                self.i += 1;
                self.ws();
                combs.push(c);
                comps.push(self.compound()?);
                continue;
            }
            match self.peek() {
                None | Some(',') => break,
                Some(')') if until_paren => break,
                _ if had_ws => {
                    combs.push(Comb::Desc);
                    comps.push(self.compound()?);
                }
                other => return Err(format!("unexpected {:?} at {}", other, self.i)),
            }
        }
        Ok(Complex { comps, combs })
    }
    fn compound(&mut self) -> Result<Compound, String> {
        let mut v = vec![];
        loop {
            match self.peek() {
                Some('*') => {
                    if self.peek2() == Some('|') {
                        return Err("namespace (outside the alphabet)".into());
                    }
                    self.i += 1;
                    v.push(Simple::Universal);
                }
                Some('|') => return Err("namespace (outside the alphabet)".into()),
                Some('&') => return Err("parent selector".into()),
                Some('.') => {
                    self.i += 1;
                    v.push(Simple::Class(self.ident()?));
                }
                Some('#') => {
                    self.i += 1;
                    v.push(Simple::Id(self.ident()?));
                }
                Some('%') => {
                    self.i += 1;
                    v.push(Simple::Placeholder(self.ident()?));
                }
                Some('[') => {
                    self.i += 1;
                    let raw = self.balanced(']')?;
                    v.push(Simple::Attr(norm_attr(&raw)));
                }
                Some(':') => {
                    self.i += 1;
                    let mut element = false;
                    if self.peek() == Some(':') {
                        self.i += 1;
                        element = true;
                    }
                    let name = self.ident()?.to_ascii_lowercase();
                    if self.peek() == Some('(') {
                        self.i += 1;
                        if !element && is_selector_pseudo(&name) {
                            let l = self.list(true)?;
                            if self.peek() != Some(')') {
                                return Err("')' expected".into());
                            }
                            self.i += 1;
                            v.push(Simple::Sel(name, l));
                        } else {
                            // pseudos whose argument Sass reads as a selector are outside the alphabet
                            if matches!(unvendored(&name), "has" | "host" | "host-context" | "slotted" | "current") {
                                return Err(format!(":{}() takes a selector (outside the alphabet)", name));
                            }
                            let raw = self.balanced(')')?;
                            if matches!(unvendored(&name), "nth-child" | "nth-last-child") && raw.contains(" of ") {
                                return Err("nth-child(.. of selector) (outside the alphabet)".into());
                            }
                            let raw = raw.split_whitespace().collect::<Vec<_>>().join(" ");
                            if element {
                                v.push(Simple::PseudoElement(name, Some(raw)));
                            } else {
                                v.push(Simple::PseudoClass(name, Some(raw)));
                            }
                        }
                    } else if element || legacy_pseudo_element(&name) {
                        v.push(Simple::PseudoElement(name, None));
                    } else {
                        v.push(Simple::PseudoClass(name, None));
                    }
                }
                Some(c) if is_name_start(c) || c == '-' => {
                    if !v.is_empty() {
                        return Err("type selector after another simple selector".into());
                    }
                    let n = self.ident()?;
                    if self.peek() == Some('|') {
                        return Err("namespace (outside the alphabet)".into());
                    }
                    v.push(Simple::Type(n));
                }
                _ => break,
            }
        }
        if v.is_empty() {
            return Err(format!("compound selector expected at {}", self.i));
        }
        Ok(Compound(v))
    }
}

/// Parse a selector list. Errors mean "not in the judged alphabet", not "invalid CSS".
pub fn parse_list(text: &str) -> Result<List, String> {
    let chars: Vec<char> = text.trim().chars().collect();
    let mut p = P { s: &chars, i: 0 };
    let l = p.list(false)?;
    if p.i != chars.len() {
        return Err(format!("trailing input at {}", p.i));
    }
    Ok(l)
}

impl Simple {
    pub fn text(&self) -> String {
        match self {
            Simple::Universal => "*".into(),
            Simple::Type(n) => n.clone(),
            Simple::Class(n) => format!(".{}", n),
            Simple::Id(n) => format!("#{}", n),
            Simple::Attr(r) => format!("[{}]", r),
            Simple::Placeholder(n) => format!("%{}", n),
            Simple::PseudoClass(n, None) => format!(":{}", n),
            Simple::PseudoClass(n, Some(a)) => format!(":{}({})", n, a),
            Simple::PseudoElement(n, None) => format!("::{}", n),
            Simple::PseudoElement(n, Some(a)) => format!("::{}({})", n, a),
            Simple::Sel(n, l) => format!(":{}({})", n, l.text()),
        }
    }
    pub fn has_placeholder(&self) -> bool {
        match self {
            Simple::Placeholder(_) => true,
            Simple::Sel(_, l) => l.has_placeholder(),
            _ => false,
        }
    }
    /// (min, max) Sass specificity, base 1000 as in dart-sass
    pub fn specificity(&self) -> (u64, u64) {
        const B: u64 = 1000;
        match self {
            Simple::Universal => (0, 0),
            Simple::Type(_) | Simple::PseudoElement(..) => (1, 1),
            Simple::Id(_) => (B * B, B * B),
            Simple::Class(_) | Simple::Attr(_) | Simple::Placeholder(_) | Simple::PseudoClass(..) => (B, B),
            Simple::Sel(name, l) => {
                if unvendored(name) == "not" {
                    let mut mn = 0;
                    let mut mx = 0;
                    for c in &l.0 {
                        let (a, b) = c.specificity();
                        mn = mn.max(a);
                        mx = mx.max(b);
                    }
                    (mn, mx)
                } else {
                    let mut mn = u64::MAX;
                    let mut mx = 0;
                    for c in &l.0 {
                        let (a, b) = c.specificity();
                        mn = mn.min(a);
                        mx = mx.max(b);
                    }
                    if l.0.is_empty() {
                        mn = 0;
                    }
                    (mn, mx)
                }
            }
        }
    }
    /// every simple selector occurring in this one, at any depth (including itself)
    pub fn walk<'a>(&'a self, f: &mut dyn FnMut(&'a Simple)) {
        f(self);
        if let Simple::Sel(_, l) = self {
            l.walk(f);
        }
    }
}

impl Compound {
    pub fn text(&self) -> String {
        self.0.iter().map(|s| s.text()).collect::<Vec<_>>().join("")
    }
    pub fn specificity(&self) -> (u64, u64) {
        let mut mn = 0;
        let mut mx = 0;
        for s in &self.0 {
            let (a, b) = s.specificity();
            mn += a;
            mx += b;
        }
        (mn, mx)
    }
    /// same compound with its simples in a canonical order and without duplicates
    pub fn sorted(&self) -> Compound {
        let mut v: Vec<Simple> = self
            .0
            .iter()
            .map(|s| match s {
                Simple::Sel(n, l) => Simple::Sel(n.clone(), l.sorted()),
                o => o.clone(),
            })
            .collect();
        v.sort();
        v.dedup();
        Compound(v)
    }
}

impl Complex {
    pub fn single(c: Compound) -> Complex {
        Complex {
            comps: vec![c],
            combs: vec![],
        }
    }
    pub fn text(&self) -> String {
        let mut s = self.comps[0].text();
        for (i, c) in self.combs.iter().enumerate() {
            s.push_str(match c {
                Comb::Desc => " ",
                Comb::Child => " > ",
                Comb::Next => " + ",
                Comb::Sib => " ~ ",
            });
            s.push_str(&self.comps[i + 1].text());
        }
        s
    }
    pub fn specificity(&self) -> (u64, u64) {
        let mut mn = 0;
        let mut mx = 0;
        for c in &self.comps {
            let (a, b) = c.specificity();
            mn += a;
            mx += b;
        }
        (mn, mx)
    }
    pub fn sorted(&self) -> Complex {
        Complex {
            comps: self.comps.iter().map(|c| c.sorted()).collect(),
            combs: self.combs.clone(),
        }
    }
    pub fn has_placeholder(&self) -> bool {
        self.comps.iter().any(|c| c.0.iter().any(|s| s.has_placeholder()))
    }
    pub fn walk<'a>(&'a self, f: &mut dyn FnMut(&'a Simple)) {
        for c in &self.comps {
            for s in &c.0 {
                s.walk(f);
            }
        }
    }
    pub fn mentions(&self, t: &Simple) -> bool {
        self.count(t) > 0
    }
    pub fn count(&self, t: &Simple) -> usize {
        let mut n = 0;
        self.walk(&mut |s| {
            if s == t {
                n += 1
            }
        });
        n
    }
}

impl List {
    pub fn text(&self) -> String {
        self.0.iter().map(|c| c.text()).collect::<Vec<_>>().join(", ")
    }
    pub fn sorted(&self) -> List {
        let mut v: Vec<Complex> = self.0.iter().map(|c| c.sorted()).collect();
        v.sort();
        v.dedup();
        List(v)
    }
    /// the set of complex selectors, each in canonical spelling (simples sorted within compounds)
    pub fn complex_set(&self) -> std::collections::BTreeSet<String> {
        self.0.iter().map(|c| c.sorted().text()).collect()
    }
    pub fn has_placeholder(&self) -> bool {
        self.0.iter().any(|c| c.has_placeholder())
    }
    pub fn walk<'a>(&'a self, f: &mut dyn FnMut(&'a Simple)) {
        for c in &self.0 {
            c.walk(f);
        }
    }
    pub fn mentions(&self, t: &Simple) -> bool {
        self.0.iter().any(|c| c.mentions(t))
    }
    pub fn has_combinator(&self) -> bool {
        let mut hit = self.0.iter().any(|c| !c.combs.is_empty());
        self.walk(&mut |s| {
            if let Simple::Sel(_, l) = s {
                if l.0.iter().any(|c| !c.combs.is_empty()) {
                    hit = true;
                }
            }
        });
        hit
    }
    pub fn has_selector_pseudo(&self) -> bool {
        let mut hit = false;
        self.walk(&mut |s| {
            if matches!(s, Simple::Sel(..)) {
                hit = true
            }
        });
        hit
    }
    pub fn has_not(&self) -> bool {
        let mut hit = false;
        self.walk(&mut |s| {
            if let Simple::Sel(n, _) = s {
                if unvendored(n) == "not" {
                    hit = true
                }
            }
        });
        hit
    }
    /// deepest nesting of selector pseudos (0 = none)
    pub fn pseudo_depth(&self) -> usize {
        fn d(l: &List) -> usize {
            let mut m = 0;
            for c in &l.0 {
                for k in &c.comps {
                    for s in &k.0 {
                        if let Simple::Sel(_, inner) = s {
                            m = m.max(1 + d(inner));
                        }
                    }
                }
            }
            m
        }
        d(self)
    }
    pub fn compound_only(&self) -> bool {
        self.0.iter().all(|c| c.combs.is_empty())
    }
}

#[cfg(test)]
mod tests {
    use super::*;
    #[test]
    fn parse_print() {
        for (src, out) in [
            ("a.x:not(.y):not(.z) > b", "a.x:not(.y):not(.z) > b"),
            (":is(.x, a b, b)  c", ":is(.x, a b, b) c"),
            ("a+b~c,d", "a + b ~ c, d"),
            ("a:hover::before", "a:hover::before"),
            ("[p], [ q = 'a]b' ]", "[p], [q = \"a]b\"]"),
            (":nth-child( 2n + 1 )", ":nth-child(2n + 1)"),
            ("%p.x", "%p.x"),
        ] {
            assert_eq!(parse_list(src).unwrap().text(), out, "{}", src);
        }
        for bad in ["> a", "a >", "a > > b", "", "a,,b", "a|b", "&.x", "a b)"] {
            assert!(parse_list(bad).is_err(), "{}", bad);
        }
    }
    #[test]
    fn spec() {
        let s = |t: &str| parse_list(t).unwrap().0[0].specificity();
        assert_eq!(s("a"), (1, 1));
        assert_eq!(s("a.x #i"), (1_001_001, 1_001_001));
        assert_eq!(s(":is(a, #i)"), (1, 1_000_000));
        assert_eq!(s(":not(a, #i)"), (1_000_000, 1_000_000));
        assert_eq!(s("a::before:hover"), (1002, 1002));
    }
}

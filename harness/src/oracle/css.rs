//! Independent reader for the CSS that grass emits (and for CSS in general): a tokenizer in the
//! spirit of CSS Syntax Level 3, a block parser into a rule tree, and a flattening into
//! (at-rule path, selector, property, value) rows. Nothing here looks at grass.

use serde::Serialize;

#[derive(Clone, Debug, PartialEq, Serialize)]
pub enum Tok {
    Ident(String),
    /// name without the '('
    Function(String),
    AtKeyword(String),
    /// text after '#', unescaped
    Hash(String),
    /// unescaped value
    Str(String),
    /// unterminated string (a well-formedness defect)
    BadStr(String),
    /// url(...) with an unquoted argument: the raw argument, trimmed
    Url(String),
    /// numeric text as written (sign, digits, '.', exponent) and unit ("" = number, "%" = percentage)
    Num(String, String),
    Delim(char),
    Ws,
    Colon,
    Semi,
    Comma,
    LBrace,
    RBrace,
    LParen,
    RParen,
    LBracket,
    RBracket,
    /// comment body without the delimiters; `terminated` is false when EOF came first
    Comment(String, bool),
    /// <!-- or -->
    Cdo,
    Cdc,
}

fn is_name_start(c: char) -> bool {
    c.is_ascii_alphabetic() || c == '_' || !c.is_ascii()
}

fn is_name(c: char) -> bool {
    is_name_start(c) || c.is_ascii_digit() || c == '-'
}

struct Lx<'a> {
    s: &'a [char],
    i: usize,
}

impl<'a> Lx<'a> {
    fn peek(&self, k: usize) -> Option<char> {
        self.s.get(self.i + k).copied()
    }
    fn valid_escape(&self, k: usize) -> bool {
        self.peek(k) == Some('\\') && self.peek(k + 1).map(|c| c != '\n').unwrap_or(false)
    }
    fn starts_ident(&self) -> bool {
        match self.peek(0) {
            Some('-') => match self.peek(1) {
                Some('-') => true,
                Some(c) if is_name_start(c) => true,
                Some('\\') => self.valid_escape(1),
                _ => false,
            },
            Some(c) if is_name_start(c) => true,
            Some('\\') => self.valid_escape(0),
            _ => false,
        }
    }
    fn starts_number(&self) -> bool {
        match self.peek(0) {
            Some('+') | Some('-') => match self.peek(1) {
                Some(c) if c.is_ascii_digit() => true,
                Some('.') => self.peek(2).map(|c| c.is_ascii_digit()).unwrap_or(false),
                _ => false,
            },
            Some('.') => self.peek(1).map(|c| c.is_ascii_digit()).unwrap_or(false),
            Some(c) => c.is_ascii_digit(),
            None => false,
        }
    }
    fn escape(&mut self) -> char {
        // at '\\'
        self.i += 1;
        let mut hex = String::new();
        while hex.len() < 6 {
            match self.peek(0) {
                Some(c) if c.is_ascii_hexdigit() => {
                    hex.push(c);
                    self.i += 1;
                }
                _ => break,
            }
        }
        if hex.is_empty() {
            let c = self.peek(0).unwrap_or('\u{fffd}');
            self.i += 1;
            c
        } else {
            if matches!(self.peek(0), Some(' ') | Some('\n') | Some('\t')) {
                self.i += 1;
            }
            u32::from_str_radix(&hex, 16)
                .ok()
                .and_then(char::from_u32)
                .filter(|c| *c != '\0')
                .unwrap_or('\u{fffd}')
        }
    }
    fn name(&mut self) -> String {
        let mut out = String::new();
        loop {
            match self.peek(0) {
                Some(c) if is_name(c) => {
                    out.push(c);
                    self.i += 1;
                }
                Some('\\') if self.valid_escape(0) => out.push(self.escape()),
                _ => break,
            }
        }
        out
    }
    fn number(&mut self) -> String {
        let mut out = String::new();
        if matches!(self.peek(0), Some('+') | Some('-')) {
            out.push(self.peek(0).unwrap());
            self.i += 1;
        }
        while let Some(c) = self.peek(0) {
            if c.is_ascii_digit() {
                out.push(c);
                self.i += 1;
            } else {
                break;
            }
        }
        if self.peek(0) == Some('.') && self.peek(1).map(|c| c.is_ascii_digit()).unwrap_or(false) {
            out.push('.');
            self.i += 1;
            while let Some(c) = self.peek(0) {
                if c.is_ascii_digit() {
                    out.push(c);
                    self.i += 1;
                } else {
                    break;
                }
            }
        }
        if matches!(self.peek(0), Some('e') | Some('E')) {
            let k = if matches!(self.peek(1), Some('+') | Some('-')) { 2 } else { 1 };
            if self.peek(k).map(|c| c.is_ascii_digit()).unwrap_or(false) {
                for _ in 0..k {
                    out.push(self.peek(0).unwrap());
                    self.i += 1;
                }
                while let Some(c) = self.peek(0) {
                    if c.is_ascii_digit() {
                        out.push(c);
                        self.i += 1;
                    } else {
                        break;
                    }
                }
            }
        }
        out
    }
    fn string(&mut self, q: char) -> Tok {
        self.i += 1;
        let mut out = String::new();
        loop {
            match self.peek(0) {
                None => return Tok::BadStr(out),
                Some(c) if c == q => {
                    self.i += 1;
                    return Tok::Str(out);
                }
                Some('\n') => return Tok::BadStr(out),
                Some('\\') => {
                    if self.peek(1) == Some('\n') {
                        self.i += 2;
                    } else if self.peek(1).is_none() {
                        self.i += 1;
                    } else {
                        out.push(self.escape());
                    }
                }
                Some(c) => {
                    out.push(c);
                    self.i += 1;
                }
            }
        }
    }
}

pub fn tokenize(src: &str) -> Vec<Tok> {
    let chars: Vec<char> = src.chars().collect();
    let mut lx = Lx { s: &chars, i: 0 };
    let mut out = vec![];
    while let Some(c) = lx.peek(0) {
        match c {
            ' ' | '\t' | '\n' | '\r' | '\u{c}' => {
                while matches!(lx.peek(0), Some(' ') | Some('\t') | Some('\n') | Some('\r') | Some('\u{c}')) {
                    lx.i += 1;
                }
                out.push(Tok::Ws);
            }
            '/' if lx.peek(1) == Some('*') => {
                lx.i += 2;
                let mut body = String::new();
                let mut term = false;
                while let Some(c) = lx.peek(0) {
                    if c == '*' && lx.peek(1) == Some('/') {
                        lx.i += 2;
                        term = true;
                        break;
                    }
                    body.push(c);
                    lx.i += 1;
                }
                out.push(Tok::Comment(body, term));
            }
            '"' | '\'' => out.push(lx.string(c)),
            '#' => {
                if lx.peek(1).map(is_name).unwrap_or(false) || lx.valid_escape(1) {
                    lx.i += 1;
                    out.push(Tok::Hash(lx.name()));
                } else {
                    lx.i += 1;
                    out.push(Tok::Delim('#'));
                }
            }
            '(' => {
                lx.i += 1;
                out.push(Tok::LParen)
            }
            ')' => {
                lx.i += 1;
                out.push(Tok::RParen)
            }
            '[' => {
                lx.i += 1;
                out.push(Tok::LBracket)
            }
            ']' => {
                lx.i += 1;
                out.push(Tok::RBracket)
            }
            '{' => {
                lx.i += 1;
                out.push(Tok::LBrace)
            }
            '}' => {
                lx.i += 1;
                out.push(Tok::RBrace)
            }
            ',' => {
                lx.i += 1;
                out.push(Tok::Comma)
            }
            ':' => {
                lx.i += 1;
                out.push(Tok::Colon)
            }
            ';' => {
                lx.i += 1;
                out.push(Tok::Semi)
            }
            '<' if lx.peek(1) == Some('!') && lx.peek(2) == Some('-') && lx.peek(3) == Some('-') => {
                lx.i += 4;
                out.push(Tok::Cdo);
            }
            '@' => {
                lx.i += 1;
                if lx.starts_ident() {
                    out.push(Tok::AtKeyword(lx.name()));
                } else {
                    out.push(Tok::Delim('@'));
                }
            }
            _ => {
                if lx.starts_number() {
                    let n = lx.number();
                    if lx.starts_ident() {
                        let u = lx.name();
                        out.push(Tok::Num(n, u));
                    } else if lx.peek(0) == Some('%') {
                        lx.i += 1;
                        out.push(Tok::Num(n, "%".into()));
                    } else {
                        out.push(Tok::Num(n, String::new()));
                    }
                } else if c == '-' && lx.peek(1) == Some('-') && lx.peek(2) == Some('>') {
                    lx.i += 3;
                    out.push(Tok::Cdc);
                } else if lx.starts_ident() {
                    let name = lx.name();
                    if lx.peek(0) == Some('(') {
                        lx.i += 1;
                        if name.eq_ignore_ascii_case("url") {
                            // quoted argument -> Function + Str; unquoted -> Url
                            let save = lx.i;
                            while matches!(lx.peek(0), Some(' ') | Some('\t') | Some('\n')) {
                                lx.i += 1;
                            }
                            // a body with quotes, parentheses or inner whitespace is not a url-token
                            // (CSS: bad-url); Sass reads such text as an ordinary function call
                            let functionish = {
                                let mut k = lx.i;
                                let mut seen_ws_then_text = false;
                                let mut ws = false;
                                let mut bad = false;
                                while let Some(c) = chars.get(k).copied() {
                                    if c == ')' {
                                        break;
                                    }
                                    if c == '"' || c == '\'' || c == '(' {
                                        bad = true;
                                        break;
                                    }
                                    if c == ' ' || c == '\t' || c == '\n' {
                                        ws = true;
                                    } else if ws {
                                        seen_ws_then_text = true;
                                    }
                                    if c == '\\' {
                                        k += 1;
                                    }
                                    k += 1;
                                }
                                bad || seen_ws_then_text
                            };
                            if matches!(lx.peek(0), Some('"') | Some('\'')) || functionish {
                                lx.i = save;
                                out.push(Tok::Function(name));
                            } else {
                                let mut body = String::new();
                                let mut closed = false;
                                while let Some(c) = lx.peek(0) {
                                    if c == ')' {
                                        lx.i += 1;
                                        closed = true;
                                        break;
                                    }
                                    if c == '\\' && lx.valid_escape(0) {
                                        body.push(lx.escape());
                                        continue;
                                    }
                                    body.push(c);
                                    lx.i += 1;
                                }
                                if closed {
                                    out.push(Tok::Url(body.trim().to_string()));
                                } else {
                                    out.push(Tok::BadStr(body));
                                }
                            }
                        } else {
                            out.push(Tok::Function(name));
                        }
                    } else {
                        out.push(Tok::Ident(name));
                    }
                } else {
                    lx.i += 1;
                    out.push(Tok::Delim(c));
                }
            }
        }
    }
    out
}

/// Structural problems of a token stream: unbalanced brackets, unterminated strings / comments.
pub fn wellformedness_problems(toks: &[Tok]) -> Vec<String> {
    let mut probs = vec![];
    let mut stack: Vec<&Tok> = vec![];
    for t in toks {
        match t {
            Tok::BadStr(s) => probs.push(format!("unterminated string or url: {:?}", s)),
            Tok::Comment(_, false) => probs.push("unterminated comment".into()),
            Tok::LBrace | Tok::LParen | Tok::LBracket | Tok::Function(_) => stack.push(t),
            Tok::RBrace => match stack.pop() {
                Some(Tok::LBrace) => {}
                o => probs.push(format!("'}}' closes {:?}", o)),
            },
            Tok::RParen => match stack.pop() {
                Some(Tok::LParen) | Some(Tok::Function(_)) => {}
                o => probs.push(format!("')' closes {:?}", o)),
            },
            Tok::RBracket => match stack.pop() {
                Some(Tok::LBracket) => {}
                o => probs.push(format!("']' closes {:?}", o)),
            },
            _ => {}
        }
    }
    for t in stack {
        probs.push(format!("unclosed {:?}", t));
    }
    probs
}

#[derive(Clone, Debug, PartialEq, Serialize)]
pub enum Node {
    /// `prelude { children }` – a style rule (prelude = selector tokens) or a block at-rule
    /// (prelude starts with AtKeyword)
    Block { prelude: Vec<Tok>, children: Vec<Node> },
    /// `name: value` (value tokens, trimmed)
    Decl { name: Vec<Tok>, value: Vec<Tok> },
    /// `@rule prelude;`
    AtStmt { prelude: Vec<Tok> },
    /// a loud comment between statements
    Comment(String),
    /// anything else terminated by ';' or a block end (not a declaration, not an at-rule)
    Junk(Vec<Tok>),
}

fn trim(mut v: Vec<Tok>) -> Vec<Tok> {
    while matches!(v.last(), Some(Tok::Ws)) {
        v.pop();
    }
    while matches!(v.first(), Some(Tok::Ws)) {
        v.remove(0);
    }
    v
}

/// Parse a token stream into nodes. `top` = stylesheet level (no declarations expected, but
/// tolerated). Brackets inside preludes/values are skipped as units.
pub fn parse_nodes(toks: &[Tok]) -> Vec<Node> {
    let mut i = 0;
    parse_block(toks, &mut i, true)
}

fn parse_block(toks: &[Tok], i: &mut usize, top: bool) -> Vec<Node> {
    let mut out = vec![];
    loop {
        // skip whitespace and stray semicolons
        while matches!(toks.get(*i), Some(Tok::Ws) | Some(Tok::Semi) | Some(Tok::Cdo) | Some(Tok::Cdc)) {
            *i += 1;
        }
        match toks.get(*i) {
            None => return out,
            Some(Tok::RBrace) => {
                *i += 1;
                if top {
                    out.push(Node::Junk(vec![Tok::RBrace]));
                    continue;
                }
                return out;
            }
            Some(Tok::Comment(c, _)) => {
                out.push(Node::Comment(c.clone()));
                *i += 1;
                continue;
            }
            _ => {}
        }
        // read a statement up to ';' (decl / at-statement), '{' (block) or '}' (end of parent)
        let mut cur: Vec<Tok> = vec![];
        let mut depth = 0usize;
        let mut ended_by = ' ';
        while let Some(t) = toks.get(*i) {
            match t {
                Tok::LParen | Tok::LBracket | Tok::Function(_) => {
                    depth += 1;
                    cur.push(t.clone());
                }
                Tok::RParen | Tok::RBracket => {
                    depth = depth.saturating_sub(1);
                    cur.push(t.clone());
                }
                Tok::Semi if depth == 0 => {
                    *i += 1;
                    ended_by = ';';
                    break;
                }
                Tok::LBrace if depth == 0 => {
                    *i += 1;
                    ended_by = '{';
                    break;
                }
                Tok::RBrace if depth == 0 => {
                    ended_by = '}';
                    break;
                }
                Tok::Comment(..) => {}
                _ => cur.push(t.clone()),
            }
            *i += 1;
        }
        let cur = trim(cur);
        if ended_by == '{' {
            // custom property values may contain blocks, e.g. `--x: {a: b}`; treat `--name: {`
            // as a declaration whose value is the balanced block
            if is_custom_prop_start(&cur) {
                let mut value = cur[colon_pos(&cur).unwrap() + 1..].to_vec();
                value.push(Tok::LBrace);
                let mut d = 1;
                while let Some(t) = toks.get(*i) {
                    *i += 1;
                    match t {
                        Tok::LBrace => d += 1,
                        Tok::RBrace => {
                            d -= 1;
                            if d == 0 {
                                value.push(t.clone());
                                break;
                            }
                        }
                        _ => {}
                    }
                    value.push(t.clone());
                }
                // rest up to ';'
                while let Some(t) = toks.get(*i) {
                    if matches!(t, Tok::Semi) {
                        *i += 1;
                        break;
                    }
                    if matches!(t, Tok::RBrace) {
                        break;
                    }
                    value.push(t.clone());
                    *i += 1;
                }
                out.push(Node::Decl {
                    name: cur[..colon_pos(&cur).unwrap()].to_vec(),
                    value: trim(value),
                });
                continue;
            }
            let children = parse_block(toks, i, false);
            out.push(Node::Block {
                prelude: cur,
                children,
            });
        } else {
            if cur.is_empty() {
                if ended_by == ' ' {
                    return out;
                }
                continue;
            }
            if matches!(cur.first(), Some(Tok::AtKeyword(_))) {
                out.push(Node::AtStmt { prelude: cur });
            } else if let Some(p) = colon_pos(&cur) {
                out.push(Node::Decl {
                    name: trim(cur[..p].to_vec()),
                    value: trim(cur[p + 1..].to_vec()),
                });
            } else {
                out.push(Node::Junk(cur));
            }
            if ended_by == ' ' {
                return out;
            }
        }
    }
}

fn colon_pos(v: &[Tok]) -> Option<usize> {
    let mut depth = 0;
    for (k, t) in v.iter().enumerate() {
        match t {
            Tok::LParen | Tok::LBracket | Tok::Function(_) => depth += 1,
            Tok::RParen | Tok::RBracket => depth -= 1,
            Tok::Colon if depth == 0 => return Some(k),
            _ => {}
        }
    }
    None
}

fn is_custom_prop_start(v: &[Tok]) -> bool {
    match (v.first(), colon_pos(v)) {
        (Some(Tok::Ident(n)), Some(1)) => n.starts_with("--"),
        _ => false,
    }
}

/// Render tokens back to text in a canonical spelling (single spaces, strings double-quoted).
pub fn render(toks: &[Tok]) -> String {
    let mut s = String::new();
    for t in toks {
        match t {
            Tok::Ident(x) => s.push_str(x),
            Tok::Function(x) => {
                s.push_str(x);
                s.push('(');
            }
            Tok::AtKeyword(x) => {
                s.push('@');
                s.push_str(x);
            }
            Tok::Hash(x) => {
                s.push('#');
                s.push_str(x);
            }
            Tok::Str(x) | Tok::BadStr(x) => {
                s.push('"');
                for c in x.chars() {
                    if c == '"' || c == '\\' {
                        s.push('\\');
                    }
                    s.push(c);
                }
                s.push('"');
            }
            Tok::Url(x) => {
                s.push_str("url(");
                s.push_str(x);
                s.push(')');
            }
            Tok::Num(n, u) => {
                s.push_str(n);
                s.push_str(u);
            }
            Tok::Delim(c) => s.push(*c),
            Tok::Ws => s.push(' '),
            Tok::Colon => s.push(':'),
            Tok::Semi => s.push(';'),
            Tok::Comma => s.push(','),
            Tok::LBrace => s.push('{'),
            Tok::RBrace => s.push('}'),
            Tok::LParen => s.push('('),
            Tok::RParen => s.push(')'),
            Tok::LBracket => s.push('['),
            Tok::RBracket => s.push(']'),
            Tok::Comment(c, _) => {
                s.push_str("/*");
                s.push_str(c);
                s.push_str("*/");
            }
            Tok::Cdo => s.push_str("<!--"),
            Tok::Cdc => s.push_str("-->"),
        }
    }
    s
}

/// One declaration with its context: the chain of enclosing at-rule preludes (rendered,
/// whitespace-normalised) and the enclosing style-rule selector (rendered, normalised; "" if none).
#[derive(Clone, Debug, PartialEq, Eq, Hash, Serialize, PartialOrd, Ord)]
pub struct Row {
    pub at_path: Vec<String>,
    pub selector: String,
    pub prop: String,
    pub value: String,
}

/// normalise whitespace in a rendered prelude/selector/value: collapse runs, no space around
/// `,` `>` `+` `~` at top level is NOT applied here (selectors are compared by the selector
/// oracle); only trims and collapses.
pub fn squeeze(s: &str) -> String {
    let mut out = String::new();
    let mut ws = false;
    for c in s.trim().chars() {
        if c.is_whitespace() {
            ws = true;
        } else {
            if ws && !out.is_empty() {
                out.push(' ');
            }
            ws = false;
            out.push(c);
        }
    }
    out
}

/// canonical selector-list text: one space around combinators, ", " between complex selectors,
/// at every nesting depth of selector pseudo arguments; strings and `[...]` are left alone
pub fn canon_selector(s: &str) -> String {
    let s = squeeze(s);
    let mut out = String::new();
    let chars: Vec<char> = s.chars().collect();
    let mut brackets = 0i32;
    let mut i = 0;
    let mut in_str: Option<char> = None;
    while i < chars.len() {
        let c = chars[i];
        if let Some(q) = in_str {
            out.push(c);
            if c == '\\' && i + 1 < chars.len() {
                out.push(chars[i + 1]);
                i += 1;
            } else if c == q {
                in_str = None;
            }
            i += 1;
            continue;
        }
        match c {
            '\\' if i + 1 < chars.len() => {
                out.push(c);
                out.push(chars[i + 1]);
                i += 1;
            }
            '"' | '\'' => {
                in_str = Some(c);
                out.push(c);
            }
            '[' => {
                brackets += 1;
                out.push(c);
            }
            ']' => {
                brackets -= 1;
                out.push(c);
            }
            '(' if brackets == 0 && out.rsplit(':').next().map_or(false, |n| n.starts_with("nth-")) => {
                // An+B microsyntax (`:nth-child(2n + 1 of .a)`): not selector syntax, kept verbatim
                let mut depth = 0i32;
                while i < chars.len() {
                    let d = chars[i];
                    if d == ',' {
                        // `of <selector-list>`
                        while out.ends_with(' ') {
                            out.pop();
                        }
                        out.push_str(", ");
                        while i + 1 < chars.len() && chars[i + 1] == ' ' {
                            i += 1;
                        }
                        i += 1;
                        continue;
                    }
                    out.push(d);
                    if d == '(' {
                        depth += 1;
                    } else if d == ')' {
                        depth -= 1;
                        if depth == 0 {
                            break;
                        }
                    }
                    i += 1;
                }
            }
            '(' if brackets == 0 => {
                out.push(c);
                while i + 1 < chars.len() && chars[i + 1] == ' ' {
                    i += 1;
                }
            }
            ')' if brackets == 0 => {
                while out.ends_with(' ') {
                    out.pop();
                }
                out.push(c);
            }
            ',' if brackets == 0 => {
                while out.ends_with(' ') {
                    out.pop();
                }
                out.push_str(", ");
                while i + 1 < chars.len() && chars[i + 1] == ' ' {
                    i += 1;
                }
            }
            '>' | '+' | '~' if brackets == 0 => {
                while out.ends_with(' ') {
                    out.pop();
                }
                if !out.is_empty() && !out.ends_with(", ") && !out.ends_with('(') {
                    out.push(' ');
                }
                out.push(c);
                out.push(' ');
                while i + 1 < chars.len() && chars[i + 1] == ' ' {
                    i += 1;
                }
            }
            _ => out.push(c),
        }
        i += 1;
    }
    out.trim().to_string()
}

pub fn flatten_rows(nodes: &[Node]) -> Vec<Row> {
    let mut rows = vec![];
    fn walk(nodes: &[Node], at: &mut Vec<String>, sel: &str, rows: &mut Vec<Row>) {
        for n in nodes {
            match n {
                Node::Decl { name, value } => rows.push(Row {
                    at_path: at.clone(),
                    selector: sel.to_string(),
                    prop: squeeze(&render(name)),
                    value: squeeze(&render(value)),
                }),
                Node::Block { prelude, children } => {
                    if matches!(prelude.first(), Some(Tok::AtKeyword(_))) {
                        at.push(squeeze(&render(prelude)));
                        walk(children, at, sel, rows);
                        at.pop();
                    } else {
                        let s = canon_selector(&render(prelude));
                        walk(children, at, &s, rows);
                    }
                }
                _ => {}
            }
        }
    }
    walk(nodes, &mut vec![], "", &mut rows);
    rows
}

/// Convenience: css text -> rows
pub fn rows(css: &str) -> Vec<Row> {
    flatten_rows(&parse_nodes(&tokenize(css)))
}

/// All blocks (style rules and at-rules) in document order with their at-path, including empty ones.
#[derive(Clone, Debug, PartialEq, Serialize)]
pub struct BlockInfo {
    pub at_path: Vec<String>,
    pub prelude: String,
    pub is_at_rule: bool,
    pub n_children: usize,
}

pub fn blocks(nodes: &[Node]) -> Vec<BlockInfo> {
    let mut out = vec![];
    fn walk(nodes: &[Node], at: &mut Vec<String>, out: &mut Vec<BlockInfo>) {
        for n in nodes {
            if let Node::Block { prelude, children } = n {
                let is_at = matches!(prelude.first(), Some(Tok::AtKeyword(_)));
                let p = if is_at {
                    squeeze(&render(prelude))
                } else {
                    canon_selector(&render(prelude))
                };
                out.push(BlockInfo {
                    at_path: at.clone(),
                    prelude: p.clone(),
                    is_at_rule: is_at,
                    n_children: children.iter().filter(|c| !matches!(c, Node::Comment(_))).count(),
                });
                if is_at {
                    at.push(p);
                    walk(children, at, out);
                    at.pop();
                } else {
                    walk(children, at, out);
                }
            }
        }
    }
    walk(nodes, &mut vec![], &mut out);
    out
}

#[cfg(test)]
mod tests {
    use super::*;
    #[test]
    fn basic() {
        let r = rows("@media screen {\n  a > b, c {\n    color: red;\n    x: \"a;b\" }\n}\nd{e:f}");
        assert_eq!(r.len(), 3);
        assert_eq!(r[0].at_path, vec!["@media screen"]);
        assert_eq!(r[0].selector, "a > b, c");
        assert_eq!(r[1].value, "\"a;b\"");
        assert_eq!(r[2].selector, "d");
    }
}

pub mod css;
pub mod canon;
pub mod imports;
pub mod media;

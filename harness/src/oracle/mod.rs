pub mod css;

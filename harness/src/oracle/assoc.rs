//! Association-list model of Sass maps, parameterised by a key-equality predicate over key indices
//! (the `==` matrix observed for the key pool). Written from the Sass documentation of `sass:map`
//! (map.get / has-key / merge / remove / set / deep-merge with nested keys) and the dart-sass 1.54
//! semantics where the documentation is silent:
//!
//! * a map is a sequence of entries in first-insertion order;
//! * writing to a key that is `==` to an existing key replaces the value **in place** (documented for
//!   map.merge: "keys that also appear in $map1 have the same order as in $map1; new keys appear at the
//!   end"); *which spelling* of the key is kept is not documented (dart-sass keeps the old one), so an
//!   entry carries the set of spellings it may legitimately show (`cands`);
//! * removing keeps the order of the survivors;
//! * deep-merge recurses only where both values are maps, otherwise the second value wins;
//! * map.set with nested keys replaces a missing or non-map intermediate value by a new map.

#[derive(Clone, Debug, PartialEq)]
pub enum MVal {
    Atom(String),
    Map(Assoc),
}

#[derive(Clone, Debug, PartialEq)]
pub struct Entry {
    /// key indices (into the pool) this entry may be spelled as; `cands[0]` = first inserted
    pub cands: Vec<usize>,
    pub val: MVal,
}

pub type Assoc = Vec<Entry>;

#[derive(Default, Clone, Debug)]
pub struct Hits {
    /// lookups/writes that found an entry under the very same pool key
    pub same: u64,
    /// ... under an equal but differently spelled key
    pub respelled: u64,
    pub miss: u64,
}

pub struct Model<'a> {
    pub eq: &'a dyn Fn(usize, usize) -> bool,
    pub hits: Hits,
}

impl<'a> Model<'a> {
    pub fn new(eq: &'a dyn Fn(usize, usize) -> bool) -> Model<'a> {
        Model { eq, hits: Hits::default() }
    }

    fn find(&mut self, a: &Assoc, k: usize) -> Option<usize> {
        for (p, e) in a.iter().enumerate() {
            if (self.eq)(e.cands[0], k) {
                if e.cands.contains(&k) {
                    self.hits.same += 1;
                } else {
                    self.hits.respelled += 1;
                }
                return Some(p);
            }
        }
        self.hits.miss += 1;
        None
    }

    pub fn set(&mut self, a: &mut Assoc, k: usize, v: MVal) {
        match self.find(a, k) {
            Some(p) => {
                a[p].val = v;
                if !a[p].cands.contains(&k) {
                    a[p].cands.push(k);
                }
            }
            None => a.push(Entry { cands: vec![k], val: v }),
        }
    }

    /// merge an entry that itself may carry several admissible spellings
    fn set_entry(&mut self, a: &mut Assoc, e: Entry) {
        match self.find(a, e.cands[0]) {
            Some(p) => {
                a[p].val = e.val;
                for c in e.cands {
                    if !a[p].cands.contains(&c) {
                        a[p].cands.push(c);
                    }
                }
            }
            None => a.push(e),
        }
    }

    pub fn merge(&mut self, a: &mut Assoc, b: Assoc) {
        for e in b {
            self.set_entry(a, e);
        }
    }

    pub fn remove(&mut self, a: &mut Assoc, ks: &[usize]) {
        for &k in ks {
            if let Some(p) = self.find(a, k) {
                a.remove(p);
            }
        }
    }

    pub fn deep_merge(&mut self, a: &mut Assoc, b: Assoc) {
        for e in b {
            match self.find(a, e.cands[0]) {
                Some(p) => {
                    for c in &e.cands {
                        if !a[p].cands.contains(c) {
                            a[p].cands.push(*c);
                        }
                    }
                    match (&mut a[p].val, e.val) {
                        (MVal::Map(inner), MVal::Map(other)) => {
                            let mut tmp = std::mem::take(inner);
                            self.deep_merge(&mut tmp, other);
                            a[p].val = MVal::Map(tmp);
                        }
                        (_, v) => a[p].val = v,
                    }
                }
                None => a.push(e),
            }
        }
    }

    /// map.set($map, $keys..., $key, $value)
    pub fn set_path(&mut self, a: &mut Assoc, path: &[usize], v: MVal) {
        if path.len() == 1 {
            self.set(a, path[0], v);
            return;
        }
        let k = path[0];
        match self.find(a, k) {
            Some(p) => {
                if !a[p].cands.contains(&k) {
                    a[p].cands.push(k);
                }
                let mut inner = match std::mem::replace(&mut a[p].val, MVal::Atom(String::new())) {
                    MVal::Map(m) => m,
                    _ => vec![],
                };
                self.set_path(&mut inner, &path[1..], v);
                a[p].val = MVal::Map(inner);
            }
            None => {
                let mut inner = vec![];
                self.set_path(&mut inner, &path[1..], v);
                a.push(Entry { cands: vec![k], val: MVal::Map(inner) });
            }
        }
    }

    /// map.get($map, $key, $keys...) ; None = null
    pub fn get_path(&mut self, a: &Assoc, path: &[usize]) -> Option<MVal> {
        let p = self.find(a, path[0])?;
        if path.len() == 1 {
            return Some(a[p].val.clone());
        }
        match &a[p].val {
            MVal::Map(inner) => {
                let inner = inner.clone();
                self.get_path(&inner, &path[1..])
            }
            _ => None,
        }
    }

    pub fn has_path(&mut self, a: &Assoc, path: &[usize]) -> bool {
        self.get_path(a, path).is_some()
    }
}

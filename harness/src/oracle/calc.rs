//! Independent parser + evaluator for `calc()/min()/max()/clamp()` expressions (CSS Values and
//! Units 4, section 10) over *unit environments*, and a unit-level model of the Sass
//! simplification rules (Sass documentation "Calculations"; dart-sass 1.54 `SassCalculation`).
//!
//! Nothing here calls grass or mirrors its code: the grammar is the CSS one (`+`/`-` need
//! whitespace on both sides, `*`/`/` bind tighter, parentheses, nested functions), evaluation is
//! ordinary typed arithmetic over (value, dimension vector).
//!
//! Source mode additionally accepts the two Sass leaves the generator uses: `$name` (a variable
//! whose definition is looked up in `Vars`) and `#{$name}` (interpolation of such a variable).

use std::collections::BTreeMap;

#[derive(Clone, Debug, PartialEq)]
pub enum Node {
    /// unit is lower-cased; "" = unitless, "%" = percentage
    Num { v: f64, unit: String },
    Var(String),
    Interp(String),
    Bin { op: char, l: Box<Node>, r: Box<Node> },
    Paren(Box<Node>),
    /// name is lower-cased: calc | min | max | clamp
    Func { name: String, args: Vec<Node> },
}

// ------------------------------------------------------------------------------------------
// parser
// ------------------------------------------------------------------------------------------

struct P<'a> {
    s: &'a [u8],
    i: usize,
    sass: bool,
}

fn is_ws(c: u8) -> bool {
    c == b' ' || c == b'\n' || c == b'\t' || c == b'\r' || c == 0x0c
}

impl<'a> P<'a> {
    fn peek(&self) -> Option<u8> {
        self.s.get(self.i).copied()
    }
    fn peek_at(&self, k: usize) -> Option<u8> {
        self.s.get(self.i + k).copied()
    }
    fn skip_ws(&mut self) -> usize {
        let st = self.i;
        while let Some(c) = self.peek() {
            if is_ws(c) {
                self.i += 1;
            } else {
                break;
            }
        }
        self.i - st
    }
    fn err<T>(&self, m: &str) -> Result<T, String> {
        Err(format!("{} at byte {}", m, self.i))
    }

    fn ident(&mut self) -> String {
        let st = self.i;
        while let Some(c) = self.peek() {
            if c.is_ascii_alphanumeric() || c == b'-' || c == b'_' {
                self.i += 1;
            } else {
                break;
            }
        }
        String::from_utf8_lossy(&self.s[st..self.i]).into_owned()
    }

    fn number(&mut self) -> Result<Node, String> {
        let st = self.i;
        if let Some(b'+') | Some(b'-') = self.peek() {
            self.i += 1;
        }
        let mut digits = 0;
        while let Some(c) = self.peek() {
            if c.is_ascii_digit() {
                self.i += 1;
                digits += 1;
            } else {
                break;
            }
        }
        if self.peek() == Some(b'.') && self.peek_at(1).map_or(false, |c| c.is_ascii_digit()) {
            self.i += 1;
            while let Some(c) = self.peek() {
                if c.is_ascii_digit() {
                    self.i += 1;
                    digits += 1;
                } else {
                    break;
                }
            }
        }
        if digits == 0 {
            self.i = st;
            return self.err("expected a number");
        }
        // exponent: e[+-]?digit
        if let Some(b'e') | Some(b'E') = self.peek() {
            let k = match self.peek_at(1) {
                Some(b'+') | Some(b'-') => 2,
                _ => 1,
            };
            if self.peek_at(k).map_or(false, |c| c.is_ascii_digit()) {
                self.i += k;
                while let Some(c) = self.peek() {
                    if c.is_ascii_digit() {
                        self.i += 1;
                    } else {
                        break;
                    }
                }
            }
        }
        let txt = std::str::from_utf8(&self.s[st..self.i]).unwrap_or("");
        let v: f64 = match txt.trim_start_matches('+').parse() {
            Ok(v) => v,
            Err(_) => return self.err("bad number"),
        };
        // unit
        let ust = self.i;
        if self.peek() == Some(b'%') {
            self.i += 1;
        } else {
            while let Some(c) = self.peek() {
                if c.is_ascii_alphabetic() {
                    self.i += 1;
                } else {
                    break;
                }
            }
        }
        let unit = String::from_utf8_lossy(&self.s[ust..self.i]).to_ascii_lowercase();
        Ok(Node::Num { v, unit })
    }

    fn unit_value(&mut self) -> Result<Node, String> {
        match self.peek() {
            None => self.err("unexpected end"),
            Some(b'(') => {
                self.i += 1;
                self.skip_ws();
                let e = self.sum()?;
                self.skip_ws();
                if self.peek() != Some(b')') {
                    return self.err("expected ')'");
                }
                self.i += 1;
                Ok(Node::Paren(Box::new(e)))
            }
            Some(b'$') if self.sass => {
                self.i += 1;
                let n = self.ident();
                if n.is_empty() {
                    return self.err("expected a variable name");
                }
                Ok(Node::Var(n))
            }
            Some(b'#') if self.sass && self.peek_at(1) == Some(b'{') => {
                self.i += 2;
                self.skip_ws();
                if self.peek() != Some(b'$') {
                    return self.err("only #{$var} is modelled");
                }
                self.i += 1;
                let n = self.ident();
                self.skip_ws();
                if self.peek() != Some(b'}') {
                    return self.err("expected '}'");
                }
                self.i += 1;
                Ok(Node::Interp(n))
            }
            Some(c) if c.is_ascii_alphabetic() => self.func(),
            Some(c) if c.is_ascii_digit() || c == b'.' || c == b'+' || c == b'-' => self.number(),
            Some(_) => self.err("unexpected character"),
        }
    }

    fn func(&mut self) -> Result<Node, String> {
        let name = self.ident().to_ascii_lowercase();
        if !matches!(name.as_str(), "calc" | "min" | "max" | "clamp") {
            return self.err(&format!("unknown function or keyword '{}'", name));
        }
        if self.peek() != Some(b'(') {
            return self.err("expected '('");
        }
        self.i += 1;
        let mut args = vec![];
        loop {
            self.skip_ws();
            args.push(self.sum()?);
            self.skip_ws();
            match self.peek() {
                Some(b',') => {
                    self.i += 1;
                }
                Some(b')') => {
                    self.i += 1;
                    break;
                }
                _ => return self.err("expected ',' or ')'"),
            }
        }
        let ok = match name.as_str() {
            "calc" => args.len() == 1,
            "clamp" => args.len() == 3,
            _ => !args.is_empty(),
        };
        if !ok {
            return self.err(&format!("wrong number of arguments for {}()", name));
        }
        Ok(Node::Func { name, args })
    }

    fn product(&mut self) -> Result<Node, String> {
        let mut l = self.unit_value()?;
        loop {
            let save = self.i;
            self.skip_ws();
            match self.peek() {
                Some(c @ b'*') | Some(c @ b'/') => {
                    self.i += 1;
                    self.skip_ws();
                    let r = self.unit_value()?;
                    l = Node::Bin {
                        op: c as char,
                        l: Box::new(l),
                        r: Box::new(r),
                    };
                }
                _ => {
                    self.i = save;
                    return Ok(l);
                }
            }
        }
    }

    fn sum(&mut self) -> Result<Node, String> {
        let mut l = self.product()?;
        loop {
            let save = self.i;
            let ws_before = self.skip_ws();
            match self.peek() {
                Some(c @ b'+') | Some(c @ b'-') => {
                    // CSS Values 4: white space is required on both sides of + and -
                    let after = self.peek_at(1);
                    if ws_before == 0 || !after.map_or(false, is_ws) {
                        return self.err("'+' and '-' must be surrounded by white space");
                    }
                    self.i += 1;
                    self.skip_ws();
                    let r = self.product()?;
                    l = Node::Bin {
                        op: c as char,
                        l: Box::new(l),
                        r: Box::new(r),
                    };
                }
                _ => {
                    self.i = save;
                    return Ok(l);
                }
            }
        }
    }
}

/// Parse a declaration value that is either a single number or one calculation function.
/// `sass` = accept `$var` and `#{$var}` leaves (source text).
pub fn parse_value(text: &str, sass: bool) -> Result<Node, String> {
    let mut p = P {
        s: text.as_bytes(),
        i: 0,
        sass,
    };
    p.skip_ws();
    let n = match p.peek() {
        Some(c) if c.is_ascii_alphabetic() => p.func()?,
        Some(b'$') if sass => p.unit_value()?,
        _ => p.number()?,
    };
    p.skip_ws();
    if p.i != p.s.len() {
        return p.err("trailing text");
    }
    Ok(n)
}

// ------------------------------------------------------------------------------------------
// evaluation over unit environments
// ------------------------------------------------------------------------------------------

/// px per relative unit. Angles are measured in deg, times in s (their own dimensions).
#[derive(Clone, Copy, Debug, PartialEq)]
pub struct Env {
    pub em: f64,
    pub rem: f64,
    pub vw: f64,
    pub pct: f64,
}

pub const ENV0: Env = Env {
    em: 13.7,
    rem: 17.3,
    vw: 9.1,
    pct: 2.3,
};

/// Three environments for a case: the fixed one and two drawn from a hash of `key`.
pub fn envs_for(key: &str) -> [Env; 3] {
    let mut h: u64 = 0xcbf2_9ce4_8422_2325;
    for b in key.bytes() {
        h = (h ^ b as u64).wrapping_mul(0x100_0000_01b3);
    }
    let mut next = move || {
        // splitmix64
        h = h.wrapping_add(0x9e37_79b9_7f4a_7c15);
        let mut z = h;
        z = (z ^ (z >> 30)).wrapping_mul(0xbf58_476d_1ce4_e5b9);
        z = (z ^ (z >> 27)).wrapping_mul(0x94d0_49bb_1331_11eb);
        z ^= z >> 31;
        (z >> 11) as f64 / (1u64 << 53) as f64
    };
    let mut mk = |_: usize| Env {
        em: 5.0 + 35.0 * next(),
        rem: 5.0 + 35.0 * next(),
        vw: 2.0 + 18.0 * next(),
        pct: 0.5 + 7.5 * next(),
    };
    [ENV0, mk(1), mk(2)]
}

pub const D_LEN: usize = 0;
pub const D_ANG: usize = 1;
pub const D_TIME: usize = 2;

/// factor to the canonical unit of the dimension, and the dimension; None = unit not modelled
pub fn unit_factor(unit: &str, env: &Env) -> Option<(f64, Option<usize>)> {
    Some(match unit {
        "" => (1.0, None),
        "px" => (1.0, Some(D_LEN)),
        "in" => (96.0, Some(D_LEN)),
        "pt" => (96.0 / 72.0, Some(D_LEN)),
        "pc" => (16.0, Some(D_LEN)),
        "cm" => (96.0 / 2.54, Some(D_LEN)),
        "mm" => (96.0 / 25.4, Some(D_LEN)),
        "q" => (96.0 / 101.6, Some(D_LEN)),
        "em" => (env.em, Some(D_LEN)),
        "rem" => (env.rem, Some(D_LEN)),
        "vw" => (env.vw, Some(D_LEN)),
        "%" => (env.pct, Some(D_LEN)),
        "deg" => (1.0, Some(D_ANG)),
        "turn" => (360.0, Some(D_ANG)),
        "grad" => (0.9, Some(D_ANG)),
        "rad" => (180.0 / std::f64::consts::PI, Some(D_ANG)),
        "s" => (1.0, Some(D_TIME)),
        "ms" => (0.001, Some(D_TIME)),
        _ => return None,
    })
}

/// A quantity: value in canonical units, dimension exponents, and a conservative magnitude of the
/// computation (sum of absolute values of the terms, leaves counted as at least 1) that the
/// comparison tolerance is relative to – a printed number is rounded to 10 decimals, so an
/// absolute error of 5e-11 per printed leaf is inherent.
#[derive(Clone, Copy, Debug, PartialEq)]
pub struct Q {
    pub v: f64,
    pub dim: [i32; 3],
    pub mag: f64,
}

#[derive(Clone, Debug, PartialEq)]
pub enum EvalErr {
    /// operands of + - or arguments of min/max/clamp do not have the same type
    Dim(String),
    /// division by (nearly) zero – ill-conditioned, outside the compared domain
    DivZero,
    UnknownUnit(String),
    Unbound(String),
}

pub type Vars = BTreeMap<String, Node>;

pub const DIV_EPS: f64 = 1e-3;

pub fn eval(n: &Node, env: &Env, vars: &Vars) -> Result<Q, EvalErr> {
    match n {
        Node::Num { v, unit } => {
            let (f, d) = unit_factor(unit, env).ok_or_else(|| EvalErr::UnknownUnit(unit.clone()))?;
            let mut dim = [0; 3];
            if let Some(d) = d {
                dim[d] = 1;
            }
            let x = v * f;
            Ok(Q {
                v: x,
                dim,
                mag: x.abs().max(f.max(1.0)),
            })
        }
        Node::Var(name) | Node::Interp(name) => {
            let d = vars.get(name).ok_or_else(|| EvalErr::Unbound(name.clone()))?;
            eval(d, env, vars)
        }
        Node::Paren(e) => eval(e, env, vars),
        Node::Bin { op, l, r } => {
            let a = eval(l, env, vars)?;
            let b = eval(r, env, vars)?;
            match op {
                '+' | '-' => {
                    if a.dim != b.dim {
                        return Err(EvalErr::Dim(format!("{:?} {} {:?}", a.dim, op, b.dim)));
                    }
                    Ok(Q {
                        v: if *op == '+' { a.v + b.v } else { a.v - b.v },
                        dim: a.dim,
                        mag: a.mag + b.mag,
                    })
                }
                '*' => Ok(Q {
                    v: a.v * b.v,
                    dim: [a.dim[0] + b.dim[0], a.dim[1] + b.dim[1], a.dim[2] + b.dim[2]],
                    mag: a.mag * b.mag,
                }),
                _ => {
                    if b.v.abs() < DIV_EPS || !b.v.is_finite() {
                        return Err(EvalErr::DivZero);
                    }
                    Ok(Q {
                        v: a.v / b.v,
                        dim: [a.dim[0] - b.dim[0], a.dim[1] - b.dim[1], a.dim[2] - b.dim[2]],
                        // condition number of the divisor enters the magnitude
                        mag: (a.mag / b.v.abs()) * (b.mag / b.v.abs()).max(1.0),
                    })
                }
            }
        }
        Node::Func { name, args } => {
            let qs: Result<Vec<Q>, EvalErr> = args.iter().map(|a| eval(a, env, vars)).collect();
            let qs = qs?;
            for q in &qs[1..] {
                if q.dim != qs[0].dim {
                    return Err(EvalErr::Dim(format!("{}() arguments {:?} vs {:?}", name, qs[0].dim, q.dim)));
                }
            }
            let mag = qs.iter().fold(0.0f64, |m, q| m.max(q.mag));
            let v = match name.as_str() {
                "calc" => qs[0].v,
                "min" => qs.iter().fold(f64::INFINITY, |m, q| m.min(q.v)),
                "max" => qs.iter().fold(f64::NEG_INFINITY, |m, q| m.max(q.v)),
                // CSS Values 4: clamp(MIN, VAL, MAX) = max(MIN, min(VAL, MAX))
                _ => qs[0].v.max(qs[1].v.min(qs[2].v)),
            };
            Ok(Q {
                v,
                dim: qs[0].dim,
                mag,
            })
        }
    }
}

/// Does any `clamp()` in the tree (variable definitions included) have MIN > MAX under `env`?
/// (Only clamps whose bounds can be evaluated are judged.)
pub fn clamp_disordered(n: &Node, env: &Env, vars: &Vars) -> bool {
    match n {
        Node::Num { .. } => false,
        Node::Var(name) | Node::Interp(name) => vars
            .get(name)
            .map_or(false, |d| clamp_disordered(d, env, vars)),
        Node::Paren(e) => clamp_disordered(e, env, vars),
        Node::Bin { l, r, .. } => clamp_disordered(l, env, vars) || clamp_disordered(r, env, vars),
        Node::Func { name, args } => {
            if args.iter().any(|a| clamp_disordered(a, env, vars)) {
                return true;
            }
            if name == "clamp" && args.len() == 3 {
                if let (Ok(lo), Ok(hi)) = (eval(&args[0], env, vars), eval(&args[2], env, vars)) {
                    if lo.dim == hi.dim && lo.v > hi.v {
                        return true;
                    }
                }
            }
            false
        }
    }
}

/// |a - b| within `rel` of the magnitude of the computation
pub fn close(a: &Q, b: &Q, rel: f64) -> bool {
    if a.dim != b.dim {
        return false;
    }
    let m = a.mag.max(b.mag).max(a.v.abs()).max(b.v.abs()).max(1.0);
    (a.v - b.v).abs() <= rel * m
}

// ------------------------------------------------------------------------------------------
// unit-level model of Sass's simplification / type checks
// ------------------------------------------------------------------------------------------

/// Convertibility class of a unit in Sass: units of one class convert into each other at compile
/// time; `known` dimension (length/angle/time) is what makes two different classes *provably*
/// incompatible. `%` has no known dimension.
fn conv_class(unit: &str) -> String {
    match unit {
        "px" | "in" | "pt" | "pc" | "cm" | "mm" | "q" => "abs-length".into(),
        "deg" | "turn" | "grad" | "rad" => "angle".into(),
        "s" | "ms" => "time".into(),
        other => other.to_string(),
    }
}

fn known_dimension(unit: &str) -> Option<usize> {
    match unit {
        "px" | "in" | "pt" | "pc" | "cm" | "mm" | "q" | "em" | "rem" | "vw" | "vh" | "ex" | "ch"
        | "vmin" | "vmax" => Some(D_LEN),
        "deg" | "turn" | "grad" | "rad" => Some(D_ANG),
        "s" | "ms" => Some(D_TIME),
        _ => None,
    }
}

/// Units of a number after cancellation (convertibility classes, sorted) – values are not needed.
#[derive(Clone, Debug, PartialEq, Eq)]
pub struct Units {
    pub numer: Vec<String>,
    pub denom: Vec<String>,
    /// original spelling when there is exactly one numerator unit and no denominator
    pub simple_unit: Option<String>,
}

impl Units {
    fn of(unit: &str) -> Units {
        if unit.is_empty() {
            Units {
                numer: vec![],
                denom: vec![],
                simple_unit: None,
            }
        } else {
            Units {
                numer: vec![conv_class(unit)],
                denom: vec![],
                simple_unit: Some(unit.to_string()),
            }
        }
    }
    pub fn is_unitless(&self) -> bool {
        self.numer.is_empty() && self.denom.is_empty()
    }
    pub fn is_simple(&self) -> bool {
        self.denom.is_empty() && self.numer.len() <= 1
    }
    fn same(&self, o: &Units) -> bool {
        self.numer == o.numer && self.denom == o.denom
    }
    fn mul(&self, o: &Units, divide: bool) -> Units {
        let (on, od) = if divide { (&o.denom, &o.numer) } else { (&o.numer, &o.denom) };
        let mut numer: Vec<String> = self.numer.iter().chain(on.iter()).cloned().collect();
        let mut denom: Vec<String> = vec![];
        for d in self.denom.iter().chain(od.iter()) {
            if let Some(p) = numer.iter().position(|n| n == d) {
                numer.remove(p);
            } else {
                denom.push(d.clone());
            }
        }
        numer.sort();
        denom.sort();
        let simple_unit = if denom.is_empty() && numer.len() == 1 {
            // keep a spelling of that class
            self.simple_unit
                .clone()
                .filter(|u| conv_class(u) == numer[0])
                .or_else(|| o.simple_unit.clone().filter(|u| conv_class(u) == numer[0]))
                .or_else(|| Some(numer[0].clone()))
        } else {
            None
        };
        Units {
            numer,
            denom,
            simple_unit,
        }
    }
}

#[derive(Clone, Debug, PartialEq)]
pub enum Shape {
    /// Sass computes a number with these units at compile time
    Plain(Units),
    /// stays a calculation / operation
    Sym,
}

#[derive(Clone, Debug, Default)]
pub struct Analysis {
    /// direct number operands of + - / direct number arguments of min/max/clamp whose single units
    /// have known, different dimensions (px + s): Sass documents an error
    pub must_reject: Vec<String>,
    /// nested min()/max()/clamp() whose arguments are all numbers, some unitless and some not: Sass
    /// computes a number, but which unit it has (possibly none) depends on the values - and a
    /// unitless running minimum is comparable with everything, so later pairs are never checked
    pub nested_number_of_unknown_unit: u32,
    /// unitless and unit-ful number operands of + or - in calc()/clamp() context (finding #19)
    pub unitless_sum_calc: Vec<String>,
    /// the same inside min()/max(): allowed for backwards compatibility with the global functions
    pub unitless_sum_minmax: u32,
    /// unitless and unit-ful numbers as direct arguments of min()/max() (legacy, allowed) or clamp()
    pub unitless_args: u32,
    /// a number with compound units (px*px, px/em) as operand of + - or argument of min/max/clamp
    pub complex_operand: u32,
    pub has_interp: bool,
    pub ops: u32,
    /// + or - over numbers (or a number and an operation) that cannot be folded: mixed-unit node
    pub mixed_nodes: u32,
    /// `-` or `/` whose right operand is an operation
    pub paren_sensitive: u32,
    /// min/max/clamp below the top-level function
    pub nested_fn: u32,
    pub max_depth: u32,
}

fn strip(n: &Node) -> &Node {
    match n {
        Node::Paren(e) => strip(e),
        Node::Func { name, args } if name == "calc" && args.len() == 1 => strip(&args[0]),
        _ => n,
    }
}

fn incompatible_known(a: &Units, b: &Units) -> bool {
    if let (Some(ua), Some(ub)) = (&a.simple_unit, &b.simple_unit) {
        if let (Some(da), Some(db)) = (known_dimension(ua), known_dimension(ub)) {
            return da != db;
        }
    }
    false
}

fn describe(u: &Units) -> String {
    if u.is_unitless() {
        "unitless".into()
    } else if let Some(s) = &u.simple_unit {
        s.clone()
    } else {
        format!("{}/{}", u.numer.join("*"), u.denom.join("*"))
    }
}

pub fn analyze(n: &Node, vars: &Vars, an: &mut Analysis) -> Shape {
    shape(n, vars, an, false, 0, true)
}

fn check_args(name: &str, shapes: &[Shape], an: &mut Analysis) {
    let plains: Vec<&Units> = shapes
        .iter()
        .filter_map(|s| match s {
            Shape::Plain(u) => Some(u),
            _ => None,
        })
        .collect();
    for a in &plains {
        if !a.is_simple() {
            an.complex_operand += 1;
        }
    }
    // min()/max(): a unitless number is comparable with anything (compatibility with the global
    // functions), and which pairs get compared then depends on the values; clamp() with a unitless
    // argument next to a unit-ful one: not judged either
    if plains.iter().any(|a| a.is_unitless()) && plains.iter().any(|a| !a.is_unitless()) {
        an.unitless_args += 1;
        return;
    }
    for (i, a) in plains.iter().enumerate() {
        for b in &plains[i + 1..] {
            if a.is_simple() && b.is_simple() && incompatible_known(a, b) {
                an.must_reject
                    .push(format!("{}({} , {})", name, describe(a), describe(b)));
            }
        }
    }
}

fn shape(n: &Node, vars: &Vars, an: &mut Analysis, in_minmax: bool, depth: u32, top: bool) -> Shape {
    an.max_depth = an.max_depth.max(depth);
    match n {
        Node::Num { unit, .. } => Shape::Plain(Units::of(unit)),
        Node::Var(name) => match vars.get(name) {
            // a variable holds a value computed on its own (its own context)
            Some(d) => shape(d, vars, an, false, depth, false),
            None => Shape::Sym,
        },
        Node::Interp(name) => {
            an.has_interp = true;
            if let Some(d) = vars.get(name) {
                let _ = shape(d, vars, an, false, depth, false);
            }
            Shape::Sym
        }
        Node::Paren(e) => shape(e, vars, an, in_minmax, depth, false),
        Node::Bin { op, l, r } => {
            an.ops += 1;
            let a = shape(l, vars, an, in_minmax, depth + 1, false);
            let b = shape(r, vars, an, in_minmax, depth + 1, false);
            if (*op == '-' || *op == '/') && matches!(strip(r), Node::Bin { .. }) {
                an.paren_sensitive += 1;
            }
            match op {
                '+' | '-' => match (&a, &b) {
                    (Shape::Plain(ua), Shape::Plain(ub)) => {
                        if ua.same(ub) {
                            return Shape::Plain(Units {
                                simple_unit: ua.simple_unit.clone(),
                                ..ua.clone()
                            });
                        }
                        if ua.is_unitless() != ub.is_unitless() {
                            if in_minmax {
                                an.unitless_sum_minmax += 1;
                            } else {
                                an.unitless_sum_calc
                                    .push(format!("{} {} {}", describe(ua), op, describe(ub)));
                            }
                            if !ua.is_simple() || !ub.is_simple() {
                                an.complex_operand += 1;
                            }
                            return Shape::Sym;
                        }
                        if !ua.is_simple() || !ub.is_simple() {
                            an.complex_operand += 1;
                            return Shape::Sym;
                        }
                        if incompatible_known(ua, ub) {
                            an.must_reject
                                .push(format!("{} {} {}", describe(ua), op, describe(ub)));
                            return Shape::Sym;
                        }
                        an.mixed_nodes += 1;
                        Shape::Sym
                    }
                    (Shape::Plain(u), Shape::Sym) | (Shape::Sym, Shape::Plain(u)) => {
                        if !u.is_simple() {
                            an.complex_operand += 1;
                        }
                        an.mixed_nodes += 1;
                        Shape::Sym
                    }
                    _ => Shape::Sym,
                },
                _ => match (&a, &b) {
                    (Shape::Plain(ua), Shape::Plain(ub)) => Shape::Plain(ua.mul(ub, *op == '/')),
                    (Shape::Plain(u), Shape::Sym) | (Shape::Sym, Shape::Plain(u)) => {
                        // a compound-unit number that stays inside a printed operation cannot be
                        // written as CSS (Sass reports "isn't a valid CSS value")
                        if !u.is_simple() {
                            an.complex_operand += 1;
                        }
                        Shape::Sym
                    }
                    _ => Shape::Sym,
                },
            }
        }
        Node::Func { name, args } => {
            if !top && name != "calc" {
                an.nested_fn += 1;
            }
            let ctx = name == "min" || name == "max";
            let shapes: Vec<Shape> = args
                .iter()
                .map(|a| shape(a, vars, an, ctx, depth + 1, false))
                .collect();
            if name == "calc" {
                return shapes.into_iter().next().unwrap_or(Shape::Sym);
            }
            check_args(name, &shapes, an);
            let unitless = |s: &Shape| matches!(s, Shape::Plain(u) if u.is_unitless());
            if !top && shapes.iter().all(|s| matches!(s, Shape::Plain(_))) && shapes.iter().any(unitless) && !shapes.iter().all(unitless) {
                an.nested_number_of_unknown_unit += 1;
            }
            let mut first: Option<&Units> = None;
            for s in &shapes {
                match s {
                    Shape::Plain(u) => match first {
                        None => first = Some(u),
                        Some(f) => {
                            if !f.same(u) {
                                return Shape::Sym;
                            }
                        }
                    },
                    Shape::Sym => return Shape::Sym,
                }
            }
            match first {
                Some(u) => Shape::Plain(u.clone()),
                None => Shape::Sym,
            }
        }
    }
}

// ------------------------------------------------------------------------------------------
// self-test (run in the property's prologue: the oracle is checked against hand-computed values)
// ------------------------------------------------------------------------------------------

pub fn self_test() -> Vec<String> {
    let mut bad = vec![];
    let vars = Vars::new();
    let e = ENV0;
    // (text, expected value in canonical units, dims) ; None = must fail to parse/evaluate
    let table: &[(&str, Option<(f64, [i32; 3])>)] = &[
        ("calc(1px + 1em)", Some((14.7, [1, 0, 0]))),
        ("calc(1em - (2px - 3vw))", Some((13.7 - (2.0 - 27.3), [1, 0, 0]))),
        ("calc(1em - 2px - 3vw)", Some((13.7 - 2.0 - 27.3, [1, 0, 0]))),
        ("calc(1em - (2px + 3vw) * 2)", Some((13.7 - 29.3 * 2.0, [1, 0, 0]))),
        ("calc(2 * (1em + 1px) / 3)", Some((2.0 * 14.7 / 3.0, [1, 0, 0]))),
        ("calc(1em/2/2)", Some((13.7 / 4.0, [1, 0, 0]))),
        ("calc(1em / (2 / 2))", Some((13.7, [1, 0, 0]))),
        ("calc(1em - -2px)", Some((15.7, [1, 0, 0]))),
        ("calc(1em*-1)", Some((-13.7, [1, 0, 0]))),
        ("calc(50% + 1in)", Some((50.0 * 2.3 + 96.0, [1, 0, 0]))),
        ("min(1in, 2px)", Some((2.0, [1, 0, 0]))),
        ("max(1em, min(2px, 3vw), 4px)", Some((13.7, [1, 0, 0]))),
        ("clamp(1px, 2em, 3px)", Some((3.0, [1, 0, 0]))),
        ("clamp(10px, 1px, 30px)", Some((10.0, [1, 0, 0]))),
        ("clamp(3, 4, 1)", Some((3.0, [0, 0, 0]))),
        ("calc(1turn + 90deg)", Some((450.0, [0, 1, 0]))),
        ("calc(1s - 500ms)", Some((0.5, [0, 0, 1]))),
        ("calc(1px * 2px / 1px)", Some((2.0, [1, 0, 0]))),
        ("calc(1em / 2px)", Some((6.85, [0, 0, 0]))),
        ("calc(.5px + 1E1px)", Some((10.5, [1, 0, 0]))),
        ("CALC(1PX + 1px)", Some((2.0, [1, 0, 0]))),
        ("3.5rem", Some((3.5 * 17.3, [1, 0, 0]))),
        ("-4", Some((-4.0, [0, 0, 0]))),
        ("calc(1px + 1s)", None),
        ("calc(1px + 1)", None),
        ("calc(1px+1em)", None),
        ("calc(1px +1em)", None),
        ("calc(1px - 1em", None),
        ("calc(1px + )", None),
        ("calc(1px 1em)", None),
        ("calc()", None),
        ("clamp(1px, 2px)", None),
        ("min(1px, 1deg)", None),
        ("calc(1px / 0)", None),
        ("calc(Infinitypx)", None),
        ("calc(1px + 1foo)", None),
        ("calc(1px + $v)", None),
    ];
    for (t, want) in table {
        let got = parse_value(t, false)
            .map_err(|e| e.to_string())
            .and_then(|n| eval(&n, &e, &vars).map_err(|e| format!("{:?}", e)));
        match (got, want) {
            (Ok(q), Some((v, d))) => {
                if (q.v - v).abs() > 1e-9 * v.abs().max(1.0) || q.dim != *d {
                    bad.push(format!("{}: got {:?}, want {} {:?}", t, q, v, d));
                }
            }
            (Err(_), None) => {}
            (Ok(q), None) => bad.push(format!("{}: evaluated to {:?}, should be invalid", t, q)),
            (Err(e), Some(_)) => bad.push(format!("{}: {}", t, e)),
        }
    }
    // model
    let m: &[(&str, &str)] = &[
        ("calc(1px + 2px)", "plain"),
        ("calc(1in + 2px)", "plain"),
        ("calc(1px + 1em)", "sym"),
        ("calc(1em * 2 * 3)", "plain"),
        ("calc(1px + 1s)", "reject"),
        ("calc(1em + 1deg)", "reject"),
        ("calc(1% + 1s)", "sym"),
        ("calc((1px + 1em) + 1s)", "sym"),
        ("calc(1px + max(1s, 2s))", "reject"),
        ("min(1px, 2em, 3s)", "reject"),
        ("clamp(1px, 2em, 3deg)", "reject"),
        ("calc(1px + 1)", "u19"),
        ("clamp(1px + 1, 2px, 3px)", "u19"),
        ("min(1px + 1, 2px)", "legacy"),
        ("calc(min(1px, 2px) + 1)", "u19"),
        ("min(calc(1px + 1), 2px)", "u19"),
        ("calc(1px * 2px / 1px)", "plain"),
        ("calc(96px / 1in)", "plain"),
        ("calc(1px * 1px)", "complex"),
        ("calc(1 / 1px)", "complex"),
        ("max(1px, 2px)", "plain"),
        ("max(1px, 2em)", "sym"),
        ("clamp(1px, 2px, 3in)", "plain"),
    ];
    for (t, want) in m {
        let n = match parse_value(t, false) {
            Ok(n) => n,
            Err(e) => {
                bad.push(format!("model {}: {}", t, e));
                continue;
            }
        };
        let mut an = Analysis::default();
        let s = analyze(&n, &vars, &mut an);
        let got = if !an.must_reject.is_empty() {
            "reject"
        } else if !an.unitless_sum_calc.is_empty() {
            "u19"
        } else if an.unitless_sum_minmax > 0 {
            "legacy"
        } else {
            match &s {
                Shape::Plain(u) if u.is_simple() => "plain",
                Shape::Plain(_) => "complex",
                Shape::Sym => "sym",
            }
        };
        if got != *want {
            bad.push(format!("model {}: got {}, want {}", t, got, want));
        }
    }
    bad
}

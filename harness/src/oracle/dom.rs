//! Small ordered DOM forests and a selector matcher over them (Selectors Level 4 semantics for the
//! bounded alphabet of `oracle::selector`). Elements carry one type, at most one id, a set of
//! classes, a set of attributes (presence; an attribute selector with an operator is an opaque
//! boolean of its own), boolean pseudo-class flags and at most one pseudo-element tag (a compound
//! without a pseudo-element matches whatever the tag is, as Sass's unification assumes).
//!
//! Matching works on bit masks (bit i = element i, document order = preorder). Compounds that only
//! look at the element itself are compiled to a truth table indexed by the element's label, so the
//! per-DOM work is a few table look-ups and shifts.
//!
//! "Credited" matching (C10): some simple selectors are *targets*; an element satisfies target k
//! when bit e of `credits[k]` is set. Native matching is the special case without targets.

use super::selector::*;

pub const MAXN: usize = 6;

#[derive(Clone, Debug, Default)]
pub struct Features {
    pub types: Vec<String>,
    pub ids: Vec<String>,
    /// classes, attributes (raw bracket text), opaque pseudo-classes (printed text): one bit each
    pub bits: Vec<Simple>,
    pub pes: Vec<Simple>,
}

#[derive(Clone, Copy, Debug, PartialEq, Eq)]
pub struct Elem {
    /// index into types; types.len() = some other type
    pub ty: u8,
    /// index into ids; ids.len() = no id
    pub id: u8,
    pub bits: u32,
    /// index into pes; pes.len() = not a pseudo-element
    pub pe: u8,
}

impl Features {
    pub fn add_list(&mut self, l: &List) {
        l.walk(&mut |s| self.add_simple(s));
    }
    pub fn add_simple(&mut self, s: &Simple) {
        match s {
            Simple::Type(n) => {
                if !self.types.contains(n) {
                    self.types.push(n.clone())
                }
            }
            Simple::Id(n) => {
                if !self.ids.contains(n) {
                    self.ids.push(n.clone())
                }
            }
            Simple::Class(_) | Simple::Attr(_) | Simple::PseudoClass(..) => {
                if !self.bits.contains(s) {
                    self.bits.push(s.clone())
                }
            }
            Simple::PseudoElement(..) => {
                if !self.pes.contains(s) {
                    self.pes.push(s.clone())
                }
            }
            Simple::Universal | Simple::Placeholder(_) | Simple::Sel(..) => {}
        }
    }
    /// canonical order so that the feature numbering does not depend on the order of discovery
    pub fn normalise(&mut self) {
        self.types.sort();
        self.ids.sort();
        self.bits.sort();
        self.pes.sort();
    }
    pub fn n_labels(&self) -> usize {
        (self.types.len() + 1) * (self.ids.len() + 1) * (1usize << self.bits.len()) * (self.pes.len() + 1)
    }
    pub fn ok(&self) -> bool {
        self.bits.len() <= 14 && self.n_labels() <= 1 << 16
    }
    pub fn label_of(&self, e: &Elem) -> u32 {
        let mut l = e.pe as u32;
        l = l * (self.ids.len() as u32 + 1) + e.id as u32;
        l = l * (self.types.len() as u32 + 1) + e.ty as u32;
        (l << self.bits.len()) | e.bits
    }
    pub fn elem_of(&self, label: u32) -> Elem {
        let nb = self.bits.len();
        let bits = label & ((1u32 << nb) - 1);
        let mut l = label >> nb;
        let ty = (l % (self.types.len() as u32 + 1)) as u8;
        l /= self.types.len() as u32 + 1;
        let id = (l % (self.ids.len() as u32 + 1)) as u8;
        l /= self.ids.len() as u32 + 1;
        Elem {
            ty,
            id,
            bits,
            pe: l as u8,
        }
    }
    pub fn blank(&self) -> Elem {
        Elem {
            ty: self.types.len() as u8,
            id: self.ids.len() as u8,
            bits: 0,
            pe: self.pes.len() as u8,
        }
    }
    /// the element that has exactly the features a compound asks for positively (first type / id win)
    pub fn template(&self, c: &Compound) -> Elem {
        let mut e = self.blank();
        for s in &c.0 {
            match s {
                Simple::Type(n) => {
                    if let Some(k) = self.types.iter().position(|t| t == n) {
                        e.ty = k as u8
                    }
                }
                Simple::Id(n) => {
                    if let Some(k) = self.ids.iter().position(|t| t == n) {
                        e.id = k as u8
                    }
                }
                Simple::Class(_) | Simple::Attr(_) | Simple::PseudoClass(..) => {
                    if let Some(k) = self.bits.iter().position(|t| t == s) {
                        e.bits |= 1 << k
                    }
                }
                Simple::PseudoElement(..) => {
                    if let Some(k) = self.pes.iter().position(|t| t == s) {
                        e.pe = k as u8
                    }
                }
                _ => {}
            }
        }
        e
    }
    pub fn describe(&self, e: &Elem) -> String {
        let mut s = String::new();
        s.push_str(self.types.get(e.ty as usize).map(|x| x.as_str()).unwrap_or("other"));
        if let Some(i) = self.ids.get(e.id as usize) {
            s.push('#');
            s.push_str(i);
        }
        for (k, b) in self.bits.iter().enumerate() {
            if e.bits >> k & 1 == 1 {
                s.push_str(&b.text());
            }
        }
        if let Some(p) = self.pes.get(e.pe as usize) {
            s.push_str(&p.text());
        }
        s
    }
}

#[derive(Clone, Debug)]
pub struct Dom {
    pub n: usize,
    /// -1 = top level
    pub parent: [i8; MAXN],
    /// immediately preceding sibling, -1 = first child
    pub prev: [i8; MAXN],
    pub label: [u32; MAXN],
}

impl Dom {
    pub fn from_parents(parents: &[i8], labels: &[u32]) -> Dom {
        let n = parents.len();
        let mut d = Dom {
            n,
            parent: [-1; MAXN],
            prev: [-1; MAXN],
            label: [0; MAXN],
        };
        for i in 0..n {
            d.parent[i] = parents[i];
            d.label[i] = labels[i];
            let mut p = -1i8;
            for j in 0..i {
                if parents[j] == parents[i] {
                    p = j as i8;
                }
            }
            d.prev[i] = p;
        }
        d
    }
    pub fn describe(&self, f: &Features) -> String {
        fn rec(d: &Dom, f: &Features, parent: i8, out: &mut String) {
            let mut first = true;
            for i in 0..d.n {
                if d.parent[i] == parent {
                    if !first {
                        out.push(' ');
                    }
                    first = false;
                    out.push_str(&format!("<{}:{}>", i, f.describe(&f.elem_of(d.label[i]))));
                    let has_child = (0..d.n).any(|j| d.parent[j] == i as i8);
                    if has_child {
                        out.push('(');
                        rec(d, f, i as i8, out);
                        out.push(')');
                    }
                }
            }
        }
        let mut s = String::new();
        rec(self, f, -1, &mut s);
        s
    }
    /// mask of the proper ancestors of element i
    pub fn ancestors(&self, i: usize) -> u8 {
        let mut m = 0u8;
        let mut p = self.parent[i];
        while p >= 0 {
            m |= 1 << p;
            p = self.parent[p as usize];
        }
        m
    }
    #[inline]
    fn step(&self, comb: Comb, s: u8) -> u8 {
        let mut out = 0u8;
        match comb {
            Comb::Child => {
                for i in 0..self.n {
                    let p = self.parent[i];
                    if p >= 0 && s >> p & 1 == 1 {
                        out |= 1 << i;
                    }
                }
            }
            Comb::Desc => {
                for i in 0..self.n {
                    let p = self.parent[i];
                    if p >= 0 && (s >> p & 1 == 1 || out >> p & 1 == 1) {
                        out |= 1 << i;
                    }
                }
            }
            Comb::Next => {
                for i in 0..self.n {
                    let p = self.prev[i];
                    if p >= 0 && s >> p & 1 == 1 {
                        out |= 1 << i;
                    }
                }
            }
            Comb::Sib => {
                for i in 0..self.n {
                    let p = self.prev[i];
                    if p >= 0 && (s >> p & 1 == 1 || out >> p & 1 == 1) {
                        out |= 1 << i;
                    }
                }
            }
        }
        out
    }
}

/// All shapes (parent vectors in preorder) of ordered forests with n nodes.
pub fn shapes(n: usize) -> Vec<Vec<i8>> {
    fn rec(n: usize, cur: &mut Vec<i8>, out: &mut Vec<Vec<i8>>) {
        if cur.len() == n {
            out.push(cur.clone());
            return;
        }
        let i = cur.len();
        // allowed parents: -1 or any node on the rightmost path (ancestors-or-self of node i-1)
        let mut opts = vec![-1i8];
        if i > 0 {
            let mut a = (i - 1) as i8;
            while a >= 0 {
                opts.push(a);
                a = cur[a as usize];
            }
        }
        for o in opts {
            cur.push(o);
            rec(n, cur, out);
            cur.pop();
        }
    }
    let mut out = vec![];
    rec(n, &mut vec![], &mut out);
    out
}

// ------------------------------------------------------------------------------------------------

#[derive(Clone, Debug)]
pub struct CList(pub Vec<CComplex>);

#[derive(Clone, Debug)]
pub struct CComplex {
    pub comps: Vec<CCompound>,
    pub combs: Vec<Comb>,
}

#[derive(Clone, Debug)]
pub struct CCompound {
    /// truth table over labels for the part that only looks at the element itself
    table: Vec<u64>,
    /// constant-false / constant-true shortcuts are not needed: tables are small
    /// selector pseudos that need the tree or credits: (negated, list)
    structural: Vec<(bool, CList)>,
    /// indices of targets that must be credited
    credits: Vec<usize>,
}

fn plain_matches(s: &Simple, e: &Elem, f: &Features) -> bool {
    match s {
        Simple::Universal => true,
        Simple::Type(n) => f.types.get(e.ty as usize) == Some(n),
        Simple::Id(n) => f.ids.get(e.id as usize) == Some(n),
        Simple::Class(_) | Simple::Attr(_) | Simple::PseudoClass(..) => f
            .bits
            .iter()
            .position(|b| b == s)
            .map(|k| e.bits >> k & 1 == 1)
            .unwrap_or(false),
        Simple::PseudoElement(..) => f.pes.get(e.pe as usize) == Some(s),
        Simple::Placeholder(_) => false,
        Simple::Sel(..) => unreachable!(),
    }
}

/// can this simple be decided from the element's own label (no tree, no credits)?
fn label_only(s: &Simple, targets: &[Simple]) -> bool {
    if targets.contains(s) {
        return false;
    }
    match s {
        Simple::Sel(_, l) => l
            .0
            .iter()
            .all(|c| c.combs.is_empty() && c.comps[0].0.iter().all(|x| label_only(x, targets))),
        _ => true,
    }
}

fn simple_on_elem(s: &Simple, e: &Elem, f: &Features) -> bool {
    match s {
        Simple::Sel(name, l) => {
            // the pseudo-element rule applies to the outer compound only
            let any = l.0.iter().any(|c| c.comps[0].0.iter().all(|x| simple_on_elem(x, e, f)));
            if unvendored(name) == "not" {
                !any
            } else {
                any
            }
        }
        _ => plain_matches(s, e, f),
    }
}

pub fn compile(l: &List, f: &Features, targets: &[Simple]) -> CList {
    compile_at(l, f, targets, false)
}

/// compile the argument list of a selector pseudo (its subject compounds inherit the outer pseudo-element rule)
pub fn compile_inner(l: &List, f: &Features, targets: &[Simple]) -> CList {
    compile_at(l, f, targets, true)
}

fn compile_at(l: &List, f: &Features, targets: &[Simple], inner: bool) -> CList {
    CList(
        l.0.iter()
            .map(|c| CComplex {
                comps: c
                    .comps
                    .iter()
                    .enumerate()
                    // inside a selector pseudo the subject compound inherits the outer pseudo-element rule
                    .map(|(i, k)| compile_compound(k, f, targets, inner && i + 1 == c.comps.len()))
                    .collect(),
                combs: c.combs.clone(),
            })
            .collect(),
    )
}

fn compile_compound(c: &Compound, f: &Features, targets: &[Simple], inner_subject: bool) -> CCompound {
    let mut local: Vec<&Simple> = vec![];
    let mut structural = vec![];
    let mut credits = vec![];
    for s in &c.0 {
        if let Some(k) = targets.iter().position(|t| t == s) {
            if !credits.contains(&k) {
                credits.push(k);
            }
        } else if label_only(s, targets) {
            local.push(s);
        } else if let Simple::Sel(name, l) = s {
            structural.push((unvendored(name) == "not", compile_at(l, f, targets, true)));
        } else {
            unreachable!()
        }
    }
    let wants_pe = c.0.iter().any(|s| matches!(s, Simple::PseudoElement(..)));
    let nl = f.n_labels();
    let mut table = vec![0u64; (nl + 63) / 64];
    for lab in 0..nl as u32 {
        let e = f.elem_of(lab);
        // Sass treats a pseudo-element as one more qualifier of the compound (`.x` unified with
        // `a::after` is `a.x::after`), so a compound without one is not restricted to real elements;
        // the model only keeps pseudo-elements mutually exclusive.
        let _ = (inner_subject, wants_pe);
        let pe_ok = true;
        if pe_ok && local.iter().all(|s| simple_on_elem(s, &e, f)) {
            table[(lab >> 6) as usize] |= 1 << (lab & 63);
        }
    }
    CCompound {
        table,
        structural,
        credits,
    }
}

impl CCompound {
    #[inline]
    fn mask(&self, d: &Dom, credits: &[u8]) -> u8 {
        let mut m = 0u8;
        for i in 0..d.n {
            let lab = d.label[i];
            if self.table[(lab >> 6) as usize] >> (lab & 63) & 1 == 1 {
                m |= 1 << i;
            }
        }
        for &k in &self.credits {
            m &= credits[k];
        }
        if m == 0 {
            return 0;
        }
        for (neg, l) in &self.structural {
            let inner = l.mask(d, credits);
            m &= if *neg { !inner } else { inner };
            if m == 0 {
                return 0;
            }
        }
        m
    }
}

impl CComplex {
    #[inline]
    pub fn mask(&self, d: &Dom, credits: &[u8]) -> u8 {
        let mut s = self.comps[0].mask(d, credits);
        for (i, comb) in self.combs.iter().enumerate() {
            if s == 0 {
                return 0;
            }
            s = d.step(*comb, s) & self.comps[i + 1].mask(d, credits);
        }
        s
    }
}

impl CList {
    #[inline]
    pub fn mask(&self, d: &Dom, credits: &[u8]) -> u8 {
        let mut m = 0;
        for c in &self.0 {
            m |= c.mask(d, credits);
        }
        m
    }
}

// ------------------------------------------------------------------------------------------------
// enumeration and sampling

/// splitmix64: a pure function of the seed carried by the case
#[derive(Clone)]
pub struct Mix(pub u64);
impl Mix {
    pub fn next(&mut self) -> u64 {
        self.0 = self.0.wrapping_add(0x9e37_79b9_7f4a_7c15);
        let mut z = self.0;
        z = (z ^ (z >> 30)).wrapping_mul(0xbf58_476d_1ce4_e5b9);
        z = (z ^ (z >> 27)).wrapping_mul(0x94d0_49bb_1331_11eb);
        z ^ (z >> 31)
    }
    pub fn below(&mut self, n: usize) -> usize {
        ((self.next() >> 32) as usize * n) >> 32
    }
}

#[derive(Clone, Debug, Default)]
pub struct DomPlan {
    /// largest n such that all forests with <= n elements are enumerated (0 = none)
    pub exhaustive_upto: usize,
    pub exhaustive_count: u64,
    pub random: u64,
}

pub const EXHAUSTIVE_LIMIT: u64 = 200_000;

pub fn plan(f: &Features, random: u64) -> DomPlan {
    let l = f.n_labels() as u64;
    let mut upto = 0;
    let mut count = 0u64;
    let mut total = 0u64;
    for n in 1..=3usize {
        let c = shapes(n).len() as u64 * l.saturating_pow(n as u32);
        if total + c > EXHAUSTIVE_LIMIT {
            break;
        }
        total += c;
        upto = n;
        count = total;
    }
    DomPlan {
        exhaustive_upto: upto,
        exhaustive_count: count,
        random,
    }
}

/// Visit every DOM of the plan: all forests with <= `exhaustive_upto` elements over all labels,
/// then `random` forests with 4-5 elements (and with 3, or 2-3, elements when those sizes were not
/// enumerated), labels drawn from the templates (the compounds the case mentions) plus noise.
/// The visitor returns `false` to stop. Deterministic in (features, templates, seed).
pub fn for_each_dom(
    f: &Features,
    templates: &[Elem],
    pl: &DomPlan,
    seed: u64,
    mut visit: impl FnMut(&Dom) -> bool,
) {
    let nl = f.n_labels() as u32;
    for n in 1..=pl.exhaustive_upto {
        for sh in shapes(n) {
            let mut labels = vec![0u32; n];
            loop {
                let d = Dom::from_parents(&sh, &labels);
                if !visit(&d) {
                    return;
                }
                // odometer
                let mut k = 0;
                loop {
                    if k == n {
                        break;
                    }
                    labels[k] += 1;
                    if labels[k] < nl {
                        break;
                    }
                    labels[k] = 0;
                    k += 1;
                }
                if k == n {
                    break;
                }
            }
        }
    }
    let all_shapes: Vec<Vec<Vec<i8>>> = (0..=5).map(shapes).collect();
    let min_n = (pl.exhaustive_upto + 1).min(4).max(2);
    let mut rng = Mix(seed ^ 0x5eed_d0d0);
    let nb = f.bits.len();
    for _ in 0..pl.random {
        // sizes: mostly 4-5
        let n = if min_n < 4 && rng.below(4) == 0 {
            min_n + rng.below(4 - min_n)
        } else {
            4 + rng.below(2)
        };
        let shs = &all_shapes[n];
        let sh = &shs[rng.below(shs.len())];
        let mut labels = [0u32; MAXN];
        for lab in labels.iter_mut().take(n) {
            let mut e = if !templates.is_empty() && rng.below(4) != 0 {
                templates[rng.below(templates.len())]
            } else {
                f.blank()
            };
            let r = rng.next();
            // noise: each bit set with probability 1/4; type / id / pseudo-element changed sometimes
            let noise = (r as u32) & ((r >> 32) as u32) & ((1u32 << nb) - 1);
            e.bits |= noise;
            let r2 = rng.next();
            if r2 & 3 == 0 {
                e.ty = ((r2 >> 8) as usize % (f.types.len() + 1)) as u8;
            }
            if (r2 >> 2) & 7 == 0 {
                e.id = ((r2 >> 20) as usize % (f.ids.len() + 1)) as u8;
            }
            if !f.pes.is_empty() && (r2 >> 5) & 7 == 0 {
                e.pe = ((r2 >> 32) as usize % (f.pes.len() + 1)) as u8;
            }
            // occasionally clear a bit so that negations are exercised on template elements
            if (r2 >> 40) & 3 == 0 && nb > 0 {
                e.bits &= !(1u32 << ((r2 >> 44) as usize % nb));
            }
            *lab = f.label_of(&e);
        }
        let d = Dom::from_parents(sh, &labels[..n]);
        if !visit(&d) {
            return;
        }
    }
}

/// templates = one element per compound mentioned anywhere in the given lists
pub fn templates_of(f: &Features, lists: &[&List]) -> Vec<Elem> {
    let mut out: Vec<Elem> = vec![];
    fn rec(f: &Features, l: &List, out: &mut Vec<Elem>) {
        for c in &l.0 {
            for k in &c.comps {
                let e = f.template(k);
                if !out.contains(&e) {
                    out.push(e);
                }
                for s in &k.0 {
                    if let Simple::Sel(_, inner) = s {
                        rec(f, inner, out);
                    }
                }
            }
        }
    }
    for l in lists {
        rec(f, l, &mut out);
    }
    // unions of pairs of templates (an element that satisfies two compounds at once)
    let base = out.clone();
    for a in &base {
        for b in &base {
            let mut e = *a;
            e.bits |= b.bits;
            if e.id as usize >= f.ids.len() {
                e.id = b.id;
            }
            if e.ty as usize >= f.types.len() {
                e.ty = b.ty;
            }
            if !out.contains(&e) && out.len() < 64 {
                out.push(e);
            }
        }
    }
    out
}

#[cfg(test)]
mod tests {
    use super::*;
    fn setup(sels: &[&str]) -> (Features, Vec<List>) {
        let ls: Vec<List> = sels.iter().map(|s| parse_list(s).unwrap()).collect();
        let mut f = Features::default();
        for l in &ls {
            f.add_list(l);
        }
        f.normalise();
        (f, ls)
    }
    #[test]
    fn shapes_count() {
        assert_eq!(shapes(1).len(), 1);
        assert_eq!(shapes(2).len(), 2);
        assert_eq!(shapes(3).len(), 5);
        assert_eq!(shapes(4).len(), 14);
        assert_eq!(shapes(5).len(), 42);
    }
    #[test]
    fn matching() {
        let (f, ls) = setup(&["a > .x + b", "a b", ":not(a .x)", ":is(a, .x) ~ b:not(.x)"]);
        // <a>( <other.x> <b> ) <b>
        let mk = |ty: &str, x: bool| {
            let mut e = f.blank();
            if let Some(k) = f.types.iter().position(|t| t == ty) {
                e.ty = k as u8;
            }
            if x {
                e.bits = 1;
            }
            f.label_of(&e)
        };
        let d = Dom::from_parents(&[-1, 0, 0, -1], &[mk("a", false), mk("o", true), mk("b", false), mk("b", false)]);
        let m = |i: usize| compile(&ls[i], &f, &[]).mask(&d, &[]);
        assert_eq!(m(0), 0b0100);
        assert_eq!(m(1), 0b0100);
        assert_eq!(m(2), 0b1101);
        assert_eq!(m(3), 0b1100);
    }
    #[test]
    fn credited() {
        let (f, ls) = setup(&[".x b", "c"]);
        let t = vec![Simple::Class("x".into())];
        let cl = compile(&ls[0], &f, &t);
        let mut c = f.blank();
        c.ty = f.types.iter().position(|t| t == "c").unwrap() as u8;
        let mut b = f.blank();
        b.ty = f.types.iter().position(|t| t == "b").unwrap() as u8;
        let d = Dom::from_parents(&[-1, 0], &[f.label_of(&c), f.label_of(&b)]);
        assert_eq!(cl.mask(&d, &[0b00]), 0);
        assert_eq!(cl.mask(&d, &[0b01]), 0b10);
    }
}

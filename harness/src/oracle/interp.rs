//! Reference interpreter for the program AST of `gen::program` (DESIGN §1.6 `interp`, §2 C03).
//!
//! Written from the Sass documentation's rules (variables/scope, flow control, @function, @mixin,
//! operators, @debug/@warn) and the Sass language specification where the documentation is silent
//! (floored modulo, one scope per loop, quotes of `a + "b"`); it does not call or mirror grass.
//! Numbers are exact decimals in thousandths; anything that would leave that domain stops the
//! evaluation with `Stop::OutOfDomain` (the case is then discarded, not judged).

use crate::gen::program::*;
use std::cell::{Cell, RefCell};
use std::rc::Rc;

#[derive(Clone, Copy, Debug, PartialEq, Eq)]
pub enum SepV {
    Space,
    Comma,
    Undecided,
}

#[derive(Debug)]
pub struct Kw {
    pub named: Vec<(String, Val)>,
    pub accessed: Cell<bool>,
}

#[derive(Debug)]
pub struct ListV {
    pub items: Vec<Val>,
    pub sep: SepV,
    pub bracketed: bool,
    /// Some = this is an argument list (`$args...`)
    pub kw: Option<Kw>,
}

#[derive(Clone, Debug)]
pub enum Val {
    /// exact value in thousandths, and a bound on the absolute error a binary64 evaluation of
    /// the same expression can have accumulated (grass and dart-sass compute with f64)
    Num(i64, f64),
    Str(String, bool),
    Bool(bool),
    Null,
    List(Rc<ListV>),
    Map(Rc<Vec<(Val, Val)>>),
}

#[derive(Clone, Debug, PartialEq)]
pub enum Stop {
    /// the program is erroneous by the Sass rules (the generator should never produce this)
    Error(String),
    /// outside the exactly-modelled domain (number range, step budget)
    OutOfDomain(&'static str),
}

type R<T> = Result<T, Stop>;

fn err<T>(s: impl Into<String>) -> R<T> {
    Err(Stop::Error(s.into()))
}

#[derive(Clone, Copy, Debug, PartialEq, Eq)]
pub enum LogKind {
    Debug,
    Warn,
}

#[derive(Clone, Debug)]
pub struct Log {
    pub kind: LogKind,
    /// statement id (the printer maps it to a line)
    pub id: u32,
    pub message: String,
    /// the value was a quoted string (DESIGN §4 #23 region)
    pub quoted_string: bool,
}

#[derive(Clone, Debug, Default)]
pub struct Features {
    pub calls: u32,
    pub fn_calls: u32,
    pub includes: u32,
    pub control: u32,
    pub outer_assign: u32,
    pub semi_global_assign: u32,
    pub closure_local: u32,
    pub content_blocks: u32,
    pub content_using: u32,
    pub content_skipped: u32,
    pub global_flag: u32,
    pub default_assigned: u32,
    pub default_skipped: u32,
    pub return_in_loop: u32,
    pub desc_for: u32,
    pub asc_for: u32,
    pub map_destructure: u32,
    pub list_destructure: u32,
    pub while_iters: u32,
    pub defaults_evaluated: u32,
    pub named_args: u32,
    pub splat_args: u32,
    pub kw_forwarded: u32,
    pub rest_collected: u32,
    pub short_circuit: u32,
    pub string_concat: u32,
    pub shadowing_local: u32,
}

#[derive(Clone, Debug, Default)]
pub struct Output {
    /// (selector, property, value text) in evaluation order
    pub rows: Vec<(String, String, String)>,
    pub logs: Vec<Log>,
    pub features: Features,
    /// a @warn statement was executed again and evaluating its argument called a function
    /// (region of the finding "repeated @warn does not evaluate its argument")
    pub warn_reeval_calls: bool,
    /// a rest parameter received a space-separated argument list (region of the finding
    /// "argument lists are always comma-separated")
    pub space_arglist: bool,
    /// an invocation had two or more named arguments and evaluating one of them called a
    /// function (region of the finding "named arguments are evaluated in interner order")
    pub named_order_region: bool,
    warn_seen: Vec<u32>,
}

struct Callable {
    params: Params,
    body: Vec<Stmt>,
    env: Vec<FrameRef>,
    content: Option<Rc<Callable>>,
    has_content: bool,
}

#[derive(Default)]
struct Frame {
    vars: Vec<(String, Val)>,
    funcs: Vec<(String, Rc<Callable>)>,
    mixins: Vec<(String, Rc<Callable>)>,
}

type FrameRef = Rc<RefCell<Frame>>;

struct Env {
    frames: Vec<FrameRef>,
    semi_global: bool,
    content: Option<Rc<Callable>>,
    /// number of frames inherited from a closure (0 for the program's own environment)
    base_len: usize,
    loop_depth: u32,
}

enum Flow {
    Normal,
    Return(Val),
}

pub struct Interp {
    out: Output,
    steps: u64,
    sel: Vec<String>,
}

pub const STEP_BUDGET: u64 = 200_000;
/// strings may double in every loop iteration: longer ones are outside the judged domain
pub const MAX_STR: usize = 2_000;

fn strv(t: String, q: bool) -> R<Val> {
    if t.len() > MAX_STR {
        Err(Stop::OutOfDomain("string-size"))
    } else {
        Ok(Val::Str(t, q))
    }
}
pub const NUM_LIMIT: i64 = 1_000_000_000_000; // 10^9 in thousandths

/// relative rounding error of one binary64 operation (2^-53, rounded up)
const U: f64 = 1.2e-16;
/// a printed or compared number must be known to within this (printing rounds at 1e-10, the
/// comparison epsilon is 1e-11)
pub const MAX_NUM_ERR: f64 = 2.0e-12;

fn rnd(m: i128) -> f64 {
    (m as f64 / 1000.0).abs() * U
}

fn is_int(m: i128) -> bool {
    m % 1000 == 0
}

/// result of one arithmetic step: exact value `n`, propagated error `e`; `exact` = the operation
/// itself is exact in binary64 (integer operands and result)
fn num(n: i128, e: f64, exact: bool) -> R<Val> {
    if n.abs() > NUM_LIMIT as i128 {
        Err(Stop::OutOfDomain("number-range"))
    } else {
        let e = if exact && e == 0.0 { 0.0 } else { e + rnd(n) };
        Ok(Val::Num(n as i64, e))
    }
}

fn chk_err(e: f64) -> R<()> {
    if e > MAX_NUM_ERR {
        Err(Stop::OutOfDomain("float-error"))
    } else {
        Ok(())
    }
}

fn max_err(v: &Val) -> f64 {
    match v {
        Val::Num(_, e) => *e,
        Val::List(l) => l.items.iter().map(max_err).fold(0.0, f64::max),
        Val::Map(m) => m.iter().map(|(k, v)| max_err(k).max(max_err(v))).fold(0.0, f64::max),
        _ => 0.0,
    }
}

impl Val {
    pub fn truthy(&self) -> bool {
        !matches!(self, Val::Null | Val::Bool(false))
    }
    fn list(items: Vec<Val>, sep: SepV, bracketed: bool) -> Val {
        Val::List(Rc::new(ListV { items, sep, bracketed, kw: None }))
    }
    /// the value viewed as a list (maps are lists of pairs, scalars one-element lists)
    fn as_list(&self) -> Vec<Val> {
        match self {
            Val::List(l) => l.items.clone(),
            Val::Map(m) => m
                .iter()
                .map(|(k, v)| Val::list(vec![k.clone(), v.clone()], SepV::Space, false))
                .collect(),
            v => vec![v.clone()],
        }
    }
    fn is_blank(&self) -> bool {
        match self {
            Val::Null => true,
            Val::Str(t, false) => t.is_empty(),
            Val::List(l) => !l.bracketed && l.items.iter().all(|i| i.is_blank()),
            _ => false,
        }
    }
}

pub fn val_eq(a: &Val, b: &Val) -> bool {
    match (a, b) {
        (Val::Num(x, _), Val::Num(y, _)) => x == y,
        (Val::Str(x, _), Val::Str(y, _)) => x == y,
        (Val::Bool(x), Val::Bool(y)) => x == y,
        (Val::Null, Val::Null) => true,
        (Val::List(x), Val::List(y)) => {
            x.sep == y.sep
                && x.bracketed == y.bracketed
                && x.items.len() == y.items.len()
                && x.items.iter().zip(y.items.iter()).all(|(p, q)| val_eq(p, q))
        }
        (Val::Map(x), Val::Map(y)) => {
            x.len() == y.len()
                && x.iter().all(|(k, v)| y.iter().any(|(k2, v2)| val_eq(k, k2) && val_eq(v, v2)))
        }
        _ => false,
    }
}

/// CSS serialization (`quote` = false inside interpolation)
pub fn css(v: &Val, quote: bool) -> R<String> {
    Ok(match v {
        Val::Num(n, e) => {
            chk_err(*e)?;
            fmt_milli(*n)
        }
        Val::Str(t, q) => {
            if *q && quote {
                format!("\"{}\"", t)
            } else {
                t.clone()
            }
        }
        Val::Bool(b) => b.to_string(),
        Val::Null => String::new(),
        Val::List(l) => {
            if l.items.is_empty() && !l.bracketed {
                return err("() isn't a valid CSS value");
            }
            let mut parts = vec![];
            for i in l.items.iter().filter(|i| !i.is_blank()) {
                parts.push(css(i, quote)?);
            }
            let s = parts.join(if l.sep == SepV::Comma { ", " } else { " " });
            if l.bracketed {
                format!("[{}]", s)
            } else {
                s
            }
        }
        Val::Map(_) => return err("a map isn't a valid CSS value"),
    })
}

fn elem_needs_parens(outer: SepV, v: &Val) -> bool {
    if let Val::List(l) = v {
        if l.items.len() < 2 || l.bracketed {
            return false;
        }
        return match outer {
            SepV::Comma => l.sep == SepV::Comma,
            _ => l.sep != SepV::Undecided,
        };
    }
    false
}

/// `meta.inspect` text
pub fn inspect(v: &Val) -> R<String> {
    chk_err(max_err(v))?;
    Ok(inspect_raw(v))
}

fn inspect_raw(v: &Val) -> String {
    match v {
        Val::Num(n, _) => fmt_milli(*n),
        Val::Str(t, q) => {
            if *q {
                format!("\"{}\"", t)
            } else {
                t.clone()
            }
        }
        Val::Bool(b) => b.to_string(),
        Val::Null => "null".into(),
        Val::List(l) => {
            if l.items.is_empty() {
                return if l.bracketed { "[]".into() } else { "()".into() };
            }
            let singleton = l.items.len() == 1 && l.sep == SepV::Comma;
            let mut s = String::new();
            s.push_str(if l.bracketed {
                "["
            } else if singleton {
                "("
            } else {
                ""
            });
            let parts: Vec<String> = l
                .items
                .iter()
                .map(|i| {
                    if elem_needs_parens(l.sep, i) {
                        format!("({})", inspect_raw(i))
                    } else {
                        inspect_raw(i)
                    }
                })
                .collect();
            s.push_str(&parts.join(if l.sep == SepV::Comma { ", " } else { " " }));
            if singleton {
                s.push(',');
            }
            s.push_str(if l.bracketed {
                "]"
            } else if singleton {
                ")"
            } else {
                ""
            });
            s
        }
        Val::Map(m) => {
            let el = |v: &Val| -> String {
                match v {
                    Val::List(l) if l.sep == SepV::Comma && !l.bracketed => format!("({})", inspect_raw(v)),
                    _ => inspect_raw(v),
                }
            };
            let parts: Vec<String> = m.iter().map(|(k, v)| format!("{}: {}", el(k), el(v))).collect();
            format!("({})", parts.join(", "))
        }
    }
}

impl Env {
    fn lookup(&self, name: &str) -> Option<(usize, Val)> {
        for (i, f) in self.frames.iter().enumerate().rev() {
            if let Some((_, v)) = f.borrow().vars.iter().find(|(n, _)| n == name) {
                return Some((i, v.clone()));
            }
        }
        None
    }
    fn set_in(&self, i: usize, name: &str, v: Val) {
        let mut f = self.frames[i].borrow_mut();
        if let Some(slot) = f.vars.iter_mut().find(|(n, _)| n == name) {
            slot.1 = v;
        } else {
            f.vars.push((name.to_string(), v));
        }
    }
    fn set_local(&self, name: &str, v: Val) {
        self.set_in(self.frames.len() - 1, name, v);
    }
    fn func(&self, name: &str) -> Option<Rc<Callable>> {
        for f in self.frames.iter().rev() {
            if let Some((_, c)) = f.borrow().funcs.iter().rev().find(|(n, _)| n == name) {
                return Some(c.clone());
            }
        }
        None
    }
    fn mixin(&self, name: &str) -> Option<Rc<Callable>> {
        for f in self.frames.iter().rev() {
            if let Some((_, c)) = f.borrow().mixins.iter().rev().find(|(n, _)| n == name) {
                return Some(c.clone());
            }
        }
        None
    }
}

struct Evald {
    pos: Vec<Val>,
    named: Vec<(String, Val)>,
    sep: SepV,
}

fn has_content_stmt(b: &[Stmt]) -> bool {
    b.iter().any(|s| match s {
        Stmt::Content(_) => true,
        Stmt::Rule { body, .. } | Stmt::For { body, .. } | Stmt::Each { body, .. } | Stmt::While { body, .. } => {
            has_content_stmt(body)
        }
        Stmt::If { clauses, els } => {
            clauses.iter().any(|(_, b)| has_content_stmt(b)) || els.as_ref().map(|b| has_content_stmt(b)).unwrap_or(false)
        }
        Stmt::Include { content, .. } => content.as_ref().map(|b| has_content_stmt(b)).unwrap_or(false),
        _ => false,
    })
}

impl Interp {
    /// Evaluate a whole program.
    pub fn run(p: &Program) -> Result<Output, (Stop, Output)> {
        let mut it = Interp { out: Output::default(), steps: 0, sel: vec![] };
        let mut env = Env {
            frames: vec![Rc::new(RefCell::new(Frame::default()))],
            semi_global: true,
            content: None,
            base_len: 0,
            loop_depth: 0,
        };
        match it.block(&p.stmts, &mut env) {
            Ok(Flow::Normal) => Ok(it.out),
            Ok(Flow::Return(_)) => Err((Stop::Error("@return outside a function".into()), it.out)),
            Err(e) => Err((e, it.out)),
        }
    }

    fn tick(&mut self) -> R<()> {
        self.steps += 1;
        if self.steps > STEP_BUDGET {
            Err(Stop::OutOfDomain("step-budget"))
        } else {
            Ok(())
        }
    }

    fn get(&mut self, env: &Env, name: &str) -> R<Val> {
        match env.lookup(name) {
            Some((i, v)) => {
                if i > 0 && i < env.base_len {
                    self.out.features.closure_local += 1;
                }
                Ok(v)
            }
            None => err(format!("Undefined variable ${}", name)),
        }
    }

    /// Assignment rule: `!global` or top level -> the global frame. Otherwise the innermost frame
    /// that already has the variable, else the current frame; a variable that exists only globally
    /// is assigned only from top-level control flow (semi-global scope), otherwise shadowed.
    fn assign(&mut self, env: &Env, name: &str, v: Val, global: bool) {
        let last = env.frames.len() - 1;
        if global || last == 0 {
            if global {
                self.out.features.global_flag += 1;
                if last > 0 {
                    self.out.features.outer_assign += 1;
                }
            }
            env.set_in(0, name, v);
            return;
        }
        let mut i = env.lookup(name).map(|(i, _)| i).unwrap_or(last);
        if i == 0 && !env.semi_global {
            i = last;
            self.out.features.shadowing_local += 1;
        }
        if i < last {
            self.out.features.outer_assign += 1;
            if i == 0 {
                self.out.features.semi_global_assign += 1;
            } else if i < env.base_len {
                self.out.features.closure_local += 1;
            }
        }
        env.set_in(i, name, v);
    }

    fn scoped(&mut self, body: &[Stmt], env: &mut Env, semi: bool, locals: &[(String, Val)]) -> R<Flow> {
        let saved = env.semi_global;
        env.semi_global = semi && saved;
        env.frames.push(Rc::new(RefCell::new(Frame::default())));
        for (n, v) in locals {
            env.set_local(n, v.clone());
        }
        let r = self.block(body, env);
        env.frames.pop();
        env.semi_global = saved;
        r
    }

    fn block(&mut self, body: &[Stmt], env: &mut Env) -> R<Flow> {
        for s in body {
            if let Flow::Return(v) = self.stmt(s, env)? {
                return Ok(Flow::Return(v));
            }
        }
        Ok(Flow::Normal)
    }

    fn cur_sel(&self) -> Option<String> {
        if self.sel.is_empty() {
            None
        } else {
            Some(self.sel.join(" "))
        }
    }

    fn stmt(&mut self, s: &Stmt, env: &mut Env) -> R<Flow> {
        self.tick()?;
        match s {
            Stmt::Var { name, value, default, global } => {
                if *default {
                    // a guarded declaration whose variable already has a non-null value does not
                    // evaluate its expression
                    if let Some((_, v)) = env.lookup(name) {
                        if !matches!(v, Val::Null) {
                            self.out.features.default_skipped += 1;
                            return Ok(Flow::Normal);
                        }
                    }
                    self.out.features.default_assigned += 1;
                }
                let v = self.eval(value, env)?;
                self.assign(env, name, v, *global);
                Ok(Flow::Normal)
            }
            Stmt::Decl { prop, value } => {
                let sel = match self.cur_sel() {
                    Some(s) => s,
                    None => return err("declaration outside a style rule"),
                };
                let v = self.eval(value, env)?;
                if v.is_blank() {
                    if let Val::List(l) = &v {
                        if l.items.is_empty() {
                            return err("() isn't a valid CSS value");
                        }
                    }
                    return Ok(Flow::Normal);
                }
                let text = css(&v, true)?;
                self.out.rows.push((sel, prop.clone(), text));
                Ok(Flow::Normal)
            }
            Stmt::Rule { sel, body } => {
                let mut t = sel.base.clone();
                if let Some(e) = &sel.interp {
                    let v = self.eval(e, env)?;
                    t.push('-');
                    t.push_str(&css(&v, false)?);
                }
                self.sel.push(t);
                let r = self.scoped(body, env, false, &[]);
                self.sel.pop();
                r
            }
            Stmt::If { clauses, els } => {
                self.out.features.control += 1;
                for (c, b) in clauses {
                    if self.eval(c, env)?.truthy() {
                        return self.scoped(b, env, true, &[]);
                    }
                }
                if let Some(b) = els {
                    return self.scoped(b, env, true, &[]);
                }
                Ok(Flow::Normal)
            }
            Stmt::For { var, from, to, inclusive, body } => {
                self.out.features.control += 1;
                let as_int = |v: Val| -> R<i64> {
                    match v {
                        Val::Num(n, e) if n % 1000 == 0 => {
                            chk_err(e)?;
                            Ok(n / 1000)
                        }
                        _ => err("@for bound is not an integer"),
                    }
                };
                let f = as_int(self.eval(from, env)?)?;
                let mut t = as_int(self.eval(to, env)?)?;
                let dir: i64 = if f > t { -1 } else { 1 };
                if *inclusive {
                    t += dir;
                }
                if f != t {
                    if dir < 0 {
                        self.out.features.desc_for += 1;
                    } else {
                        self.out.features.asc_for += 1;
                    }
                }
                // one scope for the whole loop
                let saved = env.semi_global;
                env.frames.push(Rc::new(RefCell::new(Frame::default())));
                env.loop_depth += 1;
                let mut i = f;
                let mut res = Ok(Flow::Normal);
                while i != t {
                    env.set_local(var, Val::Num(i * 1000, 0.0));
                    match self.block(body, env) {
                        Ok(Flow::Normal) => {}
                        other => {
                            res = other;
                            break;
                        }
                    }
                    i += dir;
                }
                env.loop_depth -= 1;
                env.frames.pop();
                env.semi_global = saved;
                res
            }
            Stmt::Each { vars, iter, body } => {
                self.out.features.control += 1;
                let it = self.eval(iter, env)?;
                let is_map = matches!(it, Val::Map(_));
                if let Val::List(l) = &it {
                    if let Some(k) = &l.kw {
                        let _ = k; // iterating an argument list does not access its keywords
                    }
                }
                let items = it.as_list();
                let saved = env.semi_global;
                env.frames.push(Rc::new(RefCell::new(Frame::default())));
                env.loop_depth += 1;
                let mut res = Ok(Flow::Normal);
                for item in items {
                    if vars.len() == 1 {
                        env.set_local(&vars[0], item);
                    } else {
                        if is_map {
                            self.out.features.map_destructure += 1;
                        } else {
                            self.out.features.list_destructure += 1;
                        }
                        let parts = item.as_list();
                        for (k, v) in vars.iter().enumerate() {
                            env.set_local(v, parts.get(k).cloned().unwrap_or(Val::Null));
                        }
                    }
                    match self.block(body, env) {
                        Ok(Flow::Normal) => {}
                        other => {
                            res = other;
                            break;
                        }
                    }
                }
                env.loop_depth -= 1;
                env.frames.pop();
                env.semi_global = saved;
                res
            }
            Stmt::While { cond, body } => {
                self.out.features.control += 1;
                let saved = env.semi_global;
                env.frames.push(Rc::new(RefCell::new(Frame::default())));
                env.loop_depth += 1;
                let mut res = Ok(Flow::Normal);
                loop {
                    match self.eval(cond, env) {
                        Ok(c) => {
                            if !c.truthy() {
                                break;
                            }
                        }
                        Err(e) => {
                            res = Err(e);
                            break;
                        }
                    }
                    self.out.features.while_iters += 1;
                    match self.block(body, env) {
                        Ok(Flow::Normal) => {}
                        other => {
                            res = other;
                            break;
                        }
                    }
                }
                env.loop_depth -= 1;
                env.frames.pop();
                env.semi_global = saved;
                res
            }
            Stmt::Function { name, params, body } => {
                let c = Rc::new(Callable {
                    params: params.clone(),
                    body: body.clone(),
                    env: env.frames.clone(),
                    content: env.content.clone(),
                    has_content: false,
                });
                env.frames.last().unwrap().borrow_mut().funcs.push((name.clone(), c));
                Ok(Flow::Normal)
            }
            Stmt::Mixin { name, params, body } => {
                let c = Rc::new(Callable {
                    params: params.clone(),
                    body: body.clone(),
                    env: env.frames.clone(),
                    content: env.content.clone(),
                    has_content: has_content_stmt(body),
                });
                env.frames.last().unwrap().borrow_mut().mixins.push((name.clone(), c));
                Ok(Flow::Normal)
            }
            Stmt::Return(e) => {
                let v = self.eval(e, env)?;
                if env.loop_depth > 0 {
                    self.out.features.return_in_loop += 1;
                }
                Ok(Flow::Return(v))
            }
            Stmt::Include { name, args, using, content } => {
                let m = match env.mixin(name) {
                    Some(m) => m,
                    None => return err(format!("Undefined mixin {}", name)),
                };
                let ev = self.eval_args(args, env)?;
                let block = match content {
                    Some(b) => {
                        if !m.has_content {
                            return err("Mixin doesn't accept a content block");
                        }
                        Some(Rc::new(Callable {
                            params: using.clone().unwrap_or_default(),
                            body: b.clone(),
                            env: env.frames.clone(),
                            content: env.content.clone(),
                            has_content: false,
                        }))
                    }
                    None => None,
                };
                self.out.features.calls += 1;
                self.out.features.includes += 1;
                match self.invoke(&m, ev, block)? {
                    Flow::Normal => Ok(Flow::Normal),
                    Flow::Return(_) => err("@return in a mixin"),
                }
            }
            Stmt::Content(args) => {
                let cb = match env.content.clone() {
                    // no block was passed: nothing happens, the arguments are not evaluated
                    None => {
                        self.out.features.content_skipped += 1;
                        return Ok(Flow::Normal);
                    }
                    Some(cb) => cb,
                };
                let ev = self.eval_args(args, env)?;
                self.out.features.content_blocks += 1;
                if !cb.params.params.is_empty() {
                    self.out.features.content_using += 1;
                }
                let inner = cb.content.clone();
                match self.invoke(&cb, ev, inner)? {
                    Flow::Normal => Ok(Flow::Normal),
                    Flow::Return(_) => err("@return in a content block"),
                }
            }
            Stmt::Debug { id, value } => {
                let v = self.eval(value, env)?;
                let (message, quoted_string) = match &v {
                    Val::Str(t, q) => (t.clone(), *q),
                    other => (inspect(other)?, false),
                };
                self.out.logs.push(Log { kind: LogKind::Debug, id: *id, message, quoted_string });
                Ok(Flow::Normal)
            }
            Stmt::Warn { id, value } => {
                let calls_before = self.out.features.calls;
                let v = self.eval(value, env)?;
                if self.out.features.calls > calls_before && self.out.warn_seen.contains(id) {
                    self.out.warn_reeval_calls = true;
                }
                self.out.warn_seen.push(*id);
                let (message, quoted_string) = match &v {
                    Val::Str(t, q) => (t.clone(), *q),
                    other => (css(other, true)?, false),
                };
                self.out.logs.push(Log { kind: LogKind::Warn, id: *id, message, quoted_string });
                Ok(Flow::Normal)
            }
        }
    }

    /// Run a function / mixin / content block: arity is verified first, then a new scope on top
    /// of the callable's *defining* environment receives the arguments; defaults are evaluated in
    /// that scope, left to right.
    fn invoke(&mut self, c: &Rc<Callable>, ev: Evald, content: Option<Rc<Callable>>) -> R<Flow> {
        let ps = &c.params.params;
        let Evald { pos, mut named, sep } = ev;
        // ---- verify ----
        if pos.len() > ps.len() && c.params.rest.is_none() {
            return err(format!("Only {} arguments allowed, but {} were passed", ps.len(), pos.len()));
        }
        for (i, p) in ps.iter().enumerate() {
            let is_named = named.iter().any(|(n, _)| *n == p.name);
            if i < pos.len() {
                if is_named {
                    return err(format!("Argument ${} was passed both by position and by name", p.name));
                }
            } else if !is_named && p.default.is_none() {
                return err(format!("Missing argument ${}", p.name));
            }
        }
        if c.params.rest.is_none() {
            if let Some((n, _)) = named.iter().find(|(n, _)| !ps.iter().any(|p| p.name == *n)) {
                return err(format!("No argument named ${}", n));
            }
        }
        // ---- bind ----
        let mut env = Env {
            frames: c.env.clone(),
            semi_global: false,
            content,
            base_len: c.env.len(),
            loop_depth: 0,
        };
        env.frames.push(Rc::new(RefCell::new(Frame::default())));
        for (p, v) in ps.iter().zip(pos.iter()) {
            env.set_local(&p.name, v.clone());
        }
        for p in ps.iter().skip(pos.len()) {
            let v = if let Some(k) = named.iter().position(|(n, _)| *n == p.name) {
                self.out.features.named_args += 1;
                named.remove(k).1
            } else {
                self.out.features.defaults_evaluated += 1;
                self.eval(p.default.as_ref().unwrap(), &mut env)?
            };
            env.set_local(&p.name, v);
        }
        let mut arglist: Option<Rc<ListV>> = None;
        if let Some(r) = &c.params.rest {
            let extra: Vec<Val> = pos.iter().skip(ps.len()).cloned().collect();
            if !extra.is_empty() || !named.is_empty() {
                self.out.features.rest_collected += 1;
            }
            if sep == SepV::Space {
                self.out.space_arglist = true;
            }
            let l = Rc::new(ListV {
                items: extra,
                sep: if sep == SepV::Undecided { SepV::Comma } else { sep },
                bracketed: false,
                kw: Some(Kw { named, accessed: Cell::new(false) }),
            });
            arglist = Some(l.clone());
            env.set_local(r, Val::List(l));
        }
        let r = self.block(&c.body, &mut env)?;
        if let Some(l) = arglist {
            let k = l.kw.as_ref().unwrap();
            if !k.named.is_empty() && !k.accessed.get() {
                return err(format!("No argument named ${}", k.named[0].0));
            }
        }
        Ok(r)
    }

    fn eval_args(&mut self, a: &Args, env: &mut Env) -> R<Evald> {
        let mut pos = vec![];
        for e in &a.pos {
            pos.push(self.eval(e, env)?);
        }
        let mut named: Vec<(String, Val)> = vec![];
        let calls_before = self.out.features.calls;
        for (n, e) in &a.named {
            let v = self.eval(e, env)?;
            if named.iter().any(|(m, _)| m == n) {
                return err("Duplicate argument");
            }
            named.push((n.clone(), v));
        }
        if a.named.len() >= 2 && self.out.features.calls > calls_before {
            self.out.named_order_region = true;
        }
        let mut sep = SepV::Undecided;
        let mut add_map = |named: &mut Vec<(String, Val)>, m: &Vec<(Val, Val)>| -> R<()> {
            for (k, v) in m {
                match k {
                    Val::Str(t, _) => {
                        if named.iter().any(|(n, _)| n == t) {
                            return err("Duplicate argument");
                        }
                        named.push((t.clone(), v.clone()));
                    }
                    _ => return err("Variable keyword argument map must have string keys"),
                }
            }
            Ok(())
        };
        if let Some(r) = &a.rest {
            self.out.features.splat_args += 1;
            match self.eval(r, env)? {
                Val::Map(m) => add_map(&mut named, &m)?,
                Val::List(l) => {
                    pos.extend(l.items.iter().cloned());
                    sep = l.sep;
                    if let Some(k) = &l.kw {
                        k.accessed.set(true);
                        if !k.named.is_empty() {
                            self.out.features.kw_forwarded += 1;
                        }
                        for (n, v) in &k.named {
                            if named.iter().any(|(m, _)| m == n) {
                                return err("Duplicate argument");
                            }
                            named.push((n.clone(), v.clone()));
                        }
                    }
                }
                v => pos.push(v),
            }
        }
        if let Some(r) = &a.kwrest {
            match self.eval(r, env)? {
                Val::Map(m) => add_map(&mut named, &m)?,
                _ => return err("Variable keyword arguments must be a map"),
            }
        }
        Ok(Evald { pos, named, sep })
    }

    fn eval(&mut self, e: &Expr, env: &mut Env) -> R<Val> {
        self.tick()?;
        Ok(match e {
            Expr::Num(n) => Val::Num(*n, if is_int(*n as i128) { 0.0 } else { 4.0 * rnd(*n as i128) }),
            Expr::Str { text, quoted } => Val::Str(text.clone(), *quoted),
            Expr::Bool(b) => Val::Bool(*b),
            Expr::Null => Val::Null,
            Expr::Var(n) => self.get(env, n)?,
            Expr::List { items, sep, bracketed } => {
                let mut v = vec![];
                for i in items {
                    v.push(self.eval(i, env)?);
                }
                let s = match sep {
                    Sep::Comma => SepV::Comma,
                    Sep::Space => {
                        if v.len() < 2 {
                            SepV::Undecided
                        } else {
                            SepV::Space
                        }
                    }
                };
                Val::list(v, s, *bracketed)
            }
            Expr::Map(kv) => {
                let mut m: Vec<(Val, Val)> = vec![];
                for (k, v) in kv {
                    let k = self.eval(k, env)?;
                    let v = self.eval(v, env)?;
                    if m.iter().any(|(k2, _)| val_eq(&k, k2)) {
                        return err("Duplicate key");
                    }
                    m.push((k, v));
                }
                Val::Map(Rc::new(m))
            }
            Expr::Bin(op, l, r) => self.bin(*op, l, r, env)?,
            Expr::Neg(x) => match self.eval(x, env)? {
                Val::Num(n, e) => Val::Num(-n, e),
                _ => return err("unary minus on a non-number"),
            },
            Expr::Not(x) => Val::Bool(!self.eval(x, env)?.truthy()),
            Expr::Div(x, k) => match self.eval(x, env)? {
                Val::Num(n, e) => {
                    if *k == 0 {
                        return err("division by zero");
                    }
                    if n % *k != 0 {
                        return Err(Stop::OutOfDomain("inexact-division"));
                    }
                    num((n / *k) as i128, e / (*k as f64).abs(), e == 0.0 && is_int(n as i128) && is_int((n / *k) as i128))?
                }
                _ => return err("math.div on a non-number"),
            },
            Expr::If(c, a, b) => {
                // only the selected branch is evaluated
                if self.eval(c, env)?.truthy() {
                    self.eval(a, env)?
                } else {
                    self.eval(b, env)?
                }
            }
            Expr::Call { name, args } => {
                let f = match env.func(name) {
                    Some(f) => f,
                    None => return err(format!("Undefined function {}", name)),
                };
                let ev = self.eval_args(args, env)?;
                self.out.features.calls += 1;
                self.out.features.fn_calls += 1;
                match self.invoke(&f, ev, None)? {
                    Flow::Return(v) => v,
                    Flow::Normal => return err("Function finished without @return"),
                }
            }
            Expr::Interp { quoted, parts } => {
                let mut s = String::new();
                for p in parts {
                    match p {
                        Part::Lit(t) => s.push_str(t),
                        Part::E(x) => {
                            let v = self.eval(x, env)?;
                            s.push_str(&css(&v, false)?);
                        }
                    }
                }
                strv(s, *quoted)?
            }
            Expr::Length(x) => {
                let v = self.eval(x, env)?;
                Val::Num(v.as_list().len() as i64 * 1000, 0.0)
            }
        })
    }

    fn bin(&mut self, op: BinOp, l: &Expr, r: &Expr, env: &mut Env) -> R<Val> {
        let a = self.eval(l, env)?;
        // `and` / `or` return one of their operands and do not evaluate the right one needlessly
        match op {
            BinOp::And => {
                if !a.truthy() {
                    self.out.features.short_circuit += 1;
                    return Ok(a);
                }
                return self.eval(r, env);
            }
            BinOp::Or => {
                if a.truthy() {
                    self.out.features.short_circuit += 1;
                    return Ok(a);
                }
                return self.eval(r, env);
            }
            _ => {}
        }
        let b = self.eval(r, env)?;
        if matches!(op, BinOp::Eq | BinOp::Ne | BinOp::Lt | BinOp::Le | BinOp::Gt | BinOp::Ge) {
            // the compared values must be known well below the comparison epsilon
            chk_err(max_err(&a) + max_err(&b))?;
        }
        match op {
            BinOp::Eq => Ok(Val::Bool(val_eq(&a, &b))),
            BinOp::Ne => Ok(Val::Bool(!val_eq(&a, &b))),
            BinOp::Lt | BinOp::Le | BinOp::Gt | BinOp::Ge => match (&a, &b) {
                (Val::Num(x, _), Val::Num(y, _)) => Ok(Val::Bool(match op {
                    BinOp::Lt => x < y,
                    BinOp::Le => x <= y,
                    BinOp::Gt => x > y,
                    _ => x >= y,
                })),
                _ => err("comparison of non-numbers"),
            },
            BinOp::Add => match (&a, &b) {
                (Val::Num(x, ea), Val::Num(y, eb)) => num(*x as i128 + *y as i128, ea + eb, is_int(*x as i128) && is_int(*y as i128)),
                // a string on the left keeps its quotes; otherwise the right string decides
                (Val::Str(t, q), other) => {
                    self.out.features.string_concat += 1;
                    match other {
                        Val::Str(u, _) => strv(format!("{}{}", t, u), *q),
                        Val::Num(..) | Val::Bool(_) => strv(format!("{}{}", t, css(other, true)?), *q),
                        _ => err("string + unsupported operand"),
                    }
                }
                (Val::Num(..) | Val::Bool(_), Val::Str(u, q)) => {
                    self.out.features.string_concat += 1;
                    strv(format!("{}{}", css(&a, true)?, u), *q)
                }
                _ => err("+ on unsupported operands"),
            },
            BinOp::Sub => match (&a, &b) {
                (Val::Num(x, ea), Val::Num(y, eb)) => num(*x as i128 - *y as i128, ea + eb, is_int(*x as i128) && is_int(*y as i128)),
                _ => err("- on non-numbers"),
            },
            BinOp::Mul => match (&a, &b) {
                (Val::Num(x, ea), Val::Num(y, eb)) => {
                    let p = *x as i128 * *y as i128;
                    if p % 1000 != 0 {
                        return Err(Stop::OutOfDomain("inexact-product"));
                    }
                    let (fa, fb) = ((*x as f64 / 1000.0).abs(), (*y as f64 / 1000.0).abs());
                    num(p / 1000, fa * eb + fb * ea + ea * eb, is_int(*x as i128) && is_int(*y as i128))
                }
                _ => err("* on non-numbers"),
            },
            BinOp::Mod => match (&a, &b) {
                (Val::Num(x, ea), Val::Num(y, eb)) => {
                    if *ea > 0.0 || *eb > 0.0 || !is_int(*x as i128) || !is_int(*y as i128) {
                        // binary64 remainder of inexact operands can be off by a whole divisor
                        return Err(Stop::OutOfDomain("float-error"));
                    }
                    if *y == 0 {
                        return err("modulo by zero");
                    }
                    // floored: the result has the sign of the divisor
                    Ok(Val::Num(x.rem_euclid(*y) + if *y < 0 && x.rem_euclid(*y) != 0 { *y } else { 0 }, 0.0))
                }
                _ => err("% on non-numbers"),
            },
            BinOp::And | BinOp::Or => unreachable!(),
        }
    }
}

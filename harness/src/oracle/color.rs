//! Colour oracle for C15, written from the specifications, never from grass:
//!
//! * CSS Color 3 §4.2.4 / CSS Color 4 §7–§8 sample code: rgb↔hsl↔hwb conversions;
//! * the independent named-colour table `/verif/data/css_named_colors.txt` (npm `color-name`,
//!   cross-checked against `prompt_toolkit`);
//! * the Sass documentation of `sass:color` (`adjust`, `scale`, `change`, `mix` weights 0/100,
//!   `invert`, `complement`, `opacify`/`transparentize`, …) for the reference implementations.
//!
//! Everything is computed on *real-valued* channels (f64, 0..255). Turning a real channel into
//! the 8-bit integer the property demands is done by [`Chan::from_real`], which accepts both
//! neighbours when the value lies within [`TIE_EPS`] of a `.5` boundary (dart-sass 1.54 uses a
//! fuzzy rounding there; the property text only says "integer-rounded").

use std::collections::HashMap;
use std::sync::OnceLock;

/// |frac(v) − 0.5| ≤ TIE_EPS ⇒ both roundings of `v` are accepted.
pub const TIE_EPS: f64 = 1e-9;
/// tolerance for accessor values (degrees / percent), from the property design
pub const ACC_EPS: f64 = 1e-6;
/// tolerance for alpha values (grass prints 10 significant decimals)
pub const ALPHA_EPS: f64 = 1e-9;

const TABLE: &str = include_str!("../../../data/css_named_colors.txt");

pub fn named_table() -> &'static Vec<(String, [u8; 3])> {
    static T: OnceLock<Vec<(String, [u8; 3])>> = OnceLock::new();
    T.get_or_init(|| {
        let mut v = vec![];
        for line in TABLE.lines() {
            let line = line.trim();
            if line.is_empty() || line.starts_with('#') {
                continue;
            }
            let f: Vec<&str> = line.split_whitespace().collect();
            assert!(f.len() == 4, "bad colour table line: {}", line);
            v.push((
                f[0].to_string(),
                [f[1].parse().unwrap(), f[2].parse().unwrap(), f[3].parse().unwrap()],
            ));
        }
        assert_eq!(v.len(), 148, "the CSS named-colour table has 148 entries");
        v
    })
}

pub fn name_to_rgb() -> &'static HashMap<String, [u8; 3]> {
    static T: OnceLock<HashMap<String, [u8; 3]>> = OnceLock::new();
    T.get_or_init(|| named_table().iter().cloned().collect())
}

/// all names of one RGB triple (aqua/cyan, fuchsia/magenta, the gray/grey pairs)
pub fn names_of(rgb: [u8; 3]) -> Vec<&'static str> {
    named_table()
        .iter()
        .filter(|(_, c)| *c == rgb)
        .map(|(n, _)| n.as_str())
        .collect()
}

// ---------------------------------------------------------------------------------------------
// conversions (CSS Color 4 sample code; channels r,g,b in 0..1 unless stated otherwise)
// ---------------------------------------------------------------------------------------------

/// CSS Color 4 §7.1 `rgbToHsl`: returns (hue in degrees or None when achromatic/powerless,
/// saturation in percent, lightness in percent).
pub fn rgb_to_hsl(r: f64, g: f64, b: f64) -> (Option<f64>, f64, f64) {
    let max = r.max(g).max(b);
    let min = r.min(g).min(b);
    let light = (min + max) / 2.0;
    let d = max - min;
    let mut hue = None;
    let mut sat = 0.0;
    if d != 0.0 {
        sat = if light == 0.0 || light == 1.0 {
            0.0
        } else {
            (max - light) / light.min(1.0 - light)
        };
        let h = if max == r {
            (g - b) / d + if g < b { 6.0 } else { 0.0 }
        } else if max == g {
            (b - r) / d + 2.0
        } else {
            (r - g) / d + 4.0
        };
        hue = Some(h * 60.0);
    }
    (hue, sat * 100.0, light * 100.0)
}

/// CSS Color 4 §7.1 `hslToRgb`: hue in degrees (any real), sat/light in percent (already clamped
/// by the caller where the function under test clamps). Result channels in 0..1.
pub fn hsl_to_rgb(hue: f64, sat: f64, light: f64) -> [f64; 3] {
    let mut hue = hue % 360.0;
    if hue < 0.0 {
        hue += 360.0;
    }
    let sat = sat / 100.0;
    let light = light / 100.0;
    let f = |n: f64| {
        let k = (n + hue / 30.0) % 12.0;
        let a = sat * light.min(1.0 - light);
        light - a * (-1.0f64).max((k - 3.0).min(9.0 - k).min(1.0))
    };
    [f(0.0), f(8.0), f(4.0)]
}

/// CSS Color 4 §8.1 `hwbToRgb`: white/black in percent; w+b ≥ 100 % gives the grey w/(w+b).
pub fn hwb_to_rgb(hue: f64, white: f64, black: f64) -> [f64; 3] {
    let white = white / 100.0;
    let black = black / 100.0;
    if white + black >= 1.0 {
        let gray = white / (white + black);
        return [gray, gray, gray];
    }
    let mut rgb = hsl_to_rgb(hue, 100.0, 50.0);
    for c in rgb.iter_mut() {
        *c *= 1.0 - white - black;
        *c += white;
    }
    rgb
}

/// CSS Color 4 §8.2 `rgbToHwb`: (hue or None, whiteness %, blackness %)
pub fn rgb_to_hwb(r: f64, g: f64, b: f64) -> (Option<f64>, f64, f64) {
    let (h, _, _) = rgb_to_hsl(r, g, b);
    let white = r.min(g).min(b);
    let black = 1.0 - r.max(g).max(b);
    (h, white * 100.0, black * 100.0)
}

pub fn clamp(v: f64, lo: f64, hi: f64) -> f64 {
    if v < lo {
        lo
    } else if v > hi {
        hi
    } else {
        v
    }
}

// ---------------------------------------------------------------------------------------------
// 8-bit colours, expectations with tie tolerance
// ---------------------------------------------------------------------------------------------

/// a colour value as the property defines it: integer channels, alpha in [0,1]
#[derive(Clone, Copy, Debug, PartialEq)]
pub struct Rgba {
    pub rgb: [u8; 3],
    pub a: f64,
}

impl Rgba {
    pub fn opaque(r: u8, g: u8, b: u8) -> Rgba {
        Rgba { rgb: [r, g, b], a: 1.0 }
    }
    pub fn unit(&self) -> [f64; 3] {
        [
            self.rgb[0] as f64 / 255.0,
            self.rgb[1] as f64 / 255.0,
            self.rgb[2] as f64 / 255.0,
        ]
    }
    pub fn hsl(&self) -> (Option<f64>, f64, f64) {
        let u = self.unit();
        rgb_to_hsl(u[0], u[1], u[2])
    }
    pub fn hwb(&self) -> (Option<f64>, f64, f64) {
        let u = self.unit();
        rgb_to_hwb(u[0], u[1], u[2])
    }
    pub fn hex6(&self) -> String {
        format!("#{:02x}{:02x}{:02x}", self.rgb[0], self.rgb[1], self.rgb[2])
    }
    pub fn is_short(&self) -> bool {
        self.rgb.iter().all(|c| c % 17 == 0)
    }
}

/// acceptable integer values of one channel
#[derive(Clone, Copy, Debug, PartialEq)]
pub struct Chan {
    pub lo: u8,
    pub hi: u8,
    /// the real value the alternatives were derived from
    pub real: f64,
}

impl Chan {
    pub fn exact(v: u8) -> Chan {
        Chan { lo: v, hi: v, real: v as f64 }
    }
    /// `v` on the 0..255 scale (clamped here): round to nearest; within TIE_EPS of a .5
    /// boundary both neighbours are acceptable.
    pub fn from_real(v: f64) -> Chan {
        let v = clamp(v, 0.0, 255.0);
        let fl = v.floor();
        let d = v - fl - 0.5;
        if d.abs() <= TIE_EPS {
            Chan { lo: fl as u8, hi: (fl + 1.0).min(255.0) as u8, real: v }
        } else if d < 0.0 {
            Chan { lo: fl as u8, hi: fl as u8, real: v }
        } else {
            let c = (fl + 1.0).min(255.0) as u8;
            Chan { lo: c, hi: c, real: v }
        }
    }
    pub fn accepts(&self, v: u8) -> bool {
        v == self.lo || v == self.hi
    }
    pub fn is_tie(&self) -> bool {
        self.lo != self.hi
    }
    /// distance of the real value from the nearest .5 boundary
    pub fn tie_distance(&self) -> f64 {
        (self.real - self.real.floor() - 0.5).abs()
    }
}

/// expected colour: per-channel alternatives + alpha (compared within ALPHA_EPS)
#[derive(Clone, Copy, Debug, PartialEq)]
pub struct Exp {
    pub ch: [Chan; 3],
    pub a: f64,
}

impl Exp {
    pub fn exact(c: Rgba) -> Exp {
        Exp {
            ch: [Chan::exact(c.rgb[0]), Chan::exact(c.rgb[1]), Chan::exact(c.rgb[2])],
            a: c.a,
        }
    }
    /// from real channels on the 0..1 scale
    pub fn from_unit(u: [f64; 3], a: f64) -> Exp {
        Exp {
            ch: [
                Chan::from_real(u[0] * 255.0),
                Chan::from_real(u[1] * 255.0),
                Chan::from_real(u[2] * 255.0),
            ],
            a: clamp(a, 0.0, 1.0),
        }
    }
    /// from real channels on the 0..255 scale
    pub fn from_255(v: [f64; 3], a: f64) -> Exp {
        Exp {
            ch: [Chan::from_real(v[0]), Chan::from_real(v[1]), Chan::from_real(v[2])],
            a: clamp(a, 0.0, 1.0),
        }
    }
    pub fn accepts(&self, c: &Rgba) -> bool {
        (0..3).all(|i| self.ch[i].accepts(c.rgb[i])) && (self.a - c.a).abs() <= ALPHA_EPS
    }
    pub fn has_tie(&self) -> bool {
        self.ch.iter().any(|c| c.is_tie())
    }
    pub fn min_tie_distance(&self) -> f64 {
        self.ch.iter().map(|c| c.tie_distance()).fold(1.0, f64::min)
    }
    pub fn describe(&self) -> String {
        let c = |c: &Chan| {
            if c.is_tie() {
                format!("{}|{}", c.lo, c.hi)
            } else {
                format!("{}", c.lo)
            }
        };
        format!("rgba({}, {}, {}, {})", c(&self.ch[0]), c(&self.ch[1]), c(&self.ch[2]), self.a)
    }
}

// ---------------------------------------------------------------------------------------------
// parsing printed colours (CSS syntax: hex, names, rgb()/rgba() with integer channels)
// ---------------------------------------------------------------------------------------------

#[derive(Clone, Debug, PartialEq)]
pub enum ParseErr {
    /// not a colour in one of the forms a Sass compiler may print
    NotAColor(String),
    /// rgb()/rgba() with a channel that is not an integer in [0,255], or alpha outside [0,1]
    OutOfRange(String),
}

fn hexval(c: u8) -> Option<u8> {
    match c {
        b'0'..=b'9' => Some(c - b'0'),
        b'a'..=b'f' => Some(c - b'a' + 10),
        b'A'..=b'F' => Some(c - b'A' + 10),
        _ => None,
    }
}

/// parse a CSS number (optionally without leading zero) exactly enough for our purposes
pub fn parse_css_number(s: &str) -> Option<f64> {
    let s = s.trim();
    if s.is_empty() {
        return None;
    }
    let ok = s.bytes().enumerate().all(|(i, c)| {
        c.is_ascii_digit() || c == b'.' || ((c == b'-' || c == b'+') && (i == 0 || matches!(s.as_bytes()[i - 1], b'e' | b'E'))) || c == b'e' || c == b'E'
    });
    if !ok {
        return None;
    }
    let t = if let Some(r) = s.strip_prefix("-.") {
        format!("-0.{}", r)
    } else if let Some(r) = s.strip_prefix('.') {
        format!("0.{}", r)
    } else {
        s.to_string()
    };
    t.parse::<f64>().ok()
}

/// Parse a printed colour. Accepts `#rgb #rgba #rrggbb #rrggbbaa`, the 148 CSS names (any case)
/// and `transparent`, `rgb(r,g,b)` / `rgba(r,g,b,a)`.
pub fn parse_color(text: &str) -> Result<Rgba, ParseErr> {
    let t = text.trim();
    if let Some(h) = t.strip_prefix('#') {
        let d: Option<Vec<u8>> = h.bytes().map(hexval).collect();
        let d = d.ok_or_else(|| ParseErr::NotAColor(t.to_string()))?;
        return match d.len() {
            3 => Ok(Rgba { rgb: [d[0] * 17, d[1] * 17, d[2] * 17], a: 1.0 }),
            4 => Ok(Rgba { rgb: [d[0] * 17, d[1] * 17, d[2] * 17], a: (d[3] * 17) as f64 / 255.0 }),
            6 => Ok(Rgba { rgb: [d[0] * 16 + d[1], d[2] * 16 + d[3], d[4] * 16 + d[5]], a: 1.0 }),
            8 => Ok(Rgba {
                rgb: [d[0] * 16 + d[1], d[2] * 16 + d[3], d[4] * 16 + d[5]],
                a: (d[6] * 16 + d[7]) as f64 / 255.0,
            }),
            _ => Err(ParseErr::NotAColor(t.to_string())),
        };
    }
    let lower = t.to_ascii_lowercase();
    if lower == "transparent" {
        return Ok(Rgba { rgb: [0, 0, 0], a: 0.0 });
    }
    if let Some(c) = name_to_rgb().get(&lower) {
        return Ok(Rgba { rgb: *c, a: 1.0 });
    }
    let inner = if let Some(r) = lower.strip_prefix("rgba(") {
        r.strip_suffix(')')
    } else if let Some(r) = lower.strip_prefix("rgb(") {
        r.strip_suffix(')')
    } else {
        None
    };
    let inner = inner.ok_or_else(|| ParseErr::NotAColor(t.to_string()))?;
    let parts: Vec<&str> = inner.split(',').map(|p| p.trim()).collect();
    if parts.len() != 3 && parts.len() != 4 {
        return Err(ParseErr::NotAColor(t.to_string()));
    }
    let mut rgb = [0u8; 3];
    for i in 0..3 {
        let v = parse_css_number(parts[i]).ok_or_else(|| ParseErr::NotAColor(t.to_string()))?;
        if v.fract() != 0.0 || !(0.0..=255.0).contains(&v) {
            return Err(ParseErr::OutOfRange(t.to_string()));
        }
        rgb[i] = v as u8;
    }
    let a = if parts.len() == 4 {
        let v = parse_css_number(parts[3]).ok_or_else(|| ParseErr::NotAColor(t.to_string()))?;
        if !(0.0..=1.0).contains(&v) {
            return Err(ParseErr::OutOfRange(t.to_string()));
        }
        v
    } else {
        1.0
    };
    Ok(Rgba { rgb, a })
}

/// split a printed space-separated list at top level (parentheses kept together)
pub fn split_list(v: &str) -> Vec<String> {
    let mut out = vec![];
    let mut cur = String::new();
    let mut depth = 0;
    for c in v.chars() {
        match c {
            '(' => {
                depth += 1;
                cur.push(c);
            }
            ')' => {
                depth -= 1;
                cur.push(c);
            }
            c if c.is_whitespace() && depth == 0 => {
                if !cur.is_empty() {
                    out.push(std::mem::take(&mut cur));
                }
            }
            c => cur.push(c),
        }
    }
    if !cur.is_empty() {
        out.push(cur);
    }
    out
}

/// parse `12.5%`, `210deg`, `0.5`, `.5` → (value, unit)
pub fn parse_dimension(s: &str) -> Option<(f64, String)> {
    let s = s.trim();
    let mut end = s.len();
    for (i, c) in s.char_indices() {
        if !(c.is_ascii_digit() || c == '.' || c == '-' || c == '+') {
            // exponent?
            if (c == 'e' || c == 'E')
                && s[i + 1..].chars().next().map(|d| d.is_ascii_digit() || d == '-' || d == '+').unwrap_or(false)
                && s[i + 1..].chars().all(|d| d.is_ascii_digit() || d == '-' || d == '+')
            {
                continue;
            }
            end = i;
            break;
        }
    }
    let v = parse_css_number(&s[..end])?;
    Some((v, s[end..].to_string()))
}

/// circular distance between two hues in degrees
pub fn hue_distance(a: f64, b: f64) -> f64 {
    let d = (a - b).rem_euclid(360.0);
    d.min(360.0 - d)
}

// ---------------------------------------------------------------------------------------------
// reference implementations of the sass:color functions (from the Sass documentation)
// ---------------------------------------------------------------------------------------------

/// keyword arguments of color.adjust / color.scale / color.change; `None` = not passed.
/// red/green/blue on the 0..255 scale (adjust: deltas), hue in degrees, the rest in percent,
/// alpha on the 0..1 scale – for `scale` every field is a percentage in [-100, 100].
#[derive(Clone, Copy, Debug, Default, PartialEq)]
pub struct Kw {
    pub red: Option<f64>,
    pub green: Option<f64>,
    pub blue: Option<f64>,
    pub hue: Option<f64>,
    pub saturation: Option<f64>,
    pub lightness: Option<f64>,
    pub whiteness: Option<f64>,
    pub blackness: Option<f64>,
    pub alpha: Option<f64>,
}

#[derive(Clone, Copy, Debug, PartialEq, Eq)]
pub enum Space {
    None,
    Rgb,
    Hsl,
    Hwb,
    /// arguments of more than one space: documented to be an error
    Conflict,
}

impl Kw {
    pub fn space(&self) -> Space {
        let rgb = self.red.is_some() || self.green.is_some() || self.blue.is_some();
        let hsl = self.saturation.is_some() || self.lightness.is_some();
        let hwb = self.whiteness.is_some() || self.blackness.is_some();
        let hue = self.hue.is_some();
        match (rgb, hsl, hwb) {
            (false, false, false) => {
                if hue {
                    Space::Hsl
                } else {
                    Space::None
                }
            }
            (true, false, false) => {
                if hue {
                    Space::Conflict
                } else {
                    Space::Rgb
                }
            }
            (false, true, false) => Space::Hsl,
            (false, false, true) => Space::Hwb,
            _ => Space::Conflict,
        }
    }
}

/// result of a reference function: real channels on 0..255 and alpha
#[derive(Clone, Copy, Debug, PartialEq)]
pub struct Real {
    pub v: [f64; 3],
    pub a: f64,
}

impl Real {
    pub fn exp(&self) -> Exp {
        Exp::from_255(self.v, self.a)
    }
}

fn scale255(u: [f64; 3]) -> [f64; 3] {
    [u[0] * 255.0, u[1] * 255.0, u[2] * 255.0]
}

/// `color.adjust`: "Increases or decreases one or more properties of $color by fixed amounts.
/// Adds the value passed for each keyword argument to the corresponding property of the color."
/// Properties stay within their ranges (channels 0..255, percentages 0..100, alpha 0..1).
pub fn ref_adjust(c: Rgba, k: &Kw) -> Option<Real> {
    let a = clamp(c.a + k.alpha.unwrap_or(0.0), 0.0, 1.0);
    match k.space() {
        Space::Conflict => None,
        Space::None => Some(Real { v: [c.rgb[0] as f64, c.rgb[1] as f64, c.rgb[2] as f64], a }),
        Space::Rgb => Some(Real {
            v: [
                clamp(c.rgb[0] as f64 + k.red.unwrap_or(0.0), 0.0, 255.0),
                clamp(c.rgb[1] as f64 + k.green.unwrap_or(0.0), 0.0, 255.0),
                clamp(c.rgb[2] as f64 + k.blue.unwrap_or(0.0), 0.0, 255.0),
            ],
            a,
        }),
        Space::Hsl => {
            let (h, s, l) = c.hsl();
            let h = h.unwrap_or(0.0) + k.hue.unwrap_or(0.0);
            let s = clamp(s + k.saturation.unwrap_or(0.0), 0.0, 100.0);
            let l = clamp(l + k.lightness.unwrap_or(0.0), 0.0, 100.0);
            Some(Real { v: scale255(hsl_to_rgb(h, s, l)), a })
        }
        Space::Hwb => {
            let (h, w, b) = c.hwb();
            let h = h.unwrap_or(0.0) + k.hue.unwrap_or(0.0);
            let w = clamp(w + k.whiteness.unwrap_or(0.0), 0.0, 100.0);
            let b = clamp(b + k.blackness.unwrap_or(0.0), 0.0, 100.0);
            Some(Real { v: scale255(hwb_to_rgb(h, w, b)), a })
        }
    }
}

/// "how far the corresponding property should be moved from its original position towards the
/// maximum (if the argument is positive) or the minimum (if the argument is negative)"
fn scale_value(v: f64, pct: Option<f64>, max: f64) -> f64 {
    match pct {
        None => v,
        Some(p) => v + (if p > 0.0 { max - v } else { v }) * p / 100.0,
    }
}

/// `color.scale`: every argument is a percentage in [-100 %, 100 %]; `$hue` is not accepted.
pub fn ref_scale(c: Rgba, k: &Kw) -> Option<Real> {
    if k.hue.is_some() {
        return None;
    }
    let a = scale_value(c.a, k.alpha, 1.0);
    match k.space() {
        Space::Conflict => None,
        Space::None => Some(Real { v: [c.rgb[0] as f64, c.rgb[1] as f64, c.rgb[2] as f64], a }),
        Space::Rgb => Some(Real {
            v: [
                scale_value(c.rgb[0] as f64, k.red, 255.0),
                scale_value(c.rgb[1] as f64, k.green, 255.0),
                scale_value(c.rgb[2] as f64, k.blue, 255.0),
            ],
            a,
        }),
        Space::Hsl => {
            let (h, s, l) = c.hsl();
            let s = scale_value(s, k.saturation, 100.0);
            let l = scale_value(l, k.lightness, 100.0);
            Some(Real { v: scale255(hsl_to_rgb(h.unwrap_or(0.0), s, l)), a })
        }
        Space::Hwb => {
            let (h, w, b) = c.hwb();
            let w = scale_value(w, k.whiteness, 100.0);
            let b = scale_value(b, k.blackness, 100.0);
            Some(Real { v: scale255(hwb_to_rgb(h.unwrap_or(0.0), w, b)), a })
        }
    }
}

/// `color.change`: "Sets one or more properties of a color to new values."
pub fn ref_change(c: Rgba, k: &Kw) -> Option<Real> {
    let a = k.alpha.unwrap_or(c.a);
    match k.space() {
        Space::Conflict => None,
        Space::None => Some(Real { v: [c.rgb[0] as f64, c.rgb[1] as f64, c.rgb[2] as f64], a }),
        Space::Rgb => Some(Real {
            v: [
                k.red.unwrap_or(c.rgb[0] as f64),
                k.green.unwrap_or(c.rgb[1] as f64),
                k.blue.unwrap_or(c.rgb[2] as f64),
            ],
            a,
        }),
        Space::Hsl => {
            let (h, s, l) = c.hsl();
            let h = k.hue.unwrap_or(h.unwrap_or(0.0));
            let s = k.saturation.unwrap_or(s);
            let l = k.lightness.unwrap_or(l);
            Some(Real { v: scale255(hsl_to_rgb(h, s, l)), a })
        }
        Space::Hwb => {
            let (h, w, b) = c.hwb();
            let h = k.hue.unwrap_or(h.unwrap_or(0.0));
            let w = k.whiteness.unwrap_or(w);
            let b = k.blackness.unwrap_or(b);
            Some(Real { v: scale255(hwb_to_rgb(h, w, b)), a })
        }
    }
}

#[cfg(test)]
mod tests {
    use super::*;
    #[test]
    fn roundtrip_all_short() {
        for r in 0..16u8 {
            for g in 0..16u8 {
                for b in 0..16u8 {
                    let c = Rgba::opaque(r * 17, g * 17, b * 17);
                    let (h, s, l) = c.hsl();
                    let e = Exp::from_unit(hsl_to_rgb(h.unwrap_or(0.0), s, l), 1.0);
                    assert!(e.accepts(&c) && !e.has_tie());
                    let (h, w, k) = c.hwb();
                    let e = Exp::from_unit(hwb_to_rgb(h.unwrap_or(0.0), w, k), 1.0);
                    assert!(e.accepts(&c) && !e.has_tie());
                }
            }
        }
    }
}

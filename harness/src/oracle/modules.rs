//! Module-graph model for C12, written from the Sass module-system documentation
//! (sass-lang.com/documentation/at-rules/use, /forward, /modules) and dart-sass 1.54 behaviour.
//! It interprets a `gen::project::Project` and returns the expected declaration sequence or
//! "error". It never looks at grass.
//!
//! Rules implemented:
//! * a URL is resolved relative to the loading file; `x`, `x.scss`, `_x.scss` name the same file; the
//!   canonical file path identifies the module: it is evaluated once, later loads reuse it;
//! * a load of a module that is still being evaluated is a module loop -> error;
//! * CSS of a module is emitted when it is first loaded (all loads precede all rules of a file, so
//!   this is dependency order);
//! * members are reached through the namespace of an `@use` of the *current file* (or without one for
//!   `as *`); `ns.` + a name starting with `-`/`_` is a syntax error anywhere in a loaded file; a
//!   private member is never part of a module's public interface;
//! * the public interface of a module = its own public members + for every `@forward` the target's
//!   public interface with the prefix added and then the show/hide list applied to the prefixed
//!   names; forwarded members are not visible inside the forwarding file;
//! * `ns.$v: e` assigns the variable of the module that declares it (shared by every importer); the
//!   variable must exist; built-in module variables cannot be assigned;
//! * `with`: an explicit configuration may only reach a module on its first load (the same
//!   configuration passing through several `@forward`s to a diamond is fine); root `!default`
//!   declarations consume configured values; anything not consumed is an error; `@forward … with`
//!   adds values, `!default` ones can be overridden downstream; built-in modules cannot be configured.

use crate::gen::project::*;
use std::cell::RefCell;
use std::collections::{BTreeMap, BTreeSet};
use std::rc::Rc;

#[derive(Clone, Debug, PartialEq, Eq)]
pub enum Val {
    Int(i64),
    /// unquoted text (a plain-CSS function call or a concatenation with one)
    Text(String),
}

impl Val {
    pub fn css(&self) -> String {
        match self {
            Val::Int(n) => n.to_string(),
            Val::Text(s) => s.clone(),
        }
    }
}

/// deliberately wrong variants of the model, each describing one known finding's region
#[derive(Clone, Copy, Debug, Default, PartialEq, Eq)]
pub struct Quirks {
    /// finding #8: show/hide lists do not restrict member visibility
    pub ignore_filters: bool,
    /// finding #22b: no "already loaded, cannot be configured" check
    pub no_already_loaded_check: bool,
    /// finding #30: a configuration that passed through an `@forward` is no longer treated as
    /// explicit (unused `@forward … with` variables are then not reported)
    pub forward_loses_explicit: bool,
    /// finding #31: the `!default` guard of an un-namespaced root declaration does not see a
    /// variable that comes from an `as *` module (and then overwrites it)
    pub default_guard_ignores_star: bool,
    /// finding #33: `ns.f()` falls back to the global built-in `f` when module `ns` has no `f`
    pub ns_call_falls_back_to_global: bool,
}

#[derive(Clone, Debug, PartialEq, Eq)]
pub enum Expect {
    /// (selector, property, value) in output order
    Ok(Vec<(String, String, String)>),
    Error(String),
    /// the documentation / dart-sass behaviour is not certain for this project: outside the domain
    Unsure(String),
}

#[derive(Debug)]
pub struct ModelResult {
    pub expect: Expect,
    pub tags: BTreeSet<String>,
}

enum Stop {
    Error(String),
    Unsure(String),
}

type R<T> = Result<T, Stop>;

fn err<T>(s: impl Into<String>) -> R<T> {
    Err(Stop::Error(s.into()))
}

#[derive(Clone, Debug, PartialEq, Eq)]
enum Target {
    Real(usize),
    Builtin(String),
}

#[derive(Clone, Debug, PartialEq, Eq, PartialOrd, Ord)]
enum Origin {
    Real(usize, String),
    Builtin(String, String),
}

#[derive(Clone)]
enum Xf {
    Unprefix(String),
    Show(BTreeSet<String>),
    Hide(BTreeSet<String>),
}

#[derive(Clone)]
struct Config {
    explicit: bool,
    orig: usize,
    base: Rc<RefCell<BTreeMap<String, Val>>>,
    xf: Vec<Xf>,
}

impl Config {
    fn empty() -> Config {
        Config { explicit: false, orig: 0, base: Rc::new(RefCell::new(BTreeMap::new())), xf: vec![] }
    }
    /// name at the inner end -> key in the base map
    fn base_key(&self, name: &str) -> Option<String> {
        let mut n = name.to_string();
        for x in self.xf.iter().rev() {
            match x {
                Xf::Show(s) => {
                    if !s.contains(&n) {
                        return None;
                    }
                }
                Xf::Hide(s) => {
                    if s.contains(&n) {
                        return None;
                    }
                }
                Xf::Unprefix(p) => n = format!("{}{}", p, n),
            }
        }
        Some(n)
    }
    /// (inner name, base key) of every value visible at the inner end
    fn visible(&self) -> Vec<(String, String)> {
        let keys: Vec<String> = self.base.borrow().keys().cloned().collect();
        let mut out = vec![];
        'k: for k in keys {
            let mut n = k.clone();
            for x in &self.xf {
                match x {
                    Xf::Unprefix(p) => match n.strip_prefix(p.as_str()) {
                        Some(r) => n = r.to_string(),
                        None => continue 'k,
                    },
                    Xf::Show(s) => {
                        if !s.contains(&n) {
                            continue 'k;
                        }
                    }
                    Xf::Hide(s) => {
                        if s.contains(&n) {
                            continue 'k;
                        }
                    }
                }
            }
            out.push((n, k));
        }
        out
    }
    fn is_empty(&self) -> bool {
        self.visible().is_empty()
    }
    fn get(&self, name: &str) -> Option<Val> {
        let k = self.base_key(name)?;
        self.base.borrow().get(&k).cloned()
    }
    fn remove(&self, name: &str) -> Option<Val> {
        let k = self.base_key(name)?;
        self.base.borrow_mut().remove(&k)
    }
}

struct ModState<'a> {
    ast: &'a Module,
    dir: String,
    vars: BTreeMap<String, Val>,
    callables_defined: bool,
    uses: Vec<(Option<String>, Target)>,
    forwards: Vec<(Target, Option<String>, Filter)>,
}

pub struct Model<'a> {
    files: BTreeMap<String, &'a Module>,
    quirks: Quirks,
    mods: Vec<ModState<'a>>,
    loaded: BTreeMap<String, (usize, usize)>, // canonical path -> (module index, config original)
    active: BTreeSet<String>,
    rows: Vec<(String, String, String)>,
    tags: BTreeSet<String>,
    next_cfg: usize,
    steps: usize,
    spellings: BTreeMap<String, BTreeSet<String>>,
}

fn is_private(name: &str) -> bool {
    name.starts_with('-') || name.starts_with('_')
}

fn normalize_path(p: &str) -> Option<String> {
    let mut out: Vec<&str> = vec![];
    for seg in p.split('/') {
        match seg {
            "" | "." => {}
            ".." => {
                out.pop()?;
            }
            s => out.push(s),
        }
    }
    Some(out.join("/"))
}

fn namespace_of_url(url: &str) -> String {
    let last = url.rsplit(|c| c == '/' || c == ':').next().unwrap_or(url);
    let stem = match last.find('.') {
        Some(i) => &last[..i],
        None => last,
    };
    stem.strip_prefix('_').unwrap_or(stem).to_string()
}

fn filter_var_sets(f: &Filter) -> Option<Xf> {
    let vars = |l: &Vec<String>| -> BTreeSet<String> {
        l.iter().filter_map(|e| e.strip_prefix('$').map(|s| s.to_string())).collect()
    };
    match f {
        Filter::None => None,
        Filter::Show(l) => Some(Xf::Show(vars(l))),
        Filter::Hide(l) => {
            let s = vars(l);
            if s.is_empty() {
                None
            } else {
                Some(Xf::Hide(s))
            }
        }
    }
}

impl<'a> Model<'a> {
    fn tag(&mut self, t: &str) {
        self.tags.insert(t.to_string());
    }

    fn tick(&mut self) -> R<()> {
        self.steps += 1;
        if self.steps > 200_000 {
            return Err(Stop::Unsure("step budget".into()));
        }
        Ok(())
    }

    fn resolve(&self, dir: &str, url: &str) -> Option<String> {
        let joined = normalize_path(&format!("{}{}", dir, url))?;
        let (d, base) = match joined.rfind('/') {
            Some(i) => (&joined[..=i], &joined[i + 1..]),
            None => ("", joined.as_str()),
        };
        let mut cands = vec![];
        if base.ends_with(".scss") {
            cands.push(format!("{}{}", d, base));
            cands.push(format!("{}_{}", d, base));
        } else {
            cands.push(format!("{}{}.scss", d, base));
            cands.push(format!("{}_{}.scss", d, base));
        }
        let hits: Vec<String> = cands.into_iter().filter(|c| self.files.contains_key(c)).collect();
        if hits.len() == 1 {
            Some(hits[0].clone())
        } else {
            None
        }
    }

    /// syntax-level check of a file: `ns.` followed by a private name is an error wherever it occurs
    fn parse_check(m: &Module) -> R<()> {
        fn ex(e: &Expr) -> R<()> {
            match e {
                Expr::Lit(_) | Expr::Param => Ok(()),
                Expr::Var { ns, name } => {
                    if ns.is_some() && is_private(name) {
                        return err("private variable through a namespace");
                    }
                    Ok(())
                }
                Expr::Call { ns, name, args } => {
                    if ns.is_some() && is_private(name) {
                        return err("private function through a namespace");
                    }
                    for a in args {
                        ex(a)?;
                    }
                    Ok(())
                }
                Expr::Add(a, b) => {
                    ex(a)?;
                    ex(b)
                }
            }
        }
        for v in &m.vars {
            ex(&v.value)?;
        }
        for f in &m.fns {
            ex(&f.body)?;
        }
        for mx in &m.mixins {
            for (_, e) in &mx.body {
                ex(e)?;
            }
        }
        for s in &m.body {
            match s {
                Stmt::Assign { ns, name, value, .. } => {
                    if ns.is_some() && is_private(name) {
                        return err("assignment to a private variable through a namespace");
                    }
                    ex(value)?;
                }
                Stmt::Rule { items, .. } => {
                    for it in items {
                        match it {
                            Item::Decl(_, e) => ex(e)?,
                            Item::Include { ns, name, arg } => {
                                if ns.is_some() && is_private(name) {
                                    return err("private mixin through a namespace");
                                }
                                ex(arg)?;
                            }
                        }
                    }
                }
            }
        }
        Ok(())
    }

    fn load(&mut self, dir: &str, url: &str, cfg: &Config) -> R<Target> {
        self.tick()?;
        let path = match self.resolve(dir, url) {
            Some(p) => p,
            None => return err(format!("cannot find module {}", url)),
        };
        {
            let e = self.spellings.entry(path.clone()).or_default();
            e.insert(format!("{}|{}", dir, url));
            if e.len() > 1 {
                self.tags.insert("same-module-two-spellings".to_string());
            }
        }
        let ast: &'a Module = self.files[&path];
        // the file is parsed before anything else happens
        Self::parse_check(ast)?;
        if self.active.contains(&path) {
            return err("module loop");
        }
        if let Some((idx, orig)) = self.loaded.get(&path).cloned() {
            self.tag("module-loaded-again(cache)");
            if cfg.explicit && orig != cfg.orig {
                if cfg.is_empty() {
                    return Err(Stop::Unsure(
                        "explicit configuration without visible values reaches an already loaded module".into(),
                    ));
                }
                if !self.quirks.no_already_loaded_check {
                    return err("module already loaded, cannot be configured");
                }
                self.tag("q:already-loaded-check-skipped");
            }
            if cfg.explicit && orig == cfg.orig {
                self.tag("same-config-diamond");
            }
            return Ok(Target::Real(idx));
        }
        let idx = self.mods.len();
        self.mods.push(ModState {
            ast,
            dir: match path.rfind('/') {
                Some(i) => path[..=i].to_string(),
                None => String::new(),
            },
            vars: BTreeMap::new(),
            callables_defined: false,
            uses: vec![],
            forwards: vec![],
        });
        self.active.insert(path.clone());
        let r = self.eval_module(idx, cfg);
        self.active.remove(&path);
        r?;
        self.loaded.insert(path, (idx, cfg.orig));
        Ok(Target::Real(idx))
    }

    fn fresh_cfg(&mut self, values: BTreeMap<String, Val>, explicit: bool) -> Config {
        self.next_cfg += 1;
        Config { explicit, orig: self.next_cfg, base: Rc::new(RefCell::new(values)), xf: vec![] }
    }

    fn through_forward(&mut self, cfg: &Config, prefix: &Option<String>, filter: &Filter) -> R<Config> {
        if cfg.is_empty() {
            return Ok(Config::empty());
        }
        let mut c = cfg.clone();
        if self.quirks.forward_loses_explicit && c.explicit {
            c.explicit = false;
            self.tag("q:config-lost-explicit");
        }
        if let Some(p) = prefix {
            c.xf.push(Xf::Unprefix(p.clone()));
        }
        if let Some(x) = filter_var_sets(filter) {
            if let Some(p) = prefix {
                // dart-sass 1.54 compares the show/hide list with the *unprefixed* configuration
                // name although the list is written with prefixed names: not asserted either way
                let list = match &x {
                    Xf::Show(s) | Xf::Hide(s) => s.clone(),
                    _ => BTreeSet::new(),
                };
                for (inner, _) in c.visible() {
                    let a = list.contains(&format!("{}{}", p, inner));
                    let b = list.contains(&inner);
                    if a != b {
                        return Err(Stop::Unsure("configuration through a prefixed and filtered @forward".into()));
                    }
                }
                // both readings agree: use the written (prefixed) one
                let strip = |s: &BTreeSet<String>| -> BTreeSet<String> {
                    s.iter().filter_map(|n| n.strip_prefix(p.as_str()).map(|r| r.to_string())).collect()
                };
                c.xf.push(match &x {
                    Xf::Show(s) => Xf::Show(strip(s)),
                    Xf::Hide(s) => Xf::Hide(strip(s)),
                    o => o.clone(),
                });
            } else {
                c.xf.push(x);
            }
            self.tag("config-through-filtered-forward");
        }
        Ok(c)
    }

    fn eval_module(&mut self, idx: usize, cfg: &Config) -> R<()> {
        let ast = self.mods[idx].ast;
        let dir = self.mods[idx].dir.clone();
        // ---- loads ----
        for l in &ast.loads {
            let builtin = l.url.strip_prefix("sass:").map(|s| s.to_string());
            match &l.kind {
                LoadKind::Use { ns } => {
                    let target = if let Some(b) = &builtin {
                        if !l.with.is_empty() {
                            return err("built-in modules cannot be configured");
                        }
                        Target::Builtin(b.clone())
                    } else if l.with.is_empty() {
                        self.load(&dir, &l.url, &Config::empty())?
                    } else {
                        self.tag("with:use");
                        let mut vals = BTreeMap::new();
                        for w in &l.with {
                            if vals.insert(w.name.clone(), Val::Int(w.value)).is_some() {
                                return err("variable configured twice");
                            }
                        }
                        let c = self.fresh_cfg(vals, true);
                        let t = self.load(&dir, &l.url, &c)?;
                        if !c.is_empty() {
                            return err("configured variable was not declared with !default");
                        }
                        self.tag("with:use-accepted");
                        t
                    };
                    let nsname = match ns {
                        Ns::Star => None,
                        Ns::As(s) => Some(s.clone()),
                        Ns::Default => Some(namespace_of_url(&l.url)),
                    };
                    if let Some(n) = &nsname {
                        if self.mods[idx].uses.iter().any(|(o, _)| o.as_ref() == Some(n)) {
                            return Err(Stop::Unsure("two @use rules with one namespace".into()));
                        }
                    }
                    self.mods[idx].uses.push((nsname, target));
                }
                LoadKind::Forward { prefix, filter } => {
                    let adjusted = self.through_forward(cfg, prefix, filter)?;
                    let target = if !l.with.is_empty() {
                        // the combined configuration is explicit unless it extends an implicit one
                        let explicit = adjusted.explicit || adjusted.is_empty();
                        if builtin.is_some() && explicit {
                            return err("built-in modules cannot be configured");
                        }
                        self.tag("with:forward");
                        let mut vals: BTreeMap<String, Val> = BTreeMap::new();
                        for (inner, key) in adjusted.visible() {
                            let v = adjusted.base.borrow().get(&key).cloned();
                            if let Some(v) = v {
                                vals.insert(inner, v);
                            }
                        }
                        let mut seen = BTreeSet::new();
                        for w in &l.with {
                            if !seen.insert(w.name.clone()) {
                                return err("variable configured twice");
                            }
                            if w.default {
                                if let Some(old) = adjusted.remove(&w.name) {
                                    vals.insert(w.name.clone(), old);
                                    self.tag("with:forward-default-overridden");
                                    continue;
                                }
                            }
                            vals.insert(w.name.clone(), Val::Int(w.value));
                        }
                        let newc = self.fresh_cfg(vals, explicit);
                        let t = match &builtin {
                            Some(b) => Target::Builtin(b.clone()),
                            None => self.load(&dir, &l.url, &newc)?,
                        };
                        // what was consumed upstream is consumed for the downstream configuration too
                        let fixed: BTreeSet<String> =
                            l.with.iter().filter(|w| !w.default).map(|w| w.name.clone()).collect();
                        for (inner, _) in adjusted.visible() {
                            if fixed.contains(&inner) {
                                continue;
                            }
                            if newc.get(&inner).is_none() {
                                adjusted.remove(&inner);
                            }
                        }
                        for w in &l.with {
                            if explicit && newc.get(&w.name).is_some() {
                                return err("@forward configured a variable that was not declared with !default");
                            }
                        }
                        t
                    } else if let Some(b) = &builtin {
                        Target::Builtin(b.clone())
                    } else {
                        if adjusted.explicit {
                            self.tag("config-through-forward");
                        }
                        self.load(&dir, &l.url, &adjusted)?
                    };
                    self.mods[idx].forwards.push((target, prefix.clone(), filter.clone()));
                }
            }
        }
        // ---- variables ----
        for v in &ast.vars {
            self.assign_plain(idx, &v.name, &v.value, v.default, cfg)?;
        }
        self.mods[idx].callables_defined = true;
        // ---- body ----
        for s in &ast.body {
            self.tick()?;
            match s {
                Stmt::Assign { ns: None, name, value, default } => {
                    self.assign_plain(idx, name, value, *default, cfg)?;
                }
                Stmt::Assign { ns: Some(ns), name, value, default } => {
                    let t = self.find_ns(idx, ns)?;
                    match self.lookup(&t, Kind::Var, name)? {
                        None => return err("assignment to an undefined module variable"),
                        // a guarded assignment to an existing (non-null) variable does nothing
                        Some(Origin::Builtin(..)) if *default => self.tag("assign-ns-default-noop"),
                        Some(Origin::Builtin(..)) => return err("cannot modify a built-in variable"),
                        Some(Origin::Real(m, n)) => {
                            if *default {
                                // every value in this model is non-null: a guarded assignment is a no-op
                                self.tag("assign-ns-default-noop");
                            } else {
                                let val = self.eval(value, idx, None)?;
                                self.mods[m].vars.insert(n, val);
                                self.tag("assign-through-namespace");
                            }
                        }
                    }
                }
                Stmt::Rule { selector, items } => {
                    for it in items {
                        match it {
                            Item::Decl(p, e) => {
                                let v = self.eval(e, idx, None)?;
                                self.rows.push((selector.clone(), p.clone(), v.css()));
                            }
                            Item::Include { ns, name, arg } => {
                                let origin = match ns {
                                    Some(ns) => {
                                        let t = self.find_ns(idx, ns)?;
                                        self.lookup(&t, Kind::Mixin, name)?
                                    }
                                    None => self.lookup_plain(idx, Kind::Mixin, name)?,
                                };
                                let (m, n) = match origin {
                                    Some(Origin::Real(m, n)) => (m, n),
                                    _ => return err("undefined mixin"),
                                };
                                let a = self.eval(arg, idx, None)?;
                                let decl = self.mods[m].ast.mixins.iter().find(|x| x.name == n);
                                let decl = match decl {
                                    Some(d) => d,
                                    None => return err("undefined mixin"),
                                };
                                for (p, e) in &decl.body {
                                    let v = self.eval(e, m, Some(&a))?;
                                    self.rows.push((selector.clone(), p.clone(), v.css()));
                                }
                                self.tag("mixin-included");
                            }
                        }
                    }
                }
            }
        }
        Ok(())
    }

    /// `$name: value [!default]` at the root of module `idx` (no namespace): assigns the module's own
    /// variable, else the variable of an `as *` module that has one, else declares a new own variable.
    /// A guarded declaration first takes a configured value (any root `!default` declaration does),
    /// and otherwise only assigns when the variable it would assign is undefined.
    fn assign_plain(&mut self, idx: usize, name: &str, value: &Expr, default: bool, cfg: &Config) -> R<()> {
        let mut via_star = false;
        let target: Option<(usize, String)> = if self.mods[idx].vars.contains_key(name) {
            Some((idx, name.to_string()))
        } else {
            match self.lookup_star(idx, Kind::Var, name)? {
                Some(Origin::Real(m, n)) => {
                    via_star = true;
                    Some((m, n))
                }
                Some(Origin::Builtin(..)) => return err("cannot modify a built-in variable"),
                None => None,
            }
        };
        if default {
            if let Some(val) = cfg.remove(name) {
                self.tag("with:value-consumed");
                let (m, n) = target.unwrap_or((idx, name.to_string()));
                self.mods[m].vars.insert(n, val);
                return Ok(());
            }
            if target.is_some() {
                if via_star && self.quirks.default_guard_ignores_star {
                    self.tag("q:default-guard-ignored-star-variable");
                } else {
                    if via_star {
                        self.tag("default-guard-sees-star-variable");
                    }
                    return Ok(());
                }
            }
        }
        let val = self.eval(value, idx, None)?;
        if via_star {
            self.tag("assign-through-star");
        }
        let (m, n) = target.unwrap_or((idx, name.to_string()));
        self.mods[m].vars.insert(n, val);
        Ok(())
    }

    fn find_ns(&mut self, idx: usize, ns: &str) -> R<Target> {
        match self.mods[idx].uses.iter().find(|(n, _)| n.as_deref() == Some(ns)) {
            Some((_, t)) => Ok(t.clone()),
            None => err(format!("there is no module with the namespace {}", ns)),
        }
    }

    /// member `name` in the public interface of `t`
    fn lookup(&mut self, t: &Target, kind: Kind, name: &str) -> R<Option<Origin>> {
        self.tick()?;
        match t {
            Target::Builtin(b) => {
                if b != "math" {
                    return Err(Stop::Unsure("built-in module other than sass:math".into()));
                }
                let ok = match kind {
                    Kind::Fn => name == "max" || name == "min",
                    Kind::Var => name == "pi" || name == "e",
                    Kind::Mixin => false,
                };
                const OTHER: &[&str] = &[
                    "abs", "ceil", "floor", "round", "clamp", "sqrt", "cos", "sin", "tan", "acos", "asin", "atan",
                    "atan2", "log", "pow", "hypot", "div", "random", "unit", "is-unitless", "compatible", "percentage",
                ];
                if OTHER.contains(&name) {
                    return Err(Stop::Unsure("unmodelled sass:math member".into()));
                }
                Ok(if ok { Some(Origin::Builtin(b.clone(), name.to_string())) } else { None })
            }
            Target::Real(m) => {
                let m = *m;
                let mut found: BTreeSet<Origin> = BTreeSet::new();
                if !is_private(name) {
                    let own = match kind {
                        Kind::Var => self.mods[m].vars.contains_key(name),
                        Kind::Fn => self.mods[m].callables_defined && self.mods[m].ast.fns.iter().any(|f| f.name == name),
                        Kind::Mixin => {
                            self.mods[m].callables_defined && self.mods[m].ast.mixins.iter().any(|f| f.name == name)
                        }
                    };
                    if own {
                        found.insert(Origin::Real(m, name.to_string()));
                    }
                }
                let fwds = self.mods[m].forwards.clone();
                for (ft, prefix, filter) in fwds {
                    let written = if kind == Kind::Var { format!("${}", name) } else { name.to_string() };
                    let allowed = match &filter {
                        Filter::None => true,
                        Filter::Show(l) => l.contains(&written),
                        Filter::Hide(l) => !l.contains(&written),
                    };
                    let inner = match &prefix {
                        Some(p) => match name.strip_prefix(p.as_str()) {
                            Some(r) => r.to_string(),
                            None => continue,
                        },
                        None => name.to_string(),
                    };
                    if !allowed && !self.quirks.ignore_filters {
                        // remember that a filter decided something (only if the member exists behind it)
                        if self.lookup(&ft, kind, &inner)?.is_some() {
                            self.tag("member-blocked-by-show/hide");
                        }
                        continue;
                    }
                    if let Some(o) = self.lookup(&ft, kind, &inner)? {
                        if prefix.is_some() {
                            self.tag("member-through-prefixed-forward");
                        }
                        if filter != Filter::None {
                            self.tag("member-through-filtered-forward");
                            if !allowed {
                                self.tag("q:filter-ignored");
                            }
                        }
                        self.tag("member-through-forward");
                        found.insert(o);
                    }
                }
                if found.len() > 1 {
                    return Err(Stop::Unsure("two different members under one name in a public interface".into()));
                }
                Ok(found.into_iter().next())
            }
        }
    }

    /// members reachable without a namespace through `as *` uses of module `idx`
    fn lookup_star(&mut self, idx: usize, kind: Kind, name: &str) -> R<Option<Origin>> {
        let stars: Vec<Target> =
            self.mods[idx].uses.iter().filter(|(n, _)| n.is_none()).map(|(_, t)| t.clone()).collect();
        let mut found: BTreeSet<Origin> = BTreeSet::new();
        for t in stars {
            if let Target::Builtin(_) = t {
                // global functions exist anyway; the generator never refers to sass:math members without namespace
                if name == "max" || name == "min" || name == "pi" || name == "e" {
                    return Err(Stop::Unsure("sass:math member without namespace".into()));
                }
                continue;
            }
            if let Some(o) = self.lookup(&t, kind, name)? {
                found.insert(o);
            }
        }
        if found.len() > 1 {
            return Err(Stop::Unsure("member available from several `as *` modules".into()));
        }
        if !found.is_empty() {
            self.tag("member-through-star");
        }
        Ok(found.into_iter().next())
    }

    /// un-namespaced function or mixin: own definitions, then `as *` modules
    fn lookup_plain(&mut self, idx: usize, kind: Kind, name: &str) -> R<Option<Origin>> {
        let own = self.mods[idx].callables_defined
            && match kind {
                Kind::Fn => self.mods[idx].ast.fns.iter().any(|f| f.name == name),
                Kind::Mixin => self.mods[idx].ast.mixins.iter().any(|f| f.name == name),
                Kind::Var => false,
            };
        if own {
            return Ok(Some(Origin::Real(idx, name.to_string())));
        }
        self.lookup_star(idx, kind, name)
    }

    fn eval(&mut self, e: &Expr, idx: usize, param: Option<&Val>) -> R<Val> {
        self.tick()?;
        match e {
            Expr::Lit(n) => Ok(Val::Int(*n)),
            Expr::Param => match param {
                Some(v) => Ok(v.clone()),
                None => err("undefined variable $x"),
            },
            Expr::Var { ns: None, name } => {
                if let Some(v) = self.mods[idx].vars.get(name) {
                    return Ok(v.clone());
                }
                match self.lookup_star(idx, Kind::Var, name)? {
                    Some(Origin::Real(m, n)) => Ok(self.mods[m].vars[&n].clone()),
                    Some(Origin::Builtin(..)) => Err(Stop::Unsure("built-in variable read".into())),
                    None => err(format!("undefined variable ${}", name)),
                }
            }
            Expr::Var { ns: Some(ns), name } => {
                let t = self.find_ns(idx, ns)?;
                match self.lookup(&t, Kind::Var, name)? {
                    Some(Origin::Real(m, n)) => Ok(self.mods[m].vars[&n].clone()),
                    Some(Origin::Builtin(..)) => Err(Stop::Unsure("built-in variable read".into())),
                    None => err(format!("undefined variable {}.${}", ns, name)),
                }
            }
            Expr::Call { ns, name, args } => {
                let origin = match ns {
                    Some(ns) => {
                        let t = self.find_ns(idx, ns)?;
                        match self.lookup(&t, Kind::Fn, name)? {
                            Some(o) => Some(o),
                            None if self.quirks.ns_call_falls_back_to_global && (name == "max" || name == "min") => {
                                self.tag("q:namespaced-call-fell-back-to-global");
                                Some(Origin::Builtin("math".to_string(), name.clone()))
                            }
                            None => return err("undefined function in module"),
                        }
                    }
                    None => match self.lookup_plain(idx, Kind::Fn, name)? {
                        Some(o) => Some(o),
                        // the global functions min()/max() exist in every module without any @use
                        // (thorough-tier false alarm: the model printed `min(0)` as plain CSS)
                        None if name == "max" || name == "min" => {
                            self.tag("global-min-max");
                            Some(Origin::Builtin("math".to_string(), name.clone()))
                        }
                        None => None,
                    },
                };
                let mut vals = vec![];
                for a in args {
                    vals.push(self.eval(a, idx, param)?);
                }
                match origin {
                    None => {
                        // not a Sass function: emitted as a plain CSS function
                        self.tag("plain-css-function-fallthrough");
                        let parts: Vec<String> = vals.iter().map(|v| v.css()).collect();
                        Ok(Val::Text(format!("{}({})", name, parts.join(", "))))
                    }
                    Some(Origin::Builtin(_, f)) => {
                        let mut ints = vec![];
                        for v in &vals {
                            match v {
                                Val::Int(n) => ints.push(*n),
                                Val::Text(_) => return err("math.max/min of a non-number"),
                            }
                        }
                        if ints.is_empty() {
                            return err("math.max/min without arguments");
                        }
                        self.tag("builtin-function-through-module");
                        Ok(Val::Int(if f == "max" {
                            *ints.iter().max().unwrap()
                        } else {
                            *ints.iter().min().unwrap()
                        }))
                    }
                    Some(Origin::Real(m, n)) => {
                        if vals.len() != 1 {
                            return err("wrong number of arguments");
                        }
                        let body = match self.mods[m].ast.fns.iter().find(|f| f.name == n) {
                            Some(f) => &f.body,
                            None => return err("undefined function"),
                        };
                        let a = vals.pop().unwrap();
                        self.eval(body, m, Some(&a))
                    }
                }
            }
            Expr::Add(a, b) => {
                let x = self.eval(a, idx, param)?;
                let y = self.eval(b, idx, param)?;
                Ok(match (x, y) {
                    (Val::Int(p), Val::Int(q)) => Val::Int(p + q),
                    (p, q) => Val::Text(format!("{}{}", p.css(), q.css())),
                })
            }
        }
    }
}

/// Sass identifiers treat `_` and `-` as the same character: bring every member name to the `-` form
fn normalize_names(p: &Project) -> Project {
    fn n(s: &str) -> String {
        s.replace('_', "-")
    }
    fn ex(e: &mut Expr) {
        match e {
            Expr::Lit(_) | Expr::Param => {}
            Expr::Var { name, .. } => *name = n(name),
            Expr::Call { name, args, .. } => {
                *name = n(name);
                for a in args {
                    ex(a);
                }
            }
            Expr::Add(a, b) => {
                ex(a);
                ex(b);
            }
        }
    }
    let mut p = p.clone();
    for m in &mut p.mods {
        for l in &mut m.loads {
            for w in &mut l.with {
                w.name = n(&w.name);
            }
            if let LoadKind::Forward { prefix, filter } = &mut l.kind {
                if let Some(pf) = prefix {
                    *pf = n(pf);
                }
                match filter {
                    Filter::Show(v) | Filter::Hide(v) => {
                        for e in v.iter_mut() {
                            *e = n(e);
                        }
                    }
                    Filter::None => {}
                }
            }
        }
        for v in &mut m.vars {
            v.name = n(&v.name);
            ex(&mut v.value);
        }
        for f in &mut m.fns {
            f.name = n(&f.name);
            ex(&mut f.body);
        }
        for mx in &mut m.mixins {
            mx.name = n(&mx.name);
            for (_, e) in &mut mx.body {
                ex(e);
            }
        }
        for s in &mut m.body {
            match s {
                Stmt::Assign { name, value, .. } => {
                    *name = n(name);
                    ex(value);
                }
                Stmt::Rule { items, .. } => {
                    for it in items {
                        match it {
                            Item::Decl(_, e) => ex(e),
                            Item::Include { name, arg, .. } => {
                                *name = n(name);
                                ex(arg);
                            }
                        }
                    }
                }
            }
        }
    }
    p
}

pub fn run_model(p: &Project, quirks: Quirks) -> ModelResult {
    let normalized = normalize_names(p);
    let p = &normalized;
    let mut files = BTreeMap::new();
    for m in &p.mods {
        if files.insert(m.file.clone(), m).is_some() {
            return ModelResult { expect: Expect::Unsure("duplicate file".into()), tags: BTreeSet::new() };
        }
    }
    let entry = match p.mods.last() {
        Some(m) => m,
        None => return ModelResult { expect: Expect::Unsure("empty project".into()), tags: BTreeSet::new() },
    };
    let mut model = Model {
        files,
        quirks,
        mods: vec![],
        loaded: BTreeMap::new(),
        active: BTreeSet::new(),
        rows: vec![],
        tags: BTreeSet::new(),
        next_cfg: 0,
        steps: 0,
        spellings: BTreeMap::new(),
    };
    let r = (|| -> R<()> {
        Model::parse_check(entry)?;
        model.mods.push(ModState {
            ast: entry,
            dir: match entry.file.rfind('/') {
                Some(i) => entry.file[..=i].to_string(),
                None => String::new(),
            },
            vars: BTreeMap::new(),
            callables_defined: false,
            uses: vec![],
            forwards: vec![],
        });
        model.active.insert(entry.file.clone());
        model.eval_module(0, &Config::empty())
    })();
    let expect = match r {
        Ok(()) => Expect::Ok(std::mem::take(&mut model.rows)),
        Err(Stop::Error(e)) => Expect::Error(e),
        Err(Stop::Unsure(e)) => Expect::Unsure(e),
    };
    ModelResult { expect, tags: model.tags }
}

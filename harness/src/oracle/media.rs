//! Independent media-query reader and truth-table evaluator (Media Queries Level 3 grammar, the
//! part Sass merges): a query list is a comma separated disjunction of queries
//! `[not|only] <type> [and (<feature>)]*` or `(<feature>) [and (<feature>)]*`.
//! Feature conditions are opaque: a condition is identified by its whitespace-normalised text and
//! is an independent boolean of the environment. Nothing here looks at grass.

use serde::{Deserialize, Serialize};
use std::collections::BTreeSet;

#[derive(Clone, Debug, PartialEq, Eq, Hash, Serialize, Deserialize)]
pub struct MQuery {
    /// as written (`not`, `only`, `NOT`, ...)
    pub modifier: Option<String>,
    /// as written
    pub ty: Option<String>,
    /// each condition with its parentheses, inner whitespace collapsed: `(min-width: 100px)`
    pub feats: Vec<String>,
}

impl MQuery {
    pub fn negated(&self) -> bool {
        self.modifier
            .as_deref()
            .map(|m| m.eq_ignore_ascii_case("not"))
            .unwrap_or(false)
    }
    /// lower-cased media type; None for "no type" and for `all`
    pub fn concrete_type(&self) -> Option<String> {
        match &self.ty {
            None => None,
            Some(t) if t.eq_ignore_ascii_case("all") => None,
            Some(t) => Some(t.to_ascii_lowercase()),
        }
    }
    pub fn is_all(&self) -> bool {
        self.ty
            .as_deref()
            .map(|t| t.eq_ignore_ascii_case("all"))
            .unwrap_or(false)
    }
    pub fn text(&self) -> String {
        let mut parts: Vec<String> = vec![];
        let mut head = String::new();
        if let Some(m) = &self.modifier {
            head.push_str(m);
            head.push(' ');
        }
        if let Some(t) = &self.ty {
            head.push_str(t);
            parts.push(head);
        }
        for f in &self.feats {
            parts.push(f.clone());
        }
        parts.join(" and ")
    }
}

pub fn list_text(l: &[MQuery]) -> String {
    l.iter().map(|q| q.text()).collect::<Vec<_>>().join(", ")
}

/// collapse whitespace runs; no space directly inside the parentheses
pub fn norm_feature(s: &str) -> String {
    let mut out = String::new();
    let mut ws = false;
    let mut colon_seen = false;
    for c in s.trim().chars() {
        if c.is_whitespace() {
            ws = true;
            continue;
        }
        if c == ':' && !colon_seen {
            // `(name: value)` – Sass itself prints the first colon this way whatever the source spacing
            colon_seen = true;
            out.push_str(": ");
            ws = false;
            continue;
        }
        if ws && !out.is_empty() && !out.ends_with('(') && !out.ends_with(": ") && c != ')' {
            out.push(' ');
        }
        ws = false;
        out.push(c);
    }
    out
}

#[derive(Debug, Clone, PartialEq)]
enum Piece {
    Word(String),
    Group(String),
}

/// split one query (no top-level comma inside) into words and parenthesised groups; `and(` – a
/// word glued to a parenthesis – is a function token in CSS and therefore not a media query
fn pieces(q: &str) -> Result<Vec<Piece>, String> {
    let cs: Vec<char> = q.chars().collect();
    let mut i = 0;
    let mut out = vec![];
    while i < cs.len() {
        let c = cs[i];
        if c.is_whitespace() {
            i += 1;
            continue;
        }
        if c == '(' {
            let start = i;
            let mut depth = 0i32;
            let mut in_str: Option<char> = None;
            while i < cs.len() {
                let d = cs[i];
                if let Some(qc) = in_str {
                    if d == '\\' {
                        i += 1;
                    } else if d == qc {
                        in_str = None;
                    }
                } else if d == '"' || d == '\'' {
                    in_str = Some(d);
                } else if d == '(' {
                    depth += 1;
                } else if d == ')' {
                    depth -= 1;
                    if depth == 0 {
                        break;
                    }
                }
                i += 1;
            }
            if i >= cs.len() {
                return Err(format!("unbalanced parenthesis in {:?}", q));
            }
            let g: String = cs[start..=i].iter().collect();
            i += 1;
            if i < cs.len() && !cs[i].is_whitespace() {
                return Err(format!("no whitespace after ')' in {:?}", q));
            }
            out.push(Piece::Group(norm_feature(&g)));
        } else if c.is_ascii_alphabetic() || c == '-' || c == '_' {
            let start = i;
            while i < cs.len() && (cs[i].is_ascii_alphanumeric() || cs[i] == '-' || cs[i] == '_') {
                i += 1;
            }
            if i < cs.len() && !cs[i].is_whitespace() {
                return Err(format!("word not followed by whitespace in {:?}", q));
            }
            out.push(Piece::Word(cs[start..i].iter().collect()));
        } else {
            return Err(format!("unexpected {:?} in media query {:?}", c, q));
        }
    }
    Ok(out)
}

fn split_top_commas(s: &str) -> Vec<String> {
    let mut out = vec![];
    let mut cur = String::new();
    let mut depth = 0i32;
    let mut in_str: Option<char> = None;
    let mut esc = false;
    for c in s.chars() {
        if let Some(q) = in_str {
            cur.push(c);
            if esc {
                esc = false;
            } else if c == '\\' {
                esc = true;
            } else if c == q {
                in_str = None;
            }
            continue;
        }
        match c {
            '"' | '\'' => {
                in_str = Some(c);
                cur.push(c);
            }
            '(' => {
                depth += 1;
                cur.push(c);
            }
            ')' => {
                depth -= 1;
                cur.push(c);
            }
            ',' if depth == 0 => {
                out.push(std::mem::take(&mut cur));
            }
            _ => cur.push(c),
        }
    }
    out.push(cur);
    out
}

pub fn parse_query(q: &str) -> Result<MQuery, String> {
    let ps = pieces(q)?;
    if ps.is_empty() {
        return Err("empty media query".into());
    }
    let mut k = 0;
    let mut modifier = None;
    let mut ty = None;
    let mut feats = vec![];
    let is_kw = |w: &str, kw: &str| w.eq_ignore_ascii_case(kw);
    match &ps[0] {
        Piece::Word(w) => {
            if is_kw(w, "not") || is_kw(w, "only") {
                modifier = Some(w.clone());
                k = 1;
            }
            match ps.get(k) {
                Some(Piece::Word(t)) => {
                    if is_kw(t, "and") || is_kw(t, "or") || is_kw(t, "not") || is_kw(t, "only") {
                        return Err(format!("keyword {:?} where a media type is expected in {:?}", t, q));
                    }
                    ty = Some(t.clone());
                    k += 1;
                }
                _ => return Err(format!("media type expected in {:?} (level 3 grammar)", q)),
            }
        }
        Piece::Group(g) => {
            feats.push(g.clone());
            k = 1;
        }
    }
    while k < ps.len() {
        match (&ps[k], ps.get(k + 1)) {
            (Piece::Word(a), Some(Piece::Group(g))) if is_kw(a, "and") => {
                feats.push(g.clone());
                k += 2;
            }
            _ => return Err(format!("`and (<feature>)` expected at piece {} of {:?}", k, q)),
        }
    }
    Ok(MQuery { modifier, ty, feats })
}

/// `text` = the prelude after `@media`
pub fn parse_list(text: &str) -> Result<Vec<MQuery>, String> {
    split_top_commas(text).iter().map(|q| parse_query(q)).collect()
}

/// an at-rule prelude as rendered by `oracle::css` (`@media screen and (color)`) -> query list;
/// Ok(None) when the at-rule is not `@media`
pub fn parse_at_media(prelude: &str) -> Result<Option<Vec<MQuery>>, String> {
    let p = prelude.trim_start();
    let lower = p.to_ascii_lowercase();
    if !lower.starts_with("@media") {
        return Ok(None);
    }
    let rest = &p[6..];
    if !rest.is_empty() && !rest.starts_with(|c: char| c.is_whitespace() || c == '(') {
        return Ok(None); // e.g. @media-foo
    }
    parse_list(rest).map(Some)
}

pub const ENV_TYPES: [&str; 3] = ["screen", "print", "tv"];

/// The environments: media type ∈ {screen, print, tv} × all truth assignments to `feats`.
#[derive(Clone, Debug)]
pub struct Universe {
    pub feats: Vec<String>,
}

/// a set of environments as a bit vector; environment index = type_index << n | assignment
#[derive(Clone, Debug, PartialEq, Eq, Hash)]
pub struct EnvSet(pub Vec<u64>);

impl Universe {
    pub fn new<'a>(feats: impl IntoIterator<Item = &'a String>) -> Universe {
        let set: BTreeSet<String> = feats.into_iter().cloned().collect();
        Universe {
            feats: set.into_iter().collect(),
        }
    }
    pub fn n_envs(&self) -> usize {
        ENV_TYPES.len() << self.feats.len()
    }
    fn words(&self) -> usize {
        (self.n_envs() + 63) / 64
    }
    pub fn full(&self) -> EnvSet {
        let mut v = vec![0u64; self.words()];
        for e in 0..self.n_envs() {
            v[e / 64] |= 1 << (e % 64);
        }
        EnvSet(v)
    }
    pub fn feat_index(&self, f: &str) -> Option<usize> {
        self.feats.iter().position(|x| x == f)
    }
    /// truth of one query in one environment; Err if the query uses a condition outside the universe
    pub fn query_true(&self, q: &MQuery, env: usize) -> Result<bool, String> {
        let n = self.feats.len();
        let ty = ENV_TYPES[env >> n];
        let assign = env & ((1 << n) - 1);
        let type_ok = match q.concrete_type() {
            None => true,
            Some(t) => t == ty,
        };
        let mut all = type_ok;
        for f in &q.feats {
            let k = self
                .feat_index(f)
                .ok_or_else(|| format!("condition {} is not one of the source conditions", f))?;
            if assign >> k & 1 == 0 {
                all = false;
            }
        }
        Ok(if q.negated() { !all } else { all })
    }
    /// environments satisfying the list (a disjunction)
    pub fn eval_list(&self, l: &[MQuery]) -> Result<EnvSet, String> {
        let mut v = vec![0u64; self.words()];
        for e in 0..self.n_envs() {
            let mut any = false;
            for q in l {
                if self.query_true(q, e)? {
                    any = true;
                }
            }
            if any {
                v[e / 64] |= 1 << (e % 64);
            }
        }
        Ok(EnvSet(v))
    }
    pub fn describe_env(&self, env: usize) -> String {
        let n = self.feats.len();
        let mut s = ENV_TYPES[env >> n].to_string();
        for (k, f) in self.feats.iter().enumerate() {
            s.push_str(if env >> k & 1 == 1 { " " } else { " !" });
            s.push_str(f);
        }
        s
    }
}

impl EnvSet {
    pub fn and(&self, o: &EnvSet) -> EnvSet {
        EnvSet(self.0.iter().zip(&o.0).map(|(a, b)| a & b).collect())
    }
    pub fn is_empty(&self) -> bool {
        self.0.iter().all(|w| *w == 0)
    }
    pub fn count(&self) -> u32 {
        self.0.iter().map(|w| w.count_ones()).sum()
    }
    pub fn contains(&self, e: usize) -> bool {
        self.0[e / 64] >> (e % 64) & 1 == 1
    }
    /// first environment in which the two sets differ
    pub fn first_difference(&self, o: &EnvSet) -> Option<usize> {
        for (i, (a, b)) in self.0.iter().zip(&o.0).enumerate() {
            let d = a ^ b;
            if d != 0 {
                return Some(i * 64 + d.trailing_zeros() as usize);
            }
        }
        None
    }
}

#[cfg(test)]
mod tests {
    use super::*;
    #[test]
    fn parse_and_eval() {
        let l = parse_at_media("@media not screen and (min-width:  100px), (color) and (grid)").unwrap().unwrap();
        assert_eq!(l.len(), 2);
        assert!(l[0].negated());
        assert_eq!(l[0].feats, vec!["(min-width: 100px)"]);
        assert_eq!(l[1].ty, None);
        let u = Universe::new(l.iter().flat_map(|q| q.feats.iter()));
        assert_eq!(u.n_envs(), 24);
        let s = u.eval_list(&l).unwrap();
        // not(screen & mw) | (color & grid): screen: 4 (mw false) + 1 (mw true, color, grid) = 5; print, tv: 8 each
        assert_eq!(s.count(), 21);
        assert!(parse_at_media("@media screen and(color)").is_err());
        assert!(parse_at_media("@media not (color)").is_err());
        assert!(parse_at_media("@supports (a: b)").unwrap().is_none());
        assert_eq!(parse_at_media("@media screen,print").unwrap().unwrap().len(), 2);
        let a = parse_list("only screen").unwrap();
        let b = parse_list("print").unwrap();
        let u = Universe::new(std::iter::empty());
        assert!(u.eval_list(&a).unwrap().and(&u.eval_list(&b).unwrap()).is_empty());
        assert_eq!(u.eval_list(&parse_list("not print").unwrap()).unwrap().count(), 2);
        assert_eq!(u.eval_list(&parse_list("ALL").unwrap()).unwrap().count(), 3);
    }
}

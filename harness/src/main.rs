//! vp — property-based verification driver for connorskees/grass (see /verif/DESIGN.md).
#![allow(clippy::all)]
#![allow(dead_code)]

mod corpus;
mod engine;
mod gen;
mod oracle;
mod props;

use engine::*;

macro_rules! dispatch {
    ($id:expr, $f:ident, $($args:expr),*) => {
        match $id {
            "C01" => $f(&props::c01::C01, $($args),*),
            "C02" => $f(&props::c02::C02, $($args),*),
            "C05" => $f(&props::c05::C05, $($args),*),
            "C06" => $f(&props::c06::C06, $($args),*),
            "C13" => $f(&props::c13::C13, $($args),*),
            "C17" => $f(&props::c17::C17, $($args),*),
            "C15" => $f(&props::c15::C15, $($args),*),
            "C04" => $f(&props::c04::C04, $($args),*),
            "C09" => $f(&props::c09::C09, $($args),*),
            "C14" => $f(&props::c14::C14, $($args),*),
            "C16" => $f(&props::c16::C16, $($args),*),
            "C07" => $f(&props::c07::C07, $($args),*),
            "C08" => $f(&props::c08::C08, $($args),*),
            "C10" => $f(&props::c10::C10, $($args),*),
            "C11" => $f(&props::c11::C11, $($args),*),
            "C12" => $f(&props::c12::C12, $($args),*),
            "C18" => $f(&props::c18::C18, $($args),*),
            "C03" => $f(&props::c03::C03, $($args),*),
            "C19" => $f(&props::c19::C19, $($args),*),
            "C20" => $f(&props::c20::C20, $($args),*),
            other => {
                eprintln!("unknown property {}", other);
                2
            }
        }
    };
}

fn gen_samples<P: Prop>(p: &P, tier: Tier, n: usize) -> i32 {
    if let Some((s, _)) = p.strategy(tier) {
        for c in sample_strategy(&s, n, env_seed()) {
            println!("{}", serde_json::to_string(&c).unwrap());
        }
    }
    0
}

fn main() {
    let args: Vec<String> = std::env::args().collect();
    if args.len() >= 3 && args[1] == "--worker" {
        engine::worker::worker_main(&args[2]);
    }
    let cmd = args.get(1).map(|s| s.as_str()).unwrap_or("");
    let code = match cmd {
        "check" => {
            let id = args.get(2).map(|s| s.as_str()).unwrap_or("");
            let tier = match args
                .get(3)
                .cloned()
                .or_else(|| std::env::var("VERIF_TIER").ok())
                .as_deref()
            {
                Some("thorough") => Tier::Thorough,
                _ => Tier::Quick,
            };
            let seed = env_seed();
            dispatch!(id, run, tier, seed)
        }
        "replay" => {
            let path = args.get(2).cloned().unwrap_or_default();
            let txt = std::fs::read_to_string(&path).unwrap_or_else(|e| {
                eprintln!("cannot read {}: {}", path, e);
                std::process::exit(2);
            });
            let rf: ReplayFile = serde_json::from_str(&txt).unwrap_or_else(|e| {
                eprintln!("bad replay file: {}", e);
                std::process::exit(2);
            });
            let id = rf.property.clone();
            dispatch!(id.as_str(), replay, &rf, &path)
        }
        "gen" => {
            let id = args.get(2).map(|s| s.as_str()).unwrap_or("");
            let n = args.get(3).and_then(|s| s.parse().ok()).unwrap_or(10);
            dispatch!(id, gen_samples, Tier::Quick, n)
        }
        "compile" => {
            // ad-hoc probe: vp compile [--sass|--css] [--compressed] [--file name=content]... < input
            use std::io::Read;
            let mut text = String::new();
            std::io::stdin().read_to_string(&mut text).ok();
            let mut s = Single::scss(text);
            for a in &args[2..] {
                match a.as_str() {
                    "--sass" => s.syntax = Some(Syntax::Sass),
                    "--css" => s.syntax = Some(Syntax::Css),
                    "--compressed" => s.style = Style::Compressed,
                    "--quiet" => s.quiet = true,
                    "--ascii" => s.unicode = false,
                    other => {
                        if let Some((n, c)) = other.strip_prefix("--file=").and_then(|x| x.split_once('=')) {
                            s.files.push((n.to_string(), Bytes::Text(c.replace("\\n", "\n"))));
                        }
                    }
                }
            }
            let mut w = Worker::new();
            let r = w.one(&s);
            println!("{}", r.outcome.text());
            for l in &r.logs {
                println!("LOG {} {}:{}:{} {}", l.kind, l.file, l.line, l.col, l.message);
            }
            for c in &r.fs_calls {
                println!("FS {} {} {}", c.op, c.path, c.hit);
            }
            0
        }
        _ => {
            eprintln!("usage: vp check <Cxx> [quick|thorough] | vp replay <file> | vp gen <Cxx> [n]");
            2
        }
    };
    std::process::exit(code);
}

//! C12 — modules load once, stay isolated and expose only public members; `with` configuration;
//! built-in module functions equal their global aliases.

use crate::engine::*;
use crate::gen::project::*;
use crate::gen::text::ARG_VALUES;
use crate::oracle::css;
use crate::oracle::modules::*;
use proptest::prelude::*;
use serde::{Deserialize, Serialize};
use serde_json::json;

pub struct C12;

/// Finding #8 (`@forward … show/hide` does not restrict visibility): while `true`, projects whose
/// expected outcome depends on a show/hide list *and* on which grass behaves exactly like the
/// "lists ignored" variant of the model are counted as excluded instead of failing. Set to `false`
/// once the defect is repaired in /repo (the check then asserts the full model everywhere).
pub const EXCLUDE_FINDING_8: bool = false;
/// Finding #22b (an explicit configuration reaching an already loaded module through `@forward` is
/// accepted when nothing is left over): same mechanism.
pub const EXCLUDE_FINDING_22B: bool = true;

/// Finding #30 (a configuration that passed through an `@forward` is treated as implicit, so an
/// `@forward … with` variable that configures nothing is not reported): same mechanism.
pub const EXCLUDE_FINDING_30: bool = false;

/// Finding #31 (`$v: x !default` overwrites the non-null `$v` of a module used `as *`): same mechanism.
pub const EXCLUDE_FINDING_31: bool = false;

/// Finding #33 (`ns.f()` falls back to the global built-in `f`): same mechanism.
pub const EXCLUDE_FINDING_33: bool = false;

pub struct Known {
    pub id: &'static str,
    pub sig: &'static str,
    pub exclude: bool,
    pub what: &'static str,
}

/// bit i of a variant mask = KNOWN[i]
pub const KNOWN: [Known; 5] = [
    Known {
        id: "forward-show-hide-ignored",
        sig: "C12/forward-show-hide-ignored",
        exclude: EXCLUDE_FINDING_8,
        what: "grass behaves as if the show/hide list of an @forward were absent",
    },
    Known {
        id: "already-loaded-module-configured",
        sig: "C12/already-loaded-module-configured",
        exclude: EXCLUDE_FINDING_22B,
        what: "a `with` configuration reached a module that was already loaded and was accepted",
    },
    Known {
        id: "forward-with-unused-variable-accepted",
        sig: "C12/forward-with-unused-variable-accepted",
        exclude: EXCLUDE_FINDING_30,
        what: "an `@forward ... with` variable that configured nothing was accepted because a downstream `with` was present",
    },
    Known {
        id: "default-overwrites-star-variable",
        sig: "C12/default-overwrites-star-variable",
        exclude: EXCLUDE_FINDING_31,
        what: "`$v: x !default` at the root overwrote the non-null variable $v of a module used `as *`",
    },
    Known {
        id: "namespaced-call-falls-back-to-global",
        sig: "C12/namespaced-call-falls-back-to-global",
        exclude: EXCLUDE_FINDING_33,
        what: "`ns.f()` called the global built-in `f` although module `ns` has no member `f`",
    },
];

/// all non-empty subsets of KNOWN, smallest first; among equal sizes the subsets made only of
/// findings that are still excluded (= not yet repaired) come first
fn mask_order() -> Vec<u8> {
    let mut v: Vec<u8> = (1u8..(1 << KNOWN.len())).collect();
    let open = |m: u8| (0..KNOWN.len()).filter(|b| m & (1 << b) != 0).all(|b| KNOWN[b].exclude);
    v.sort_by_key(|m| (m.count_ones(), !open(*m), *m));
    v
}

fn quirks_of(mask: u8) -> Quirks {
    Quirks {
        ignore_filters: mask & 1 != 0,
        no_already_loaded_check: mask & 2 != 0,
        forward_loses_explicit: mask & 4 != 0,
        default_guard_ignores_star: mask & 8 != 0,
        ns_call_falls_back_to_global: mask & 16 != 0,
    }
}

#[derive(Clone, Debug, Serialize, Deserialize)]
pub struct AliasCase {
    pub module: String,
    pub func: String,
    pub alias: String,
    pub args: Vec<String>,
    #[serde(default)]
    pub enumerated: bool,
}

#[derive(Clone, Debug, Serialize, Deserialize)]
pub enum Case {
    Project(Project),
    Alias(AliasCase),
    Scenario(Scenario),
}

/// Parametrised families with hand-derived expectations for semantics the project generator's
/// AST cannot express: guarded declarations that are NOT at the top level of a configured module
/// (inside a style rule or a mixin) are ordinary local `!default` assignments – they never consume
/// a `with` value and never make a variable configurable.
#[derive(Clone, Debug, Serialize, Deserialize)]
pub struct Scenario {
    pub kind: u8,
    pub n: i64,
    pub m: i64,
    pub k: i64,
}

fn scenario_files(s: &Scenario) -> (Vec<(String, String)>, Result<Vec<(String, String, String)>, &'static str>) {
    let (n, m, k) = (s.n, s.m, s.k);
    let entry = format!("@use \"lib\" with ($w: {});\n.e {{\n  seen: lib.$w;\n}}\n", n);
    let row = |sel: &str, p: &str, v: i64| (sel.to_string(), p.to_string(), v.to_string());
    match s.kind % 4 {
        0 => (
            vec![("entry.scss".into(), format!("@use \"lib\" with ($w: {});\n", n)), ("_lib.scss".into(), format!("a {{\n  $w: {} !default;\n  b: $w;\n}}\n", m))],
            Err("the configured variable is only declared inside a style rule"),
        ),
        1 => (
            vec![("entry.scss".into(), entry), ("_lib.scss".into(), format!("a {{\n  $w: {} !default;\n  b: $w;\n}}\n$w: {} !default;\nc {{\n  d: $w;\n}}\n", m, k))],
            Ok(vec![row("a", "b", m), row("c", "d", n), row(".e", "seen", n)]),
        ),
        2 => (
            vec![("entry.scss".into(), entry), ("_lib.scss".into(), format!("@mixin mx {{\n  $w: {} !default;\n  x: $w;\n}}\n$w: {} !default;\nc {{\n  @include mx;\n  d: $w;\n}}\n", m, k))],
            Ok(vec![row("c", "x", n), row("c", "d", n), row(".e", "seen", n)]),
        ),
        _ => (
            vec![("entry.scss".into(), format!("@use \"lib\" with ($w: {});\n", n)), ("_lib.scss".into(), format!("@mixin mx {{\n  $w: {} !default;\n  x: $w;\n}}\nc {{\n  @include mx;\n}}\n", m))],
            Err("the configured variable is only declared inside a mixin"),
        ),
    }
}

fn check_scenario(s: &Scenario, cx: &mut Ctx) -> Verdict {
    let (files, expect) = scenario_files(s);
    let mut single = Single::scss("");
    for (n, t) in &files {
        single.files.push((n.clone(), Bytes::Text(t.clone())));
    }
    single.entry = Entry::Path("entry.scss".into());
    let res = cx.compile(&single);
    cx.class(&format!("scenario:{}", s.kind % 4));
    cx.nontrivial(&(s.kind % 4, s.n, s.m, s.k));
    cx.sample_nontrivial(|| json!({"scenario": s.kind % 4, "files": files}));
    let details = json!({"files": files, "observed": res.outcome.short()});
    match (&expect, &res.outcome) {
        (Err(_), Outcome::Error(_)) => Verdict::Pass,
        (Err(why), Outcome::Css(_)) => Verdict::Fail(Failure::new(
            "C12/nested-default-consumes-configuration:accepted",
            format!("`with` must be rejected ({}), but the project compiled", why),
            details,
        )),
        (Ok(rows), Outcome::Css(c)) => {
            let got: Vec<(String, String, String)> = css::rows(c).into_iter().map(|r| (r.selector, r.prop, r.value)).collect();
            if &got == rows {
                Verdict::Pass
            } else {
                Verdict::Fail(Failure::new(
                    "C12/nested-default-consumes-configuration:values",
                    "a guarded declaration inside a rule or mixin interfered with the module's configuration",
                    json!({"expected": rows, "got": got, "files": files}),
                ))
            }
        }
        (Ok(_), Outcome::Error(e)) => Verdict::Fail(Failure::new(
            "C12/nested-default-consumes-configuration:rejected",
            format!("a valid configuration was rejected: {}", e.message),
            details,
        )),
        _ => {
            cx.inconclusive("abnormal");
            Verdict::Discard
        }
    }
}

/// (module, module function, global alias, one well-typed argument list) — from the "Built-In
/// Modules" pages of the Sass documentation: every module function that lists a global name.
/// Not listed there (no global alias): math.div/clamp/sqrt/…, list.slash, map.set/deep-*, color.hwb/
/// whiteness/blackness, string.split, meta.module-*/load-css/calc-args/calc-name. Excluded because non-deterministic:
/// math.random/random, string.unique-id/unique-id.
pub const ALIASES: &[(&str, &str, &str, &str)] = &[
    ("math", "ceil", "ceil", "1.5"),
    ("math", "floor", "floor", "1.5"),
    ("math", "round", "round", "1.5"),
    ("math", "abs", "abs", "-1"),
    ("math", "percentage", "percentage", "0.5"),
    ("math", "unit", "unit", "1px"),
    ("math", "is-unitless", "unitless", "1"),
    ("math", "compatible", "comparable", "1px, 1in"),
    ("list", "append", "append", "$l, 4"),
    ("list", "index", "index", "$l, 2"),
    ("list", "is-bracketed", "is-bracketed", "[1]"),
    ("list", "join", "join", "$l, $l"),
    ("list", "length", "length", "$l"),
    ("list", "separator", "list-separator", "$l"),
    ("list", "nth", "nth", "$l, 2"),
    ("list", "set-nth", "set-nth", "$l, 1, 9"),
    ("list", "zip", "zip", "$l, $l"),
    ("map", "get", "map-get", "$m, a"),
    ("map", "has-key", "map-has-key", "$m, a"),
    ("map", "keys", "map-keys", "$m"),
    ("map", "merge", "map-merge", "$m, (c: 3)"),
    ("map", "remove", "map-remove", "$m, a"),
    ("map", "values", "map-values", "$m"),
    ("string", "quote", "quote", "abc"),
    ("string", "index", "str-index", "$s, \"b\""),
    ("string", "insert", "str-insert", "$s, \"x\", 2"),
    ("string", "length", "str-length", "$s"),
    ("string", "slice", "str-slice", "$s, 2"),
    ("string", "to-upper-case", "to-upper-case", "$s"),
    ("string", "to-lower-case", "to-lower-case", "$s"),
    ("string", "unquote", "unquote", "$s"),
    ("color", "red", "red", "#abc"),
    ("color", "green", "green", "#abc"),
    ("color", "blue", "blue", "#abc"),
    ("color", "hue", "hue", "#abc"),
    ("color", "saturation", "saturation", "#abc"),
    ("color", "lightness", "lightness", "#abc"),
    ("color", "alpha", "alpha", "#aabbcc80"),
    ("color", "alpha", "opacity", "#aabbcc80"),
    ("color", "adjust", "adjust-color", "#abc, $red: 10"),
    ("color", "scale", "scale-color", "#abc, $lightness: 10%"),
    ("color", "change", "change-color", "#abc, $red: 10"),
    ("color", "mix", "mix", "#abc, red"),
    ("color", "complement", "complement", "#abc"),
    ("color", "grayscale", "grayscale", "#abc"),
    ("color", "invert", "invert", "#abc"),
    ("color", "ie-hex-str", "ie-hex-str", "#abc"),
    ("selector", "is-superselector", "is-superselector", "\"a\", \"a.b\""),
    ("selector", "append", "selector-append", "\".a\", \".b\""),
    ("selector", "extend", "selector-extend", "\".a .b\", \".b\", \".c\""),
    ("selector", "nest", "selector-nest", "\".a\", \".b\""),
    ("selector", "parse", "selector-parse", "\".a .b\""),
    ("selector", "replace", "selector-replace", "\".a .b\", \".b\", \".c\""),
    ("selector", "unify", "selector-unify", "\".a\", \".b\""),
    ("selector", "simple-selectors", "simple-selectors", "\".a.b\""),
    ("meta", "feature-exists", "feature-exists", "\"at-error\""),
    ("meta", "inspect", "inspect", "$l"),
    ("meta", "type-of", "type-of", "$m"),
    ("meta", "keywords", "keywords", "$l"),
    ("meta", "global-variable-exists", "global-variable-exists", "\"l\""),
    ("meta", "variable-exists", "variable-exists", "\"l\""),
    ("meta", "function-exists", "function-exists", "\"red\""),
    ("meta", "mixin-exists", "mixin-exists", "\"foo\""),
    ("meta", "content-exists", "content-exists", ""),
    ("meta", "get-function", "get-function", "\"red\""),
    ("meta", "call", "call", "get-function(\"red\"), #abc"),
];

/// global names that are *also* plain-CSS functions: the documentation says the global form passes
/// such calls through (CSS filters `invert(50%)`, `grayscale(1)`, `alpha(opacity=1)`, CSS
/// `min()/max()`), which the module form does not.
const CSS_OVERLOADS: &[&str] = &["invert", "grayscale", "alpha", "opacity", "min", "max"];

fn typed_pool(module: &str) -> &'static [&'static str] {
    match module {
        "math" => &["1", "0", "-1.5", "2.5", "0.5", "1px", "2em", "50%", "1in", "2.54cm", "90deg", "1e3", "-0.5", "3", "1px*1px", "$n", "$l..."],
        "list" => &["$l", "1 2 3", "(1, 2, 3)", "[1 2]", "()", "(1,)", "$m", "1", "2", "-1", "3", "0", "4", "a", "comma", "space", "slash", "auto", "true", "$separator: comma", "$bracketed: true", "$l..."],
        "map" => &["$m", "(a: 1)", "(a: (b: (c: 1)))", "()", "a", "b", "c", "(c: 3)", "(a: 9)", "1", "$l", "$key: a", "$keys: a"],
        "string" => &["$s", "\"abc\"", "abc", "\"\"", "\"a b\"", "\"é😀\"", "\"b\"", "\"x\"", "1", "2", "-1", "0", "10", "$start-at: 2", "$end-at: -2", "$index: 2", "$insert: \"q\""],
        "color" => &["#abc", "red", "#aabbcc80", "transparent", "rgba(1, 2, 3, 0.5)", "hsl(120, 50%, 50%)", "10", "10%", "50%", "-20%", "0.3", "$red: 10", "$blue: -300", "$hue: 45deg", "$saturation: 10%", "$lightness: -10%", "$alpha: -0.2", "$alpha: 0.5", "$weight: 25%", "1", "50"],
        "selector" => &["\".a\"", "\".b\"", "\".a .b\"", "\".a, .b\"", "\"a\"", "\"a.b\"", "\".a.b\"", "\"&-x\"", "\"%p\"", "\":not(.a)\"", "\".c\"", "\"a > b\"", "(\".a\", \".b\")", "(\".a\" \".b\")", "1", "\"\""],
        _ => &["$l", "$m", "$s", "$n", "\"l\"", "\"s\"", "\"zz\"", "\"red\"", "\"rgb\"", "\"foo\"", "\"at-error\"", "\"global-variable-shadowing\"", "get-function(\"red\")", "get-function(\"nth\")", "#abc", "2", "calc(1px + 1%)", "clamp(1px, 1%, 2px)", "1", "null", "$css: true", "$l..."],
    }
}

fn alias_strategy() -> impl Strategy<Value = AliasCase> {
    (any::<u16>(), any::<u8>(), proptest::collection::vec(any::<u16>(), 0..4)).prop_map(|(k, mode, picks)| {
        let (m, f, a, good) = ALIASES[idx(k, ALIASES.len())];
        let pool = typed_pool(m);
        let mut args: Vec<String> = match mode % 5 {
            // ill-typed / syntactically odd arguments from the shared dictionary
            0 => picks.iter().map(|p| ARG_VALUES[idx(*p, ARG_VALUES.len())].to_string()).collect(),
            // the documented-shape arguments plus one more
            1 => {
                let mut v = vec![];
                if !good.is_empty() {
                    v.push(good.to_string());
                }
                if let Some(p) = picks.first() {
                    v.push(pool[idx(*p, pool.len())].to_string());
                }
                v
            }
            _ => picks.iter().map(|p| pool[idx(*p, pool.len())].to_string()).collect(),
        };
        // positional after named is a syntax error in both forms: keep named arguments last
        let (pos, named): (Vec<String>, Vec<String>) = args.drain(..).partition(|a| !a.starts_with('$') || !a.contains(':'));
        let mut args = pos;
        args.extend(named);
        AliasCase { module: m.to_string(), func: f.to_string(), alias: a.to_string(), args, enumerated: false }
    })
}

fn alias_sheet(call: &str) -> String {
    format!(
        "@use \"sass:math\";\n@use \"sass:list\";\n@use \"sass:map\";\n@use \"sass:string\";\n@use \"sass:color\";\n@use \"sass:selector\";\n@use \"sass:meta\";\n$l: 1 2 3; $m: (a: 1, b: 2); $s: \"abc\"; $n: 2;\na {{ r: inspect({}); }}\n",
        call
    )
}

fn sanitize(s: &str) -> String {
    let t: String = s.chars().filter(|c| c.is_ascii_alphabetic() || *c == ' ' || *c == '-' || *c == '@' || *c == '!').take(48).collect();
    t.trim().replace(' ', "-")
}

fn squash(s: &str) -> String {
    s.chars().filter(|c| !c.is_whitespace()).collect()
}

#[derive(Debug, PartialEq)]
enum Obs {
    Ok(Vec<(String, String, String)>),
    Error(String),
}

fn matches(e: &Expect, o: &Obs) -> bool {
    match (e, o) {
        (Expect::Ok(a), Obs::Ok(b)) => {
            a.len() == b.len()
                && a.iter().zip(b.iter()).all(|(x, y)| x.0 == y.0 && x.1 == y.1 && squash(&x.2) == squash(&y.2))
        }
        (Expect::Error(_), Obs::Error(_)) => true,
        _ => false,
    }
}

fn expect_json(e: &Expect) -> serde_json::Value {
    match e {
        Expect::Ok(r) => json!({"ok": r.iter().map(|(s, p, v)| format!("{} {{ {}: {} }}", s, p, v)).collect::<Vec<_>>()}),
        Expect::Error(w) => json!({"error": w}),
        Expect::Unsure(w) => json!({"unsure": w}),
    }
}

pub fn project_single(p: &Project) -> Single {
    let mut s = Single::scss("");
    for (name, text) in p.files() {
        s.files.push((name, Bytes::Text(text)));
    }
    s.entry = Entry::Path("entry.scss".to_string());
    s.syntax = None;
    s
}

fn check_project(p: &Project, cx: &mut Ctx) -> Verdict {
    if p.mods.is_empty() || p.mods.last().map(|m| m.file != "entry.scss").unwrap_or(true) {
        return Verdict::Discard;
    }
    let base = run_model(p, Quirks::default());
    cx.class("project");
    cx.class(&format!("modules:{}", p.mods.len() - 1));
    for t in shape_tags(p) {
        cx.class(&format!("shape:{}", t));
    }
    for t in &base.tags {
        cx.class(&format!("model:{}", t));
    }
    if let Expect::Unsure(why) = &base.expect {
        cx.class(&format!("model-unsure:{}", why));
        return Verdict::Discard;
    }
    // single-finding variants of the model: do they change the expected outcome of this project?
    let mut variants: Vec<(u8, Expect)> = vec![];
    for mask in mask_order() {
        let v = run_model(p, quirks_of(mask));
        if v.expect != base.expect {
            if mask.count_ones() == 1 {
                cx.class(&format!("region:outcome-depends-on:{}", KNOWN[mask.trailing_zeros() as usize].id));
            }
            variants.push((mask, v.expect));
        }
    }
    let in8 = variants.iter().any(|(m, _)| *m == 1);
    let _ = in8;

    let single = project_single(p);
    let res = cx.compile(&single);
    let obs = match &res.outcome {
        Outcome::Css(c) => {
            let rows = css::rows(c);
            if rows.iter().any(|r| !r.at_path.is_empty()) {
                return Verdict::Fail(Failure::new(
                    "C12/unexpected-at-rule-in-output",
                    "output contains an at-rule although the project has none",
                    json!({"css": c}),
                ));
            }
            Obs::Ok(rows.into_iter().map(|r| (r.selector, r.prop, r.value)).collect())
        }
        Outcome::Error(e) => Obs::Error(e.message.clone()),
        other => {
            let t = other.short();
            let t = t.rsplit("/src/").next().unwrap_or(&t).to_string();
            // two crashes found on the way (C01's subject, reported there); counted, not judged here
            if t.starts_with("utils/map_view.rs") && t.contains("not implemented") {
                cx.excluded("panic `not implemented` in UnprefixedMapView::iter: a configuration passes through an @forward that has a prefix and its own `with` (C01 finding)");
                return Verdict::Discard;
            }
            if t.starts_with("utils/map_view.rs") && t.contains("New entries may not be added to MergedMapView") {
                cx.excluded("panic `unreachable` in MergedMapView::insert: `ns.$v: x` for a $v the forwarding module ns does not expose (C01 finding)");
                return Verdict::Discard;
            }
            cx.inconclusive(&format!("abnormal:{}", t.chars().take(90).collect::<String>()));
            return Verdict::Discard;
        }
    };
    match (&base.expect, &obs) {
        (Expect::Ok(_), _) => cx.class("expected:css"),
        (Expect::Error(w), _) => {
            cx.class("expected:error");
            cx.class(&format!("expected-error:{}", sanitize(w)));
        }
        _ => {}
    }
    let nontrivial = base.tags.iter().any(|t| {
        matches!(
            t.as_str(),
            "module-loaded-again(cache)"
                | "member-through-prefixed-forward"
                | "member-through-filtered-forward"
                | "member-blocked-by-show/hide"
                | "with:use"
                | "with:forward"
        )
    });
    let files = p.files();
    let sample = |obs: &Obs| {
        json!({
            "files": files.iter().map(|(n, t)| json!({"name": n, "text": t})).collect::<Vec<_>>(),
            "expected": expect_json(&base.expect),
            "observed": match obs { Obs::Ok(r) => json!({"ok": r.len()}), Obs::Error(m) => json!({"error": m}) },
            "model_tags": base.tags,
        })
    };
    if matches(&base.expect, &obs) {
        if in8 {
            cx.class("finding8-region:grass-agrees-with-full-model");
        }
        if nontrivial {
            cx.nontrivial(&files);
            cx.sample_nontrivial(|| sample(&obs));
        } else {
            cx.sample(|| sample(&obs));
        }
        return Verdict::Pass;
    }
    let details = json!({
        "files": files.iter().map(|(n, t)| json!({"name": n, "text": t})).collect::<Vec<_>>(),
        "expected": expect_json(&base.expect),
        "observed": match &obs {
            Obs::Ok(r) => json!({"ok": r.iter().map(|(s, p, v)| format!("{} {{ {}: {} }}", s, p, v)).collect::<Vec<_>>()}),
            Obs::Error(m) => json!({"error": m}),
        },
        "model_tags": base.tags,
        "known_finding_variants": variants.iter().map(|(m, e)| json!({"mask": m, "expect": expect_json(e)})).collect::<Vec<_>>(),
    });
    // a variant made only of findings that are still listed as known explains the outcome first
    let mut ordered: Vec<&(u8, Expect)> = variants.iter().collect();
    ordered.sort_by_key(|(mask, _)| {
        let all_known = (0..KNOWN.len()).filter(|b| mask & (1 << b) != 0).all(|b| KNOWN[b].exclude);
        if all_known { 0 } else { 1 }
    });
    for (mask, e) in ordered {
        let bits: Vec<&Known> = (0..KNOWN.len()).filter(|b| mask & (1 << b) != 0).map(|b| &KNOWN[b]).collect();
        // a still-known finding whose model variant cannot predict this project (`unsure`) leaves
        // the project outside what can be judged
        let unsure_known = matches!(e, Expect::Unsure(_)) && bits.iter().all(|k| k.exclude) && !cx.replay;
        if !matches(e, &obs) && !unsure_known {
            continue;
        }
        if bits.iter().all(|k| k.exclude) && !cx.replay {
            let ids: Vec<&str> = bits.iter().map(|k| k.id).collect();
            cx.excluded(&format!("outcome equals the model variant with known finding(s) {}", ids.join("+")));
            return Verdict::Discard;
        }
        let sig = if bits.len() == 1 {
            bits[0].sig.to_string()
        } else {
            format!("C12/known-combination:{}", bits.iter().map(|k| k.id).collect::<Vec<_>>().join("+"))
        };
        let what = bits.iter().map(|k| k.what).collect::<Vec<_>>().join("; and ");
        return Verdict::Fail(Failure::new(sig, what, details));
    }
    let (sig, what) = match (&base.expect, &obs) {
        (Expect::Error(w), Obs::Ok(_)) => (
            format!("C12/expected-error-got-css:{}", sanitize(w)),
            format!("the project must be rejected ({}) but compiled", w),
        ),
        (Expect::Ok(_), Obs::Error(m)) => (
            format!("C12/expected-css-got-error:{}", sanitize(m)),
            format!("the project is valid but was rejected: {}", m),
        ),
        _ => (
            "C12/declarations-differ".to_string(),
            "the emitted declaration sequence differs from the module-graph model".to_string(),
        ),
    };
    Verdict::Fail(Failure::new(sig, what, details))
}

fn inspect_of(res: &Res) -> Result<String, String> {
    match &res.outcome {
        Outcome::Css(c) => {
            let rows = css::rows(c);
            match rows.iter().find(|r| r.prop == "r") {
                Some(r) => Ok(r.value.clone()),
                // `r: inspect(null-ish)` never vanishes (inspect returns a string), but an empty
                // unquoted string does: treat as empty text
                None => Ok(String::new()),
            }
        }
        Outcome::Error(e) => Err(e.message.clone()),
        o => Err(format!("ABNORMAL {}", o.short())),
    }
}

fn check_alias(a: &AliasCase, cx: &mut Ctx) -> Verdict {
    let args = a.args.join(", ");
    let call_m = format!("{}.{}({})", a.module, a.func, args);
    let call_g = format!("{}({})", a.alias, args);
    let rm = cx.compile(&Single::scss(alias_sheet(&call_m)));
    let rg = cx.compile(&Single::scss(alias_sheet(&call_g)));
    if rm.outcome.is_abnormal() || rg.outcome.is_abnormal() {
        cx.inconclusive(&format!("alias-abnormal:{}:{}", call_m, rm.outcome.short().chars().take(80).collect::<String>()));
        return Verdict::Discard;
    }
    cx.class("alias");
    let im = inspect_of(&rm);
    let ig = inspect_of(&rg);
    let pair = format!("{}.{}/{}", a.module, a.func, a.alias);
    match (&im, &ig) {
        (Ok(x), Ok(y)) if x == y => {
            cx.class("alias:both-ok-equal");
            cx.class(&format!("alias-ok:{}", pair));
            cx.nontrivial(&(&pair, &args));
            cx.sample_nontrivial(|| json!({"module_call": call_m, "global_call": call_g, "inspect": x}));
            Verdict::Pass
        }
        (Err(_), Err(_)) => {
            cx.class("alias:both-fail");
            cx.sample(|| json!({"module_call": call_m, "global_call": call_g, "both": "error"}));
            Verdict::Pass
        }
        (Err(_), Ok(y)) if CSS_OVERLOADS.contains(&a.alias.as_str()) && y.starts_with(&format!("{}(", a.alias)) => {
            cx.class("alias:documented-plain-css-overload");
            Verdict::Pass
        }
        _ => Verdict::Fail(Failure::new(
            format!("C12/alias-differs:{}", pair),
            format!("{} and {} disagree", call_m, call_g),
            json!({"module_call": call_m, "module_result": format!("{:?}", im), "global_call": call_g, "global_result": format!("{:?}", ig)}),
        )),
    }
}

impl Prop for C12 {
    type Case = Case;
    fn id(&self) -> &'static str {
        "C12"
    }
    fn rule(&self) -> String {
        "cases = (a) multi-file projects on the in-memory Fs: 1..6 library modules + entry.scss, a DAG of @use (default namespace / as ns / as *) and @forward (as p-* / show / hide) rules with `with(...)` clauses, two spellings of one file, optional module loop, public and private variables/functions/mixins, namespace assignments, references that are mostly valid and sometimes deliberately invisible; judged by a module-graph model (success vs error, and the declaration sequence). (b) built-in module function vs global alias on generated arguments (inspect text equal or both fail). Non-trivial project = the model run re-used an already loaded module (diamond / second importer / second spelling), resolved a member through a prefixed or filtered @forward (or a filter blocked one), or evaluated a `with` clause; distinct = distinct file contents. Non-trivial alias case = both calls succeed; distinct = distinct (pair, arguments).".into()
    }
    fn assumptions(&self) -> Vec<String> {
        vec![
            "the model follows the Sass module-system documentation and dart-sass 1.54 (configuration through @forward as in its evaluator); situations where these are unclear (same public name from two modules, two @use with one namespace, configuration through an @forward that has both a prefix and a show/hide list naming the variable) are discarded and counted as model-unsure".into(),
            "error texts are not compared".into(),
            format!("EXCLUDE_FINDING_8={} EXCLUDE_FINDING_22B={} EXCLUDE_FINDING_30={} EXCLUDE_FINDING_31={} EXCLUDE_FINDING_33={}", EXCLUDE_FINDING_8, EXCLUDE_FINDING_22B, EXCLUDE_FINDING_30, EXCLUDE_FINDING_31, EXCLUDE_FINDING_33),
        ]
    }
    fn strategy(&self, tier: Tier) -> Option<(BoxedStrategy<Case>, u32)> {
        let s = prop_oneof![
            1 => project_strategy().prop_map(Case::Project),
            2 => alias_strategy().prop_map(Case::Alias),
            // few are needed: the family is small (4 kinds x three small integers)
            1 => (any::<u8>(), 2i64..90, 100i64..190, 200i64..290).prop_map(|(kind, n, m, k)| Case::Scenario(Scenario { kind, n, m, k })),
        ]
        .boxed();
        Some((s, tier.pick(12_000, 240_000)))
    }
    fn enumerate(&self, _tier: Tier) -> Vec<Case> {
        ALIASES
            .iter()
            .map(|(m, f, a, good)| {
                Case::Alias(AliasCase {
                    module: m.to_string(),
                    func: f.to_string(),
                    alias: a.to_string(),
                    args: if good.is_empty() { vec![] } else { vec![good.to_string()] },
                    enumerated: true,
                })
            })
            .collect()
    }
    fn check(&self, case: &Case, cx: &mut Ctx) -> Verdict {
        match case {
            Case::Project(p) => check_project(p, cx),
            Case::Alias(a) => check_alias(a, cx),
            Case::Scenario(sc) => check_scenario(sc, cx),
        }
    }
    fn extra_evidence(&self, stats: &Stats) -> serde_json::Value {
        let ok_pairs = stats.classes.keys().filter(|k| k.starts_with("alias-ok:")).count();
        json!({"alias_pairs_total": ALIASES.len(), "alias_pairs_with_a_successful_evaluation": ok_pairs})
    }
}

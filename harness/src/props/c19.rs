//! C19 — diagnostics are located, renderable and routed only through the Logger.

use super::c01;
use crate::engine::*;
use crate::gen::chooser::{choices, Chooser};
use crate::gen::logprog::{gen_log_program, Log, LogProgram, ANY_MESSAGE};
use proptest::prelude::*;
use serde::{Deserialize, Serialize};
use serde_json::json;

pub struct C19;

#[derive(Clone, Debug, Serialize, Deserialize)]
pub enum Case {
    /// a (probably) failing input from C01's generators: error location and rendering
    ErrLoc(c01::Case),
    /// a program that logs: Logger routing
    Logs {
        prog: LogProgram,
        quiet: bool,
        unicode: bool,
        compressed: bool,
        /// write the files with CRLF line endings (lines are the same lines)
        #[serde(default)]
        crlf: bool,
    },
}

fn norm_path(p: &str) -> String {
    crate::engine::worker::normalize(std::path::Path::new(p))
}

/// judge the location and rendering of one error; `files` = (name, text) of everything readable
fn judge_error(e: &ErrInfo, unicode: bool, entry_name: &str, entry_text: Option<&str>, files: &[(String, Bytes)]) -> Result<(), (String, String)> {
    if e.kind != "parse" {
        // I/O and UTF-8 errors carry no location; rendering must still work
        if !e.display.starts_with("Error: ") {
            return Err(("display-prefix".into(), format!("rendered error does not start with `Error: `: {:?}", e.display)));
        }
        return Ok(());
    }
    if !e.display.starts_with(&format!("Error: {}", e.message)) {
        return Err(("display-prefix".into(), format!("rendered error does not start with `Error: <message>`: {:?} vs message {:?}", e.display.lines().next().unwrap_or(""), e.message)));
    }
    // the named file must be the entry or a file of the case
    let text: String = if e.file == entry_name {
        match entry_text {
            Some(t) => t.to_string(),
            None => return Ok(()),
        }
    } else {
        match files.iter().find(|(n, _)| norm_path(n) == norm_path(&e.file)) {
            Some((_, b)) => match b.as_text() {
                Some(t) => t.to_string(),
                None => return Err(("location-in-non-utf8-file".into(), format!("error located in {}, which is not valid UTF-8", e.file))),
            },
            None => {
                return Err(("unknown-file".into(), format!("error names file {:?}, which is neither the entry ({:?}) nor a file that could be read", e.file, entry_name)))
            }
        }
    };
    let lines: Vec<&str> = text.split('\n').collect();
    if (e.begin.line, e.begin.col) > (e.end.line, e.end.col) {
        return Err(("begin-after-end".into(), format!("location begins at {}:{} after its end {}:{}", e.begin.line, e.begin.col, e.end.line, e.end.col)));
    }
    for (what, p) in [("begin", &e.begin), ("end", &e.end)] {
        if p.line >= lines.len() {
            return Err(("line-out-of-range".into(), format!("{} line {} but {} has {} lines", what, p.line, e.file, lines.len())));
        }
        let len = lines[p.line].chars().count();
        if p.col > len {
            return Err(("column-out-of-range".into(), format!("{} column {} but line {} of {} has {} characters", what, p.col, p.line, e.file, len)));
        }
    }
    if !unicode {
        // the frame is ASCII; the message and the echoed source line may of course contain anything
        for ch in ['╷', '│', '╵', '┌', '└', '─'] {
            if e.display.contains(ch) && !text.contains(ch) && !e.message.contains(ch) {
                return Err(("non-ascii-frame".into(), format!("ASCII mode rendering contains {:?}", ch)));
            }
        }
    }
    Ok(())
}

fn stdio_failure(cx: &mut Ctx) -> Option<Failure> {
    let (o, e) = cx.worker.take_stdio();
    if !o.is_empty() || !e.is_empty() {
        return Some(Failure::new(
            if o.is_empty() { "library-wrote-to-stderr" } else { "library-wrote-to-stdout" },
            "with a custom Logger the library wrote to the process's stdout/stderr",
            json!({"stdout": o, "stderr": e}),
        ));
    }
    None
}

/// equality of an observed and an expected Logger call; an expected message may be a wildcard
fn same(a: &Log, b: &Log) -> bool {
    a.kind == b.kind && a.file == b.file && a.line == b.line && (a.message == b.message || a.message == ANY_MESSAGE || b.message == ANY_MESSAGE)
}

fn is_subsequence(obs: &[Log], exp: &[Log]) -> bool {
    let mut i = 0;
    for e in exp {
        if i < obs.len() && same(&obs[i], e) {
            i += 1;
        }
    }
    i == obs.len()
}

impl Prop for C19 {
    type Case = Case;
    fn id(&self) -> &'static str {
        "C19"
    }
    fn rule(&self) -> String {
        "(a) inputs from C01's generators (corpus mutations, token soup, built-in calls, raw bytes; all syntaxes, imported files) that fail to compile x unicode on/off: the error names the entry or a readable file, begin <= end, line/column inside that file's text, rendering starts with `Error: <message>`, ASCII mode draws an ASCII frame. (b) generated logging programs (@debug/@warn/@error in loops, conditionals, rules, mixins, functions, content blocks, @import-ed/@use-d files) evaluated by the generator itself x quiet x unicode x style x {LF, CRLF} line endings: the collecting Logger receives exactly the expected @debug sequence (kind, file, 0-based line, text) and every expected @warn (at least once, no extras, program order), nothing with `quiet`; @error reports inspect(value). (c) after every compilation with a custom Logger the worker's own stdout and stderr are empty. Non-trivial: (a) error outside line 0 or in an imported file or with a non-ASCII source; (b) a directive executed >= 2 times with different messages, or located in a mixin/function/imported file; distinct by input.".into()
    }
    fn strategy(&self, tier: Tier) -> Option<(BoxedStrategy<Case>, u32)> {
        let errs = c01::C01.strategy(tier).unwrap().0.prop_map(Case::ErrLoc);
        let logs = (choices(220), any::<bool>(), any::<bool>(), any::<bool>(), any::<u8>()).prop_map(|(ch, unicode, compressed, q, qq)| {
            let mut c = Chooser::new(&ch);
            Case::Logs {
                prog: gen_log_program(&mut c),
                quiet: q && qq % 2 == 0,
                unicode,
                compressed,
                crlf: qq % 3 == 0,
            }
        });
        let s = prop_oneof![5 => errs, 2 => logs].boxed();
        Some((s, tier.pick(30_000, 1_000_000)))
    }
    fn check(&self, case: &Case, cx: &mut Ctx) -> Verdict {
        match case {
            Case::ErrLoc(c) => {
                let text_lossy = String::from_utf8_lossy(&c.text.to_vec()).into_owned();
                if crate::gen::text::bracket_depth(&text_lossy) > c01::DEPTH_CAP {
                    cx.excluded("nesting-depth>64 (known finding C01/stack-overflow-deep-nesting)");
                    return Verdict::Discard;
                }
                let single = c01::build_single(c);
                let _ = cx.worker.take_stdio();
                let res = cx.compile(&single);
                if res.outcome.is_abnormal() {
                    cx.inconclusive("abnormal (C01's subject)");
                    return Verdict::Discard;
                }
                if let Some(f) = stdio_failure(cx) {
                    return Verdict::Fail(f);
                }
                let e = match &res.outcome {
                    Outcome::Error(e) => e.clone(),
                    _ => {
                        cx.class("a:compiles (discarded)");
                        return Verdict::Discard;
                    }
                };
                cx.class(&format!("a:error-kind:{}", e.kind));
                let (entry_name, entry_text): (String, Option<String>) = match &single.entry {
                    Entry::Text(t) => ("stdin".to_string(), Some(t.clone())),
                    Entry::Path(p) => (p.clone(), single.files.iter().find(|(n, _)| n == p).and_then(|(_, b)| b.as_text().map(|s| s.to_string()))),
                };
                if let Err((sig, what)) = judge_error(&e, single.unicode, &entry_name, entry_text.as_deref(), &single.files) {
                    return Verdict::Fail(Failure::new(format!("error:{}", sig), what, json!({"error": e, "input": text_lossy})));
                }
                // the other message mode: same message and location
                let mut other = single.clone();
                other.unicode = !single.unicode;
                let r2 = cx.compile(&other);
                // unique-id() / random() make two runs of one input differ legitimately (found by the
                // thorough tier: `@error "... #{unique-id()}"`): such inputs are judged per run only
                let nondet = {
                    let has = |t: &str| t.contains("unique-id") || t.contains("random");
                    has(&text_lossy) || single.files.iter().any(|(_, b)| has(&String::from_utf8_lossy(&b.to_vec())))
                };
                if nondet {
                    cx.class("a:nondeterministic-builtin (cross-mode comparison skipped)");
                }
                if let Outcome::Error(e2) = &r2.outcome {
                    if !nondet && (e2.message != e.message || e2.begin != e.begin || e2.end != e.end || e2.file != e.file) {
                        return Verdict::Fail(Failure::new("error:unicode-flag-changes-error", "message or location depends on unicode_error_messages", json!({"a": e, "b": e2})));
                    }
                    if let Err((sig, what)) = judge_error(e2, other.unicode, &entry_name, entry_text.as_deref(), &single.files) {
                        return Verdict::Fail(Failure::new(format!("error:{}", sig), what, json!({"error": e2, "input": text_lossy})));
                    }
                } else if !r2.outcome.is_abnormal() && !nondet {
                    return Verdict::Fail(Failure::new("error:unicode-flag-changes-outcome", "the input fails in one message mode only", json!({"a": e, "b": r2.outcome.short()})));
                }
                let nt = e.kind == "parse" && (e.begin.line > 0 || e.file != entry_name || !text_lossy.is_ascii());
                if nt {
                    cx.nontrivial(&(&text_lossy, c.syntax, format!("{:?}", c.mode)));
                    cx.sample_nontrivial(|| json!({"input": text_lossy, "syntax": c.syntax, "mode": c.mode, "error": {"message": e.message, "file": e.file, "begin": e.begin, "end": e.end}}));
                } else {
                    cx.sample(|| json!({"input": text_lossy, "error": e.message}));
                }
                if e.file != entry_name && e.kind == "parse" {
                    cx.class("a:located-in-imported-file");
                }
                Verdict::Pass
            }
            Case::Logs { prog, quiet, unicode, compressed, crlf } => {
                if prog.features.iter().any(|f| f == "steps-exceeded") {
                    return Verdict::Discard;
                }
                let mut s = Single::scss("");
                for (n, t) in &prog.files {
                    let t = if *crlf { t.replace('\n', "\r\n") } else { t.clone() };
                    s.files.push((n.clone(), Bytes::Text(t)));
                }
                if *crlf {
                    cx.class("b:crlf");
                }
                s.entry = Entry::Path(prog.files[0].0.clone());
                s.quiet = *quiet;
                s.unicode = *unicode;
                if *compressed {
                    s.style = Style::Compressed;
                }
                let _ = cx.worker.take_stdio();
                let res = cx.compile(&s);
                if res.outcome.is_abnormal() {
                    cx.inconclusive("abnormal (C01's subject)");
                    return Verdict::Discard;
                }
                if let Some(f) = stdio_failure(cx) {
                    return Verdict::Fail(f);
                }
                for f in &prog.features {
                    cx.class(&format!("b:{}", f));
                }
                cx.class(if *quiet { "b:quiet" } else { "b:loud" });
                let details = |obs: &Vec<Log>| json!({"files": prog.files, "expected": prog.expected, "observed": obs, "quiet": quiet, "outcome": res.outcome.short()});
                let obs: Vec<Log> = res.logs.iter().map(|l| Log { kind: l.kind.clone(), file: l.file.clone(), line: l.line, message: l.message.clone() }).collect();
                // outcome: @error or css
                match (&prog.error, &res.outcome) {
                    (Some(msg), Outcome::Error(e)) => {
                        if &e.message != msg {
                            return Verdict::Fail(Failure::new("logs:error-message", format!("@error reported {:?}, expected inspect(value) = {:?}", e.message, msg), details(&obs)));
                        }
                        let entry_text = s.files[0].1.as_text().unwrap_or("").to_string();
                        if let Err((sig, what)) = judge_error(e, *unicode, &prog.files[0].0, Some(&entry_text), &s.files) {
                            return Verdict::Fail(Failure::new(format!("error:{}", sig), what, details(&obs)));
                        }
                    }
                    (None, Outcome::Css(_)) => {}
                    (Some(_), _) => return Verdict::Fail(Failure::new("logs:error-not-raised", "@error did not fail the compilation", details(&obs))),
                    (None, o) => {
                        return Verdict::Fail(Failure::new("logs:unexpected-error", format!("the logging program was rejected: {}", o.short()), details(&obs)))
                    }
                }
                if *quiet {
                    if !obs.is_empty() {
                        return Verdict::Fail(Failure::new("logs:quiet-not-silent", "the Logger was called although `quiet` is set", details(&obs)));
                    }
                    cx.nontrivial(&("quiet", &prog.files));
                    return Verdict::Pass;
                }
                let exp_debug: Vec<&Log> = prog.expected.iter().filter(|l| l.kind == "debug").collect();
                let obs_debug: Vec<&Log> = obs.iter().filter(|l| l.kind == "debug").collect();
                if exp_debug != obs_debug {
                    let sig = if exp_debug.len() == obs_debug.len() && exp_debug.iter().zip(&obs_debug).all(|(a, b)| a.message == b.message && a.file == b.file) {
                        "logs:debug-line"
                    } else if exp_debug.len() == obs_debug.len() && exp_debug.iter().zip(&obs_debug).all(|(a, b)| a.line == b.line && a.message == b.message) {
                        "logs:debug-file"
                    } else if exp_debug.len() == obs_debug.len() {
                        "logs:debug-message"
                    } else {
                        "logs:debug-count"
                    };
                    return Verdict::Fail(Failure::new(sig, "the @debug calls differ from the program's execution", details(&obs)));
                }
                // @warn: every distinct expected (file, line, message) at least once, nothing extra, program order
                for w in prog.expected.iter().filter(|l| l.kind == "warn") {
                    if !obs.iter().any(|o| same(o, w)) {
                        return Verdict::Fail(Failure::new("logs:warn-missing", format!("@warn {:?} at {}:{} never reached the Logger", w.message, w.file, w.line), details(&obs)));
                    }
                }
                for w in obs.iter().filter(|l| l.kind == "warn") {
                    if !prog.expected.iter().any(|e| same(e, w)) {
                        return Verdict::Fail(Failure::new("logs:warn-extra", format!("unexpected Logger::warn {:?} at {}:{}", w.message, w.file, w.line), details(&obs)));
                    }
                }
                if !is_subsequence(&obs, &prog.expected) {
                    return Verdict::Fail(Failure::new("logs:order", "Logger calls are not in program order", details(&obs)));
                }
                // non-trivial: a directive executed >= 2 times with different messages, or in a callable / imported file
                let mut by_site: std::collections::BTreeMap<(String, usize), Vec<&str>> = Default::default();
                for l in &prog.expected {
                    by_site.entry((l.file.clone(), l.line)).or_default().push(&l.message);
                }
                let varied = by_site.values().any(|m| m.len() >= 2 && m.iter().any(|x| *x != m[0]));
                let located = prog.features.iter().any(|f| f.ends_with("-in-mixin") || f.ends_with("-in-function") || f.ends_with("-in-imported") || f.ends_with("-in-content"));
                if (varied || located) && !prog.expected.is_empty() {
                    cx.nontrivial(&prog.files);
                    cx.sample_nontrivial(|| json!({"files": prog.files, "expected": prog.expected}));
                } else {
                    cx.sample(|| json!({"files": prog.files, "expected": prog.expected}));
                }
                Verdict::Pass
            }
        }
    }
}

//! C04 — nesting, `&`, @at-root and bubbling at-rules flatten to the flat CSS a reader would
//! write by hand.

use crate::engine::*;
use crate::gen::ruletree::{self, Tree};
use crate::oracle::css::{self, Node as CssNode, Tok};
use crate::oracle::flatten::{flatten_info, FlatRow};
use proptest::prelude::*;
use serde::{Deserialize, Serialize};
use serde_json::json;
use std::collections::BTreeMap;

pub struct C04;

#[derive(Clone, Debug, Serialize, Deserialize)]
pub struct Case {
    pub tree: Tree,
}

/// What the independent CSS reader sees in the output.
#[derive(Default, Debug)]
pub struct Observed {
    pub rows: Vec<FlatRow>,
    /// block index (document order) of every row, for the per-block declaration order
    pub row_block: Vec<usize>,
    /// preludes of style rules / @media / @supports blocks that have no content
    pub empty_blocks: Vec<String>,
    pub amp_selectors: Vec<String>,
    pub junk: Vec<String>,
    /// style rules nested in style rules (not flat CSS)
    pub nested_style_rules: Vec<String>,
}

fn at_name(prelude: &[Tok]) -> Option<String> {
    match prelude.first() {
        Some(Tok::AtKeyword(n)) => Some(n.to_ascii_lowercase()),
        _ => None,
    }
}

/// Read the output: rows (declarations and childless at-rules as `@name` pseudo-declarations) with
/// their at-rule path and selector, plus structural observations.
pub fn observe(css_text: &str) -> Observed {
    fn is_empty(children: &[CssNode]) -> bool {
        children.iter().all(|c| match c {
            CssNode::Comment(_) => true,
            // a block containing only empty style rules / @media / @supports is as empty as they are
            CssNode::Block { prelude, children } => {
                let unknown_at = matches!(at_name(prelude).as_deref(), Some(n) if n != "media" && n != "supports");
                !unknown_at && is_empty(children)
            }
            _ => false,
        })
    }
    fn walk(nodes: &[CssNode], at: &mut Vec<String>, sel: Option<&str>, blk: &mut usize, o: &mut Observed) {
        let my_block = *blk;
        for n in nodes {
            match n {
                CssNode::Decl { name, value } => {
                    o.rows.push(FlatRow {
                        at_path: at.clone(),
                        selector: sel.unwrap_or("").to_string(),
                        prop: css::squeeze(&css::render(name)),
                        value: css::squeeze(&css::render(value)),
                    });
                    o.row_block.push(my_block);
                }
                CssNode::AtStmt { prelude } => {
                    let name = at_name(prelude).unwrap_or_default();
                    o.rows.push(FlatRow {
                        at_path: at.clone(),
                        selector: sel.unwrap_or("").to_string(),
                        prop: format!("@{}", name),
                        value: css::squeeze(&css::render(&prelude[1..])),
                    });
                    o.row_block.push(my_block);
                }
                CssNode::Block { prelude, children } => {
                    *blk += 1;
                    match at_name(prelude) {
                        Some(name) => {
                            let p = css::squeeze(&css::render(prelude));
                            // dart-sass never hides an unknown at-rule (`@foo {}` may be meaningful);
                            // empty @media / @supports blocks must vanish
                            if (name == "media" || name == "supports") && is_empty(children) {
                                o.empty_blocks.push(p.clone());
                            }
                            at.push(p);
                            walk(children, at, sel, blk, o);
                            at.pop();
                        }
                        None => {
                            let s = css::canon_selector(&css::render(prelude));
                            if is_empty(children) {
                                o.empty_blocks.push(s.clone());
                            }
                            if s.contains('&') {
                                o.amp_selectors.push(s.clone());
                            }
                            if sel.is_some() {
                                o.nested_style_rules.push(s.clone());
                            }
                            walk(children, at, Some(&s), blk, o);
                        }
                    }
                }
                CssNode::Comment(_) => {}
                CssNode::Junk(t) => o.junk.push(css::render(t)),
            }
        }
    }
    let mut o = Observed::default();
    let nodes = css::parse_nodes(&css::tokenize(css_text));
    let mut blk = 0;
    walk(&nodes, &mut vec![], None, &mut blk, &mut o);
    o
}

fn value_index(v: &str) -> Option<usize> {
    v.strip_prefix('v').and_then(|n| n.parse().ok())
}

fn row_json(r: &FlatRow) -> serde_json::Value {
    json!(format!("[{}] {} {{ {}: {} }}", r.at_path.join(" / "), r.selector, r.prop, r.value))
}

fn rows_json(rows: &[FlatRow]) -> serde_json::Value {
    json!(rows.iter().map(row_json).collect::<Vec<_>>())
}

/// Compare expected and observed rows. Every declaration carries a unique value `v<k>`, so rows are
/// matched by value first; that gives specific signatures.
pub fn compare(expected: &[FlatRow], obs: &Observed, global_order: bool, scss: &str, css_text: &str) -> Option<Failure> {
    let details = |extra: serde_json::Value| {
        json!({"scss": scss, "css": css_text, "expected": rows_json(expected), "observed": rows_json(&obs.rows), "detail": extra})
    };
    if !obs.junk.is_empty() {
        return Some(Failure::new("css:junk", "the output contains statements that are neither rules nor declarations", details(json!(obs.junk))));
    }
    // 1. multiset, matched by the unique value
    let mut by_value: BTreeMap<&str, Vec<&FlatRow>> = BTreeMap::new();
    for r in &obs.rows {
        by_value.entry(r.value.as_str()).or_default().push(r);
    }
    for e in expected {
        match by_value.get(e.value.as_str()).map(|v| v.as_slice()) {
            None => {
                return Some(Failure::new("rows:missing", format!("declaration {}: {} is missing from the output", e.prop, e.value), details(row_json(e))))
            }
            Some([o]) => {
                if o.prop != e.prop {
                    return Some(Failure::new("rows:property-name", format!("property name {:?}, expected {:?}", o.prop, e.prop), details(json!({"expected": row_json(e), "observed": row_json(o)}))));
                }
                if o.at_path != e.at_path {
                    return Some(Failure::new("rows:at-rule-context", format!("declaration {} sits in [{}], expected [{}]", e.value, o.at_path.join(" / "), e.at_path.join(" / ")), details(json!({"expected": row_json(e), "observed": row_json(o)}))));
                }
                if o.selector != e.selector {
                    return Some(Failure::new("rows:selector", format!("selector {:?}, expected {:?}", o.selector, e.selector), details(json!({"expected": row_json(e), "observed": row_json(o)}))));
                }
            }
            Some(many) => {
                return Some(Failure::new("rows:duplicated", format!("declaration {} appears {} times", e.value, many.len()), details(row_json(e))))
            }
        }
    }
    if obs.rows.len() != expected.len() {
        let exp: std::collections::BTreeSet<&str> = expected.iter().map(|r| r.value.as_str()).collect();
        let extra: Vec<_> = obs.rows.iter().filter(|r| !exp.contains(r.value.as_str())).map(row_json).collect();
        return Some(Failure::new("rows:extra", "the output has declarations the source does not produce", details(json!(extra))));
    }
    // 2. per at-rule path, the ordered subsequence
    let mut paths: Vec<&Vec<String>> = expected.iter().map(|r| &r.at_path).collect();
    paths.sort();
    paths.dedup();
    for p in paths {
        let e: Vec<&FlatRow> = expected.iter().filter(|r| &r.at_path == p).collect();
        let o: Vec<&FlatRow> = obs.rows.iter().filter(|r| &r.at_path == p).collect();
        if e != o {
            return Some(Failure::new(
                "rows:order-within-context",
                format!("order of declarations within context [{}] differs from source order", p.join(" / ")),
                details(json!({"context": p})),
            ));
        }
    }
    // 3. one global sequence
    if global_order {
        let e: Vec<&FlatRow> = expected.iter().collect();
        let o: Vec<&FlatRow> = obs.rows.iter().collect();
        if e != o {
            let first = e.iter().zip(o.iter()).position(|(a, b)| a != b).unwrap_or(0);
            return Some(Failure::new(
                "rows:global-order",
                "the sequence of (context, selector, declaration) differs from source order",
                details(json!({"first_difference_at": first, "expected": row_json(e[first]), "observed": row_json(o[first])})),
            ));
        }
    }
    // 4. structure
    if !obs.empty_blocks.is_empty() {
        return Some(Failure::new("css:empty-block", format!("empty block in the output: {}", obs.empty_blocks[0]), details(json!(obs.empty_blocks))));
    }
    if !obs.amp_selectors.is_empty() {
        return Some(Failure::new("css:ampersand", format!("`&` left in an output selector: {}", obs.amp_selectors[0]), details(json!(obs.amp_selectors))));
    }
    if !obs.nested_style_rules.is_empty() {
        return Some(Failure::new("css:nested-style-rule", format!("style rule nested in a style rule: {}", obs.nested_style_rules[0]), details(json!(obs.nested_style_rules))));
    }
    // 5. declarations of one block keep source order
    let mut last: BTreeMap<usize, usize> = BTreeMap::new();
    for (r, b) in obs.rows.iter().zip(&obs.row_block) {
        if let Some(k) = value_index(&r.value) {
            if let Some(prev) = last.get(b) {
                if *prev > k {
                    return Some(Failure::new("css:declaration-order", format!("declaration {} printed after v{} in the same block", r.value, prev), details(row_json(r))));
                }
            }
            last.insert(*b, k);
        }
    }
    None
}

pub fn nontrivial(s: &ruletree::Shape) -> bool {
    s.depth >= 2 && (s.bubbling || s.at_root > 0 || s.amp_non_leading || s.two_list_levels || s.decl_after_child)
}

/// the finding was repaired in /repo (fix: @at-root that keeps two or more enclosing rules …);
/// set to true to keep its region out of the search again
pub const EXCLUDE_AT_ROOT_TWO_ANCESTORS: bool = false;

impl Prop for C04 {
    type Case = Case;
    fn id(&self) -> &'static str {
        "C04"
    }
    fn rule(&self) -> String {
        "cases = rule trees (depth <= 4 blocks, width <= 3): style rules with 1-3 complex selectors built from type/class/pseudo-class compounds, `&` alone / with suffix (&-s, &__e, &--m, &2) / with simple selectors (&.y, &:hover) / repeated (& + &) / after a descendant (.x &), leading combinators; declarations, nested properties (2 levels, with and without a value), @media (one per path), @supports, unknown at-rules with and without bodies, @at-root bare / with a selector / (with|without: rule, media, supports, all, <name>). Every declaration value is renumbered v0..vn so each output row is identifiable. Free-form trees are repaired into the domain: `&` only below a style rule, declarations only where a style rule is in effect (or directly in an unknown at-rule body), no leading combinator without an implicit parent, resolved selector lists capped at 48, a second @media on a path becomes @supports. Non-trivial = depth >= 2 and (an at-rule with a body nested in a style rule, or @at-root, or `&` in a non-leading compound, or two nested levels both with >= 2 complex selectors, or a declaration after a nested child); distinct = distinct SCSS text.".into()
    }
    fn assumptions(&self) -> Vec<String> {
        vec![
            "global order is asserted unless some @at-root has two or more at-rules with bodies above it in the source (dart-sass appends hoisted content after the still-open top-level at-rule and only moves a later sibling behind it when that sibling's immediate parent has a following sibling); order per at-rule path and the multiset are always asserted".into(),
            "declarations / childless at-rules written directly in an at-rule body (no style rule in effect) after a sibling that contains @at-root, and childless at-rules directly in the body of an @at-root that leaves no style rule in effect, are kept out of the domain: dart-sass appends them to the block that is already open, i.e. before content hoisted earlier, so no source-order reading is defined for them".into(),
            "declarations directly in the body of an @at-root that excludes the style rule are out of the domain (an error in dart-sass)".into(),
            "an empty unknown at-rule block (`@foo {}`) is not counted as an empty block: dart-sass never hides unknown at-rules".into(),
            "the region of the repaired finding C04/at-root-keeps-two-ancestors (an @at-root that removes one enclosing rule and keeps two or more others) is searched like any other; its failures carry their own signature prefix".into(),
        ]
    }
    fn strategy(&self, tier: Tier) -> Option<(BoxedStrategy<Case>, u32)> {
        Some((ruletree::tree().prop_map(|tree| Case { tree }).boxed(), tier.pick(20_000, 200_000)))
    }
    fn check(&self, case: &Case, cx: &mut Ctx) -> Verdict {
        if !ruletree::in_domain(&case.tree) {
            cx.class("discard:outside-domain");
            return Verdict::Discard;
        }
        let tree = ruletree::renumber(&case.tree);
        let scss = ruletree::print_scss(&tree);
        let (expected, at_roots) = flatten_info(&tree);
        let sh = ruletree::shape(&tree);
        let global = !sh.at_root_below_two_at_rules;
        // known finding C04/at-root-keeps-two-ancestors: an @at-root that removes some enclosing rule
        // and keeps two or more others puts its body into the outermost kept rule
        let region = at_roots.iter().any(|(kept, _)| *kept >= 2);
        if region {
            cx.class("at-root keeps >= 2 enclosing rules (region of the repaired finding)");
        }
        if EXCLUDE_AT_ROOT_TWO_ANCESTORS && region && !cx.replay {
            cx.excluded("@at-root keeps >= 2 enclosing rules while removing another (C04/at-root-keeps-two-ancestors)");
            return Verdict::Discard;
        }

        let res = cx.compile(&Single::scss(scss.clone()));
        let css_text = match &res.outcome {
            Outcome::Css(c) => c.clone(),
            Outcome::Error(e) => {
                return Verdict::Fail(Failure::new(
                    "compile:error",
                    format!("a tree inside the domain is rejected: {}", e.message),
                    json!({"scss": scss, "error": e.display, "expected": rows_json(&expected)}),
                ));
            }
            other => {
                cx.inconclusive(&other.short());
                return Verdict::Discard;
            }
        };

        // evidence
        cx.class(if global { "order:global-asserted" } else { "order:per-context-only" });
        cx.class(&format!("depth:{}", sh.depth));
        cx.class(&format!("rows:{}", match expected.len() { 0 => "0", 1..=3 => "1-3", 4..=9 => "4-9", _ => "10+" }));
        for (name, on) in [
            ("shape:bubbling-at-rule-in-rule", sh.bubbling),
            ("shape:at-root", sh.at_root > 0),
            ("shape:at-root-selector", sh.at_root_sel > 0),
            ("shape:at-root-query", sh.at_root_query > 0),
            ("shape:amp", sh.amp_any),
            ("shape:amp-suffix", sh.amp_suffix),
            ("shape:amp-with-simples", sh.amp_with_simples),
            ("shape:amp-repeated", sh.amp_repeated),
            ("shape:amp-non-leading", sh.amp_non_leading),
            ("shape:leading-combinator", sh.lead_comb),
            ("shape:two-list-levels", sh.two_list_levels),
            ("shape:decl-after-child", sh.decl_after_child),
            ("shape:nested-props", sh.nested_props),
            ("shape:childless-at-rule", sh.childless_at_rule),
            ("shape:media", sh.media),
            ("shape:supports", sh.supports),
            ("shape:unknown-at-rule-body", sh.unknown_body),
            ("shape:bare-decl-in-at-rule", sh.bare_decl_in_at_rule),
        ] {
            if on {
                cx.class(name);
            }
        }
        if nontrivial(&sh) && !expected.is_empty() {
            cx.nontrivial(&scss);
            cx.sample_nontrivial(|| json!({"scss": scss, "css": css_text, "global_order_asserted": global}));
        } else {
            cx.sample(|| json!({"scss": scss, "css": css_text, "global_order_asserted": global}));
        }

        let obs = observe(&css_text);
        match compare(&expected, &obs, global, &scss, &css_text) {
            Some(mut f) => {
                if region {
                    f.signature = format!("at-root-keeps-two-ancestors:{}", f.signature);
                }
                Verdict::Fail(f)
            }
            None => Verdict::Pass,
        }
    }
}

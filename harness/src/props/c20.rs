//! C20 — the command-line tool mirrors the library and signals failure correctly.

use crate::corpus::corpus;
use crate::engine::*;
use crate::gen::chooser::{choices, Chooser};
use crate::gen::logprog::gen_log_program;
use crate::gen::sheet::{gen_sheet, SheetOpts};
use crate::gen::text::{apply_mutations, mut_op};
use proptest::prelude::*;
use serde::{Deserialize, Serialize};
use serde_json::json;
use std::io::{Read, Write};
use std::path::PathBuf;
use std::process::{Command, Stdio};
use std::time::{Duration, Instant};

pub struct C20;

#[derive(Clone, Debug, Serialize, Deserialize)]
pub struct Case {
    pub class: String,
    /// files of the scratch working directory (relative paths); the first is the input
    pub files: Vec<(String, String)>,
    pub stdin: bool,
    pub out_file: bool,
    pub compressed: bool,
    pub no_charset: bool,
    pub quiet: bool,
    pub no_unicode: bool,
    pub load_paths: Vec<String>,
    /// contents of an output file that exists before the tool runs (a rebuild)
    #[serde(default)]
    pub stale_output: Option<String>,
    /// hex bytes appended to the input (file or stdin) to make it invalid UTF-8
    #[serde(default)]
    pub invalid_utf8_tail: Option<String>,
}

pub fn cli_path() -> PathBuf {
    verif_root().join("harness").join("target").join("cli").join("release").join("grass")
}

#[derive(Clone, Debug)]
struct Flags {
    stdin: bool,
    out_file: bool,
    stale: Option<String>,
    compressed: bool,
    no_charset: bool,
    quiet: bool,
    no_unicode: bool,
}

fn flags() -> impl Strategy<Value = Flags> {
    (any::<bool>(), any::<bool>(), any::<bool>(), any::<bool>(), any::<bool>(), any::<bool>(), any::<u8>()).prop_map(|(stdin, out_file, compressed, no_charset, quiet, no_unicode, stale)| Flags {
        stale: match stale % 4 {
            0 => None,
            1 => Some(String::new()),
            2 => Some("/* old */\n".to_string()),
            _ => Some(format!("/* stale output of an earlier, much larger build */\n{}", "old { rule: value; }\n".repeat(200))),
        },
        stdin,
        // OUTPUT is the second positional argument: it cannot be combined with --stdin
        out_file: out_file && !stdin,
        compressed,
        no_charset,
        quiet,
        no_unicode,
    })
}

fn mk(class: &str, files: Vec<(String, String)>, f: Flags, load_paths: Vec<String>) -> Case {
    Case {
        class: class.into(),
        files,
        stdin: f.stdin,
        out_file: f.out_file,
        compressed: f.compressed,
        no_charset: f.no_charset,
        quiet: f.quiet,
        no_unicode: f.no_unicode,
        load_paths,
        stale_output: if f.out_file && !f.stdin { f.stale } else { None },
        invalid_utf8_tail: None,
    }
}

struct Run {
    code: Option<i32>,
    stdout: Vec<u8>,
    stderr: Vec<u8>,
    timed_out: bool,
}

fn run_cli(dir: &PathBuf, args: &[String], stdin_text: Option<&Vec<u8>>) -> std::io::Result<Run> {
    let mut child = Command::new(cli_path())
        .args(args)
        .current_dir(dir)
        .stdin(if stdin_text.is_some() { Stdio::piped() } else { Stdio::null() })
        .stdout(Stdio::piped())
        .stderr(Stdio::piped())
        .spawn()?;
    if let Some(t) = stdin_text {
        let mut si = child.stdin.take().unwrap();
        let t = t.clone();
        std::thread::spawn(move || {
            let _ = si.write_all(&t);
        });
    }
    let mut so = child.stdout.take().unwrap();
    let mut se = child.stderr.take().unwrap();
    let h1 = std::thread::spawn(move || {
        let mut b = vec![];
        let _ = so.read_to_end(&mut b);
        b
    });
    let h2 = std::thread::spawn(move || {
        let mut b = vec![];
        let _ = se.read_to_end(&mut b);
        b
    });
    let t0 = Instant::now();
    let mut timed_out = false;
    let code = loop {
        match child.try_wait()? {
            Some(st) => break st.code(),
            None => {
                if t0.elapsed() > Duration::from_secs(20) {
                    let _ = child.kill();
                    let _ = child.wait();
                    timed_out = true;
                    break None;
                }
                std::thread::sleep(Duration::from_millis(2));
            }
        }
    };
    Ok(Run {
        code,
        stdout: h1.join().unwrap_or_default(),
        stderr: h2.join().unwrap_or_default(),
        timed_out,
    })
}

impl Prop for C20 {
    type Case = Case;
    fn id(&self) -> &'static str {
        "C20"
    }
    fn rule(&self) -> String {
        "inputs: corpus entries (valid and failing), corpus mutations, generated value-heavy sheets, generated logging programs (@debug/@warn/@error, imported files), large sheets behind a preserved banner comment, inputs that are not valid UTF-8 and projects loaded through --load-path (incl. the same module in 2-3 load paths given in arbitrary order), x every subset of {--style compressed, --no-charset, --quiet, --no-unicode} x {file argument, --stdin} x {stdout, output file (fresh, or already existing with shorter/longer stale content)}, run through the built binary in a scratch working directory. Oracle: the same input compiled in-process with the equivalent Options over the same files: Ok(css) => exit 0, stdout (or the output file, stdout empty) byte-equal to css, every Logger message on stderr in order, stderr empty when nothing was logged or --quiet; Err(e) => exit != 0, stdout empty, output file empty or absent, stderr contains the rendered error. Non-trivial = >= 2 non-default flags, or a failing input, or warnings present, or an output file; distinct by (files, flags).".into()
    }
    fn assumptions(&self) -> Vec<String> {
        vec![
            "the CLI binary is built from /repo's working tree into harness/target/cli by ./check before this check runs".into(),
            "inputs on which the library panics or hangs are C01's subject and are skipped here (counted)".into(),
        ]
    }
    fn strategy(&self, tier: Tier) -> Option<(BoxedStrategy<Case>, u32)> {
        let n = corpus().len();
        let scss: Vec<usize> = (0..n).filter(|i| corpus()[*i].syntax == "scss" && !corpus()[*i].uses_random() && crate::gen::text::bracket_depth(&corpus()[*i].input) < 60).collect();
        let scss2 = scss.clone();
        let from_corpus = (any::<u16>(), flags()).prop_map(move |(i, f)| {
            let e = &corpus()[scss[idx(i, scss.len())]];
            mk(if e.kind == "error" { "corpus-error" } else { "corpus" }, vec![("input.scss".into(), e.input.clone())], f, vec![])
        });
        let mutated = (any::<u16>(), proptest::collection::vec(mut_op(), 1..3), flags()).prop_map(move |(i, ops, f)| {
            let e = &corpus()[scss2[idx(i, scss2.len())]];
            mk("corpus-mutation", vec![("input.scss".into(), apply_mutations(&e.input, &ops))], f, vec![])
        });
        let sheets = (choices(140), flags()).prop_map(|(ch, f)| {
            let mut c = Chooser::new(&ch);
            mk("gen-sheet", vec![("input.scss".into(), gen_sheet(&mut c, SheetOpts::default()).scss)], f, vec![])
        });
        let logs = (choices(200), flags()).prop_map(|(ch, mut f)| {
            let mut c = Chooser::new(&ch);
            let p = gen_log_program(&mut c);
            if p.files.len() > 1 && p.files[0].0.contains('/') {
                // --stdin resolves imports against the working directory, not against src/
                f.stdin = false;
            }
            mk("log-program", p.files, f, vec![])
        });
        let project = (any::<u8>(), flags(), any::<bool>()).prop_map(|(k, f, second)| {
            let files = vec![
                ("main.scss".to_string(), format!("@use \"colors\";\n@import \"base\";\na {{\n  color: colors.$brand;\n  width: {}px;\n}}\n", k)),
                ("lib/_colors.scss".to_string(), "$brand: #abcdef;\n@debug \"colors loaded\";\n".to_string()),
                (if second { "vendor/base.scss" } else { "lib/base.scss" }.to_string(), ".base {\n  margin: 0.5em;\n}\n@warn \"base is old\";\n".to_string()),
            ];
            let mut lp = vec!["lib".to_string()];
            if second {
                lp.push("vendor".into());
            }
            mk("load-path-project", files, f, lp)
        });
        // the same module in several load paths: the first path given on the command line wins
        let precedence = (proptest::collection::vec(any::<u16>(), 2..4), flags()).prop_map(|(order, f)| {
            let dirs = ["vendor", "app", "lib", "zz", "a-first"];
            let mut lp: Vec<String> = vec![];
            for o in order {
                let d = dirs[idx(o, dirs.len())].to_string();
                if !lp.contains(&d) {
                    lp.push(d);
                }
            }
            let mut files = vec![("main.scss".to_string(), "@use \"theme\";\na {\n  from: theme.$origin;\n}\n".to_string())];
            for d in &lp {
                files.push((format!("{}/_theme.scss", d), format!("$origin: {};\n", d)));
            }
            mk("load-path-precedence", files, f, lp)
        });
        // a large sheet behind a preserved multi-line banner (compressed output = one long line
        // after the banner's newlines)
        let large = (choices(400), any::<u8>(), flags()).prop_map(|(ch, reps, f)| {
            let mut c = Chooser::new(&ch);
            let mut src = String::from("/*! banner\n * second line\n */\n");
            let one = gen_sheet(&mut c, SheetOpts::default()).scss;
            let body: String = one.lines().filter(|l| !l.starts_with("@use") && !l.starts_with("@import") && !l.starts_with('$')).collect::<Vec<_>>().join("\n");
            src.push_str("@use \"sass:math\";\n$i: 3;\n$n: 0.5;\n$c: #ff0000;\n$s: \"str\";\n$l: 1px 2px 3px;\n");
            for k in 0..(8 + reps as usize % 40) {
                src.push_str(&format!(".rep{} {{\n  w: {}px;\n}}\n", k, k));
                src.push_str(&body);
                src.push('\n');
            }
            mk("large-sheet", vec![("input.scss".into(), src)], f, vec![])
        });
        // input that is not valid UTF-8 (file and --stdin): must fail, never be "repaired"
        let bad_utf8 = (any::<u8>(), flags()).prop_map(|(k, f)| {
            let src = ["a {\n  b: \"x", "// note ", "a {\n  b: c;\n}\n/* "][k as usize % 3].to_string();
            let tail = ["e9", "c3", "f09f98", "ff", "80", "e9223b7d"][(k / 3) as usize % 6].to_string();
            let mut c = mk("invalid-utf8-input", vec![("input.scss".into(), src)], f, vec![]);
            c.invalid_utf8_tail = Some(tail);
            c
        });
        let missing = flags().prop_map(|f| mk("missing-input-file", vec![("other.scss".into(), "a{b:c}".into())], Flags { stdin: false, ..f }, vec![]));
        let s = prop_oneof![4 => from_corpus, 3 => mutated, 3 => sheets, 4 => logs, 2 => project, 2 => precedence, 2 => large, 2 => bad_utf8, 1 => missing].boxed();
        Some((s, tier.pick(3_000, 40_000)))
    }
    fn check(&self, case: &Case, cx: &mut Ctx) -> Verdict {
        if !cli_path().exists() {
            cx.inconclusive("cli-binary-missing");
            return Verdict::Discard;
        }
        cx.class(&format!("class:{}", case.class));
        let input_name = if case.class == "missing-input-file" { "input.scss".to_string() } else { case.files[0].0.clone() };
        let input_text = case.files[0].1.clone();
        // ---- reference: the library, in-process (sandboxed worker), over the same files ----
        let mut input_bytes: Vec<u8> = input_text.as_bytes().to_vec();
        if let Some(h) = &case.invalid_utf8_tail {
            input_bytes.extend(Bytes::Hex(h.clone()).to_vec());
        }
        let mut s = Single::scss("");
        for (i, (n, t)) in case.files.iter().enumerate() {
            if i == 0 && case.invalid_utf8_tail.is_some() {
                s.files.push((n.clone(), Bytes::from_vec(input_bytes.clone())));
            } else {
                s.files.push((n.clone(), Bytes::Text(t.clone())));
            }
        }
        // bytes that are not UTF-8 cannot be handed to from_string: the reference reads them as a file
        s.entry = if case.stdin && case.invalid_utf8_tail.is_none() { Entry::Text(input_text.clone()) } else { Entry::Path(input_name.clone()) };
        s.style = if case.compressed { Style::Compressed } else { Style::Expanded };
        s.charset = !case.no_charset;
        s.quiet = case.quiet;
        s.unicode = !case.no_unicode;
        s.load_paths = case.load_paths.clone();
        let lib = cx.compile(&s);
        if lib.outcome.is_abnormal() {
            cx.inconclusive("library abnormal (C01's subject)");
            return Verdict::Discard;
        }
        // ---- the binary ----
        let dir = cx.worker.scratch_dir().join(format!("c20_{}", cx.stats.evaluations));
        let _ = std::fs::remove_dir_all(&dir);
        for (i, (n, t)) in case.files.iter().enumerate() {
            let p = dir.join(n);
            if let Some(par) = p.parent() {
                let _ = std::fs::create_dir_all(par);
            }
            let data: Vec<u8> = if i == 0 { input_bytes.clone() } else { t.as_bytes().to_vec() };
            if std::fs::write(&p, data).is_err() {
                cx.inconclusive("scratch-write-failed");
                return Verdict::Discard;
            }
        }
        let _ = std::fs::create_dir_all(&dir);
        if let Some(old) = &case.stale_output {
            let _ = std::fs::write(dir.join("out.css"), old);
            cx.class("output-file-exists-before");
        }
        let mut args: Vec<String> = vec![];
        if case.compressed {
            args.push("--style".into());
            args.push("compressed".into());
        }
        if case.no_charset {
            args.push("--no-charset".into());
        }
        if case.quiet {
            args.push("--quiet".into());
        }
        if case.no_unicode {
            args.push("--no-unicode".into());
        }
        for lp in &case.load_paths {
            args.push("--load-path".into());
            args.push(lp.clone());
        }
        if case.stdin {
            args.push("--stdin".into());
        } else {
            args.push(input_name.clone());
        }
        if case.out_file {
            if case.stdin {
                // OUTPUT is the second positional: without INPUT it would be taken as the input
                cx.class("discard:stdin+output-file (not expressible)");
                let _ = std::fs::remove_dir_all(&dir);
                return Verdict::Discard;
            }
            args.push("out.css".into());
        }
        let run = match run_cli(&dir, &args, if case.stdin { Some(&input_bytes) } else { None }) {
            Ok(r) => r,
            Err(e) => {
                cx.inconclusive(&format!("spawn-failed:{}", e.kind()));
                let _ = std::fs::remove_dir_all(&dir);
                return Verdict::Discard;
            }
        };
        let out_file = std::fs::read(dir.join("out.css")).ok();
        let _ = std::fs::remove_dir_all(&dir);
        if run.timed_out {
            cx.inconclusive("cli-timeout");
            return Verdict::Discard;
        }
        let stdout = String::from_utf8_lossy(&run.stdout).into_owned();
        let stderr = String::from_utf8_lossy(&run.stderr).into_owned();
        let nflags = [case.compressed, case.no_charset, case.quiet, case.no_unicode, !case.load_paths.is_empty()].iter().filter(|b| **b).count();
        let details = || json!({"args": args, "exit": run.code, "stdout": stdout, "stderr": stderr, "out_file": out_file.as_ref().map(|b| String::from_utf8_lossy(b).into_owned()), "library": lib.outcome.short(), "library_logs": lib.logs});
        let fail = |sig: &str, what: &str| Verdict::Fail(Failure::new(sig, what, details()));
        let nontrivial = nflags >= 2 || lib.outcome.is_err() || !lib.logs.is_empty() || case.out_file;
        if nontrivial {
            cx.nontrivial(&(&case.files, &args));
            cx.sample_nontrivial(|| json!({"class": case.class, "args": args, "input": input_text, "exit": run.code, "stderr": stderr}));
        } else {
            cx.sample(|| json!({"class": case.class, "args": args, "input": input_text}));
        }
        match &lib.outcome {
            Outcome::Css(css) => {
                cx.class("library:ok");
                if run.code != Some(0) {
                    return fail("ok:nonzero-exit", "the library compiles the input but the tool exits non-zero");
                }
                if case.out_file {
                    if !stdout.is_empty() {
                        return fail("ok:stdout-not-empty-with-output-file", "CSS or other text on stdout although an output file was given");
                    }
                    match &out_file {
                        Some(b) if b == css.as_bytes() => {}
                        _ => return fail("ok:output-file-differs", "the output file does not hold the CSS the library returns"),
                    }
                } else if stdout != *css {
                    return fail("ok:stdout-differs", "stdout is not byte-equal to the CSS the library returns");
                }
                if case.quiet || lib.logs.is_empty() {
                    if !stderr.is_empty() {
                        return fail("ok:stderr-not-empty", "stderr is not empty although nothing was logged (or --quiet)");
                    }
                } else {
                    let mut pos = 0;
                    for l in &lib.logs {
                        match stderr[pos..].find(&l.message) {
                            Some(p) => pos += p + l.message.len(),
                            None => return fail("ok:log-missing-on-stderr", "a @debug/@warn message is missing from stderr (or out of order)"),
                        }
                    }
                }
                Verdict::Pass
            }
            Outcome::Error(e) => {
                cx.class(&format!("library:error:{}", e.kind));
                if run.code == Some(0) || run.code.is_none() {
                    return fail("err:zero-exit", "the library reports an error but the tool exits 0 (or was killed)");
                }
                if !stdout.is_empty() {
                    return fail("err:stdout-not-empty", "text on stdout although compilation failed");
                }
                if let Some(b) = &out_file {
                    if !b.is_empty() {
                        return fail("err:output-file-not-empty", "the output file holds data although compilation failed");
                    }
                }
                // the rendered error (trailing newline aside) must be on stderr
                let want = e.display.trim_end();
                let want = if e.kind == "io" || e.kind == "utf8" {
                    // the OS error text differs between the in-memory and the real file system
                    "Error: ".to_string()
                } else if e.kind == "parse" && e.file != input_name && e.file != "stdin" {
                    // an imported file is named by its canonical (absolute) path on the real file
                    // system: compare the message line only
                    format!("Error: {}", e.message)
                } else {
                    want.to_string()
                };
                if !stderr.contains(&want) {
                    return fail("err:rendered-error-missing", "stderr does not contain the error as the library renders it for the chosen message mode");
                }
                Verdict::Pass
            }
            _ => Verdict::Discard,
        }
    }
}

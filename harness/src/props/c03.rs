//! C03 — SassScript scoping and control flow: generated programs over the Sass core are compiled by
//! grass and evaluated by the independent reference interpreter (`oracle::interp`); the emitted
//! declarations (per selector) and the @debug/@warn messages must agree.

use crate::engine::*;
use crate::gen::program::*;
use crate::oracle::css;
use crate::oracle::interp::{Features, Interp, LogKind, Output, Stop};
use proptest::prelude::*;
use serde::{Deserialize, Serialize};
use serde_json::json;
use std::collections::BTreeMap;

pub struct C03;

/// DESIGN §4 #23: grass passes the *quoted* form of a string to `Logger::debug/warn`
/// (`@debug "a"` logs `"a"`, Sass logs `a`). While that defect is open the generator keeps
/// possibly-quoted strings out of @debug/@warn arguments (numbers, unquoted strings, unquoted
/// interpolation, lists and maps are unaffected). Set to `false` once /repo is repaired.
pub const AVOID_QUOTED_LOG_STRINGS: bool = false;

/// DESIGN §4 #9: grass de-duplicates @warn by source span alone, so a @warn statement that is
/// executed with two different messages only reports the first. While that defect is open such
/// an observation is counted as excluded instead of failing. Set to `false` once repaired.
pub const TOLERATE_WARN_SPAN_DEDUP: bool = false;

/// Finding "repeated @warn does not evaluate its argument" (same code as #9: the span check in
/// `visit_warn_rule` precedes the evaluation): the generator keeps function calls out of @warn
/// arguments while this is open. Set to `false` once repaired.
pub const AVOID_CALLS_IN_WARN: bool = false;

/// Finding "an argument list built from a space-separated splat is comma-separated": the
/// generator only splats comma-separated lists into rest parameters while this is open.
pub const AVOID_SPACE_SPLAT: bool = false;

/// Finding "named arguments are evaluated in interner order, not in source order": while it is
/// open, invocations with two or more named arguments contain no user-function calls.
pub const AVOID_CALLS_IN_NAMED: bool = true;

/// development self-test of `print_sass` (costs a second compilation per case)
const SASS_TWIN_SELFTEST: bool = false;

#[derive(Clone, Debug, Serialize, Deserialize)]
pub struct Case {
    pub program: Program,
}

fn norm_value(v: &str) -> String {
    css::squeeze(&css::render(&css::tokenize(v)))
}

fn norm_err(m: &str) -> String {
    let mut out = String::new();
    let mut last_digit = false;
    for c in m.chars() {
        if c.is_ascii_digit() {
            if !last_digit {
                out.push('N');
            }
            last_digit = true;
        } else {
            last_digit = false;
            out.push(if c == '\n' { ' ' } else { c });
        }
        if out.len() > 60 {
            break;
        }
    }
    out
}

type Decls = BTreeMap<String, Vec<(String, String)>>;

fn dedup_first(v: &[(usize, String)]) -> Vec<(usize, String)> {
    let mut out: Vec<(usize, String)> = vec![];
    for e in v {
        if !out.contains(e) {
            out.push(e.clone());
        }
    }
    out
}

fn first_per_line(v: &[(usize, String)]) -> Vec<(usize, String)> {
    let mut out: Vec<(usize, String)> = vec![];
    for e in v {
        if !out.iter().any(|o| o.0 == e.0) {
            out.push(e.clone());
        }
    }
    out
}

fn feature_classes(f: &Features) -> Vec<(&'static str, u32)> {
    vec![
        ("feat:callable-invocation", f.calls),
        ("feat:function-call", f.fn_calls),
        ("feat:include", f.includes),
        ("feat:control-flow", f.control),
        ("feat:outer-assign", f.outer_assign),
        ("feat:semi-global-assign", f.semi_global_assign),
        ("feat:shadowing-local-of-global", f.shadowing_local),
        ("feat:closure-captures-local", f.closure_local),
        ("feat:content-block", f.content_blocks),
        ("feat:content-using", f.content_using),
        ("feat:content-without-block", f.content_skipped),
        ("feat:!global", f.global_flag),
        ("feat:!default-assigned", f.default_assigned),
        ("feat:!default-skipped", f.default_skipped),
        ("feat:return-in-loop", f.return_in_loop),
        ("feat:for-descending", f.desc_for),
        ("feat:for-ascending", f.asc_for),
        ("feat:map-destructuring", f.map_destructure),
        ("feat:list-destructuring", f.list_destructure),
        ("feat:while-iteration", f.while_iters),
        ("feat:default-argument-evaluated", f.defaults_evaluated),
        ("feat:named-argument", f.named_args),
        ("feat:splat-argument", f.splat_args),
        ("feat:keywords-forwarded", f.kw_forwarded),
        ("feat:rest-collected", f.rest_collected),
        ("feat:and-or-short-circuit", f.short_circuit),
        ("feat:string-concat", f.string_concat),
    ]
}

impl Prop for C03 {
    type Case = Case;
    fn id(&self) -> &'static str {
        "C03"
    }
    fn rule(&self) -> String {
        "cases = programs of the typed core AST P (variables with !default/!global, style rules, declarations, @if/@else if/@else, @for to|through both directions, @each over lists/maps with destructuring, @while with a decreasing counter, @function/@return, @mixin/@include with positional/named/default/rest/keyword-forwarding arguments and @content/using, @debug/@warn), built from choice tapes (one per top-level statement; well-typed and terminating by construction: the type of a variable is fixed by its name, only definitely-defined names are read, loop bounds <= 6, callables only call earlier ones, block depth <= 4, <= 60 statements), printed as SCSS. Non-trivial = while being evaluated by the reference interpreter the program performs >= 1 function call or mixin include, >= 1 control-flow statement and >= 1 assignment from a nested scope to a variable that lives in an outer scope; distinct = distinct program text.".into()
    }
    fn assumptions(&self) -> Vec<String> {
        vec![
            "the reference interpreter implements the documented Sass rules; where the documentation is silent it follows the Sass language specification / dart-sass 1.54 (one scope per loop, floored modulo, `a + \"b\"` keeps the left operand's quoting, a content block is not a semi-global scope)".into(),
            "numbers are exact decimals with <= 3 fractional digits and magnitude <= 1e9; programs leaving that range (or a 200k-step budget) are discarded and counted".into(),
            "where a nested rule's block is placed relative to its parent's later declarations is not judged here (C04): declarations are compared as one sequence per selector".into(),
            "@warn is compared as: the distinct (line, message) pairs in first-occurrence order (independent of the de-duplication policy, C19)".into(),
        ]
    }
    fn strategy(&self, tier: Tier) -> Option<(BoxedStrategy<Case>, u32)> {
        let cfg = GenCfg { avoid_quoted_logs: AVOID_QUOTED_LOG_STRINGS, avoid_calls_in_warn: AVOID_CALLS_IN_WARN, avoid_space_splat: AVOID_SPACE_SPLAT, avoid_calls_in_named: AVOID_CALLS_IN_NAMED, ..GenCfg::default() };
        let s = program_strategy(cfg).prop_map(|program| Case { program }).boxed();
        Some((s, tier.pick(12_000, 120_000)))
    }
    fn check(&self, case: &Case, cx: &mut Ctx) -> Verdict {
        let printed = print_scss(&case.program);
        let text = printed.text.clone();
        // ---- expected ----
        let expected: Output = match Interp::run(&case.program) {
            Ok(o) => o,
            Err((Stop::OutOfDomain(why), _)) => {
                cx.class(&format!("discard:{}", why));
                return Verdict::Discard;
            }
            Err((Stop::Error(m), _)) => {
                // the generator promises well-typed programs: this is a harness defect, not a finding
                return Verdict::Fail(Failure::new(
                    format!("harness:generator-produced-erroneous-program:{}", norm_err(&m)),
                    format!("the reference interpreter rejects the generated program: {}", m),
                    json!({"scss": text, "interp_error": m}),
                ));
            }
        };
        // ---- observed ----
        let res = cx.compile(&Single::scss(text.clone()));
        let css_text = match &res.outcome {
            Outcome::Css(c) => c.clone(),
            Outcome::Error(e) => {
                cx.class("grass:error");
                return Verdict::Fail(Failure::new(
                    format!("C03/grass-error:{}", norm_err(&e.message)),
                    format!("grass rejects a program the Sass rules accept: {}", e.message),
                    json!({"scss": text, "error": e.display}),
                ));
            }
            Outcome::Panic { at, msg } => {
                // the program is inside the property's domain (the Sass rules assign it an output):
                // no output at all is a violation of C03, not only of C01
                cx.class("grass:panic");
                return Verdict::Fail(Failure::new(
                    format!("C03/{}", crate::props::c01::panic_signature(at, msg)),
                    format!("grass panics on a well-typed terminating program: {} at {}", msg, at),
                    json!({"scss": text, "at": at, "msg": msg}),
                ));
            }
            _ => {
                cx.inconclusive("timeout-or-crash");
                return Verdict::Discard;
            }
        };
        // development aid (off): the indented-syntax printer yields the same CSS and log messages
        if SASS_TWIN_SELFTEST {
            let sp = print_sass(&case.program);
            let r2 = cx.compile(&Single::scss(sp.text.clone()).with_syntax(Syntax::Sass));
            let same_css = r2.outcome.css() == Some(css_text.as_str());
            let m1: Vec<&String> = res.logs.iter().map(|l| &l.message).collect();
            let m2: Vec<&String> = r2.logs.iter().map(|l| &l.message).collect();
            let l2: Vec<usize> = r2.logs.iter().filter(|l| l.kind == "debug").map(|l| l.line).collect();
            let e2: Vec<usize> = expected
                .logs
                .iter()
                .filter(|l| l.kind == LogKind::Debug)
                .map(|l| sp.lines.get(&l.id).copied().unwrap_or(usize::MAX))
                .collect();
            if !same_css || m1 != m2 || l2 != e2 {
                return Verdict::Fail(Failure::new(
                    "harness:sass-printer-twin-differs",
                    "the indented-syntax printing of the program compiles differently",
                    json!({"scss": text, "sass": sp.text, "css": css_text, "sass_outcome": r2.outcome.short()}),
                ));
            }
        }
        // ---- evidence ----
        let f = &expected.features;
        for (name, n) in feature_classes(f) {
            if n > 0 {
                cx.class(name);
            }
        }
        let nst = case.program.count_stmts();
        cx.class(match nst {
            0..=9 => "size:01-09",
            10..=19 => "size:10-19",
            20..=39 => "size:20-39",
            _ => "size:40+",
        });
        cx.class_n("total:declarations-emitted", expected.rows.len() as u64);
        cx.class_n("total:log-messages", expected.logs.len() as u64);
        if expected.rows.is_empty() && expected.logs.is_empty() {
            cx.class("no-observable-output");
        }
        if case.program.diverted_logs > 0 {
            cx.excluded("quoted-string @debug/@warn argument replaced by an unquoted one (finding #23)");
        }
        if case.program.diverted_splats > 0 {
            cx.excluded("rest splat restricted to a comma-separated list (finding: arglist separator)");
        }
        if case.program.diverted_named > 0 {
            cx.excluded("no function calls in an invocation with >= 2 named arguments (finding: named-argument order)");
        }
        let nontrivial = f.calls >= 1 && f.control >= 1 && f.outer_assign >= 1;
        if nontrivial {
            cx.nontrivial(&text);
            cx.sample_nontrivial(|| json!({"scss": text, "css": css_text, "logs": res.logs.iter().map(|l| format!("{} {}: {}", l.kind, l.line, l.message)).collect::<Vec<_>>() }));
        } else {
            cx.sample(|| json!({"scss": text, "css": css_text}));
        }

        // inside the region of the finding "a repeated @warn does not evaluate its argument" every
        // difference is attributed to it (the lost call may have assigned globals or logged)
        let region = expected.warn_reeval_calls;
        let named_region = expected.named_order_region;
        if named_region {
            cx.class("region:named-arguments-with-calls");
        }
        let space_arglist = expected.space_arglist;
        if space_arglist {
            cx.class("region:space-separated-arglist");
        }
        let sig_of = |s: &str| -> String {
            if region && s != "C03/log-string-quoted" {
                "C03/warn-argument-not-reevaluated".to_string()
            } else if space_arglist && (s == "C03/debug" || s == "C03/decl:value") {
                "C03/arglist-separator".to_string()
            } else if named_region && s != "C03/log-string-quoted" {
                "C03/named-argument-order".to_string()
            } else {
                s.to_string()
            }
        };
        if region {
            cx.class("region:warn-reevaluated-with-calls");
        }
        // ---- declarations per selector ----
        let mut exp: Decls = BTreeMap::new();
        for (sel, p, v) in &expected.rows {
            exp.entry(css::canon_selector(sel)).or_default().push((p.clone(), norm_value(v)));
        }
        let mut obs: Decls = BTreeMap::new();
        for r in css::rows(&css_text) {
            let key = if r.at_path.is_empty() { r.selector.clone() } else { format!("{} {}", r.at_path.join(" "), r.selector) };
            obs.entry(key).or_default().push((r.prop.clone(), r.value.clone()));
        }
        if exp != obs {
            let es: Vec<&String> = exp.keys().collect();
            let os: Vec<&String> = obs.keys().collect();
            let sig = if es != os {
                "C03/decl:selectors"
            } else if exp.iter().zip(obs.iter()).any(|((_, a), (_, b))| a.len() != b.len()) {
                "C03/decl:count"
            } else {
                "C03/decl:value"
            };
            let mut diff = vec![];
            for k in exp.keys().chain(obs.keys()) {
                if exp.get(k) != obs.get(k) && !diff.iter().any(|d: &serde_json::Value| d["selector"] == json!(k)) {
                    diff.push(json!({"selector": k, "expected": exp.get(k), "observed": obs.get(k)}));
                }
            }
            return Verdict::Fail(Failure::new(
                sig_of(sig),
                "declarations emitted by grass differ from the reference evaluation",
                json!({"scss": text, "css": css_text, "diff": diff}),
            ));
        }

        // ---- @debug: exact sequence ----
        let line_of = |id: u32| -> usize { printed.lines.get(&id).copied().unwrap_or(usize::MAX) };
        let quote = |m: &str| format!("\"{}\"", m);
        let e_dbg: Vec<(usize, String, bool)> = expected
            .logs
            .iter()
            .filter(|l| l.kind == LogKind::Debug)
            .map(|l| (line_of(l.id), l.message.clone(), l.quoted_string))
            .collect();
        let o_dbg: Vec<(usize, String)> = res
            .logs
            .iter()
            .filter(|l| l.kind == "debug")
            .map(|l| (l.line, l.message.clone()))
            .collect();
        let e_plain: Vec<(usize, String)> = e_dbg.iter().map(|(l, m, _)| (*l, m.clone())).collect();
        if e_plain != o_dbg {
            let e_alt: Vec<(usize, String)> =
                e_dbg.iter().map(|(l, m, q)| (*l, if *q { quote(m) } else { m.clone() })).collect();
            let sig = if e_alt == o_dbg { "C03/log-string-quoted" } else { "C03/debug" };
            return Verdict::Fail(Failure::new(
                sig_of(sig),
                if sig == "C03/debug" {
                    "the @debug messages differ from the reference evaluation"
                } else {
                    "@debug of a quoted string logs the string with its quotes (Sass logs the text)"
                },
                json!({"scss": text, "expected": e_plain, "observed": o_dbg}),
            ));
        }

        // ---- @warn: distinct (line, message) in first-occurrence order ----
        let e_w: Vec<(usize, String, bool)> = expected
            .logs
            .iter()
            .filter(|l| l.kind == LogKind::Warn)
            .map(|l| (line_of(l.id), l.message.clone(), l.quoted_string))
            .collect();
        let o_w: Vec<(usize, String)> = dedup_first(
            &res.logs
                .iter()
                .filter(|l| l.kind == "warn")
                .map(|l| (l.line, l.message.clone()))
                .collect::<Vec<_>>(),
        );
        let e_plain = dedup_first(&e_w.iter().map(|(l, m, _)| (*l, m.clone())).collect::<Vec<_>>());
        if e_plain != o_w {
            let e_alt = dedup_first(
                &e_w.iter().map(|(l, m, q)| (*l, if *q { quote(m) } else { m.clone() })).collect::<Vec<_>>(),
            );
            let span_dedup = first_per_line(&e_plain) == o_w || first_per_line(&e_alt) == o_w;
            let sig = if e_alt == o_w {
                "C03/log-string-quoted"
            } else if span_dedup {
                "C03/warn-dedup-by-span"
            } else {
                "C03/warn"
            };
            if sig == "C03/warn-dedup-by-span" && TOLERATE_WARN_SPAN_DEDUP && !cx.replay && first_per_line(&e_plain) == o_w {
                cx.excluded("@warn statement executed with different messages, only the first reported (finding #9)");
                return Verdict::Pass;
            }
            return Verdict::Fail(Failure::new(
                sig_of(sig),
                "the @warn messages differ from the reference evaluation",
                json!({"scss": text, "expected": e_plain, "observed": o_w}),
            ));
        }
        Verdict::Pass
    }
}

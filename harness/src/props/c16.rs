//! C16 — calc()/min()/max()/clamp() simplification preserves the computed value.

use crate::engine::*;
use crate::gen::calcexpr::{self, Sheet, ASSERT_UNITLESS_VS_UNIT_SUMS};
use crate::oracle::calc::{self, Analysis, EvalErr, Node, Shape, Vars};
use proptest::prelude::*;
use serde_json::json;

pub struct C16;

pub type Case = Sheet;

const REL_TOL: f64 = 1e-9;

pub const SIG_UNITLESS: &str = "C16/unitless-vs-unit-sum-accepted";
pub const SIG_ONE_AS_ZERO: &str = "C16/compressed-prints-1-as-0";

/// DESIGN finding #12 (compressed style prints 0.99999999999 as `0`; it belongs to C07/C06): while
/// it is open, a case that fails ONLY in compressed style and only because a number that the
/// expanded output spells `1`/`-1` is spelled `0` is excluded (counted); `true` = asserted.
pub const ASSERT_COMPRESSED_ONE_AS_ZERO: bool = true;

fn number_tokens(s: &str) -> Vec<f64> {
    s.split(|c: char| !(c.is_ascii_digit() || c == '.' || c == '-'))
        .filter(|t| t.chars().any(|c| c.is_ascii_digit()))
        .filter_map(|t| t.parse::<f64>().ok())
        .collect()
}

/// the two printed values have the same numbers except that some `1`/`-1` became `0`
fn prints_one_as_zero(expanded: &str, compressed: &str) -> bool {
    let (e, c) = (number_tokens(expanded), number_tokens(compressed));
    if e.len() != c.len() {
        return false;
    }
    let mut hit = false;
    for (a, b) in e.iter().zip(c.iter()) {
        if a == b {
            continue;
        }
        if a.abs() == 1.0 && *b == 0.0 {
            hit = true;
        } else {
            return false;
        }
    }
    hit
}

fn panic_signature(at: &str, msg: &str) -> String {
    format!("C16/{}", crate::props::c01::panic_signature(at, msg))
}

/// The value of the single declaration `b` of the single rule `a` (raw text, so that white space
/// around operators is seen as printed).
fn declared_value(css: &str) -> Option<String> {
    let t = css.trim();
    let t = t.strip_prefix('a')?.trim_start();
    let t = t.strip_prefix('{')?.trim_start();
    let t = t.strip_prefix("b:")?;
    let t = t.trim_end().strip_suffix('}')?.trim();
    let t = t.strip_suffix(';').unwrap_or(t).trim();
    if t.contains('{') || t.contains('}') || t.contains(';') {
        return None;
    }
    Some(t.to_string())
}

fn fail(sig: &str, what: String, p: &calcexpr::Printed, res: &Res, extra: serde_json::Value) -> Verdict {
    Verdict::Fail(Failure::new(
        sig,
        what,
        json!({"scss": p.scss, "expression": p.expr, "observed": res.outcome.short(), "detail": extra}),
    ))
}

/// Parse the printed declaration value and compare it with the source under every environment.
fn judge_output(
    css: &str,
    p: &calcexpr::Printed,
    src_q: &[calc::Q],
    envs: &[calc::Env; 3],
    vars: &Vars,
    has_interp: bool,
) -> Result<(String, Node), (String, String, serde_json::Value)> {
    let printed = match declared_value(css) {
        Some(v) => v,
        None => {
            return Err((
                "C16/output-shape".into(),
                format!("the output is not the single declaration a{{b: …}} for {}", p.expr),
                json!({}),
            ))
        }
    };
    // with interpolation the surrounding text is passed through unevaluated, `$variables`
    // included (documented: nothing around an interpolation is simplified or checked), so the
    // printed text is read with the source's variable bindings
    let out = match calc::parse_value(&printed, has_interp) {
        Ok(n) => n,
        Err(e) => {
            return Err((
                "C16/output-not-a-calculation".into(),
                format!("printed value `{}` is not a number or a CSS calculation: {}", printed, e),
                json!({"printed": printed, "parse_error": e}),
            ))
        }
    };
    let empty = Vars::new();
    let out_vars = if has_interp { vars } else { &empty };
    for (k, env) in envs.iter().enumerate() {
        let o = match calc::eval(&out, env, out_vars) {
            Ok(q) => q,
            Err(e) => {
                return Err((
                    "C16/output-unevaluable".into(),
                    format!("printed value `{}` cannot be evaluated ({:?}) although the source {} can", printed, e, p.expr),
                    json!({"printed": printed, "error": format!("{:?}", e)}),
                ))
            }
        };
        if !calc::close(&src_q[k], &o, REL_TOL) {
            return Err((
                "C16/value-changed".into(),
                format!(
                    "{} = {} but printed `{}` = {} (dims {:?} vs {:?}) with 1em={} 1rem={} 1vw={} 1%={}",
                    p.expr, src_q[k].v, printed, o.v, src_q[k].dim, o.dim, env.em, env.rem, env.vw, env.pct
                ),
                json!({"printed": printed, "source_value": src_q[k].v, "printed_value": o.v,
                       "source_dim": src_q[k].dim, "printed_dim": o.dim, "magnitude": src_q[k].mag.max(o.mag),
                       "env": {"em": env.em, "rem": env.rem, "vw": env.vw, "pct": env.pct}}),
            ));
        }
    }
    Ok((printed, out))
}

impl Prop for C16 {
    type Case = Case;
    fn id(&self) -> &'static str {
        "C16"
    }
    fn rule(&self) -> String {
        "a case is one calculation (top-level calc/min/max/clamp over typed expression trees: up to 4 nested levels of + - * / and nested calc/min/max/clamp, numbers with <= 3 decimals in px/em/rem/%/vw/in/pt/deg/turn/s/ms/unitless, numeric variables, calculation-valued variables, #{$var} leaves) printed as the value of one declaration (directly or through a variable, expanded or compressed). The oracle parses the SOURCE text and the PRINTED value with its own CSS-calc parser and evaluates both under three unit environments (1em=13.7px 1rem=17.3px 1vw=9.1px 1%=2.3px, and two drawn from a hash of the source); values and dimensions must agree within 1e-9 of the computation's magnitude; a source whose model shape is a plain number must print as a single number; direct number operands/arguments of known different dimensions must be rejected; no outcome may be a panic. Excluded and counted: clamp() with MIN > MAX in an environment, division by |x| < 1e-3, unitless-vs-unit sums (finding #19; legacy min/max rule), compound-unit operands. Non-trivial = (>= 2 operators AND a + or - node that cannot be folded (mixed units) AND a - or / whose right operand is an operation) OR a min/max/clamp nested below the top-level function; the case was compared numerically or had to be rejected; distinct = distinct stylesheet text.".into()
    }
    fn assumptions(&self) -> Vec<String> {
        vec![
            "Sass documentation / dart-sass 1.54: numbers are folded at compile time iff their units are convertible (px/in/pt, deg/turn, s/ms, identical units); only *direct* number operands of + - and direct number arguments of min/max/clamp are type-checked, so `calc((1px + 1em) + 1s)` is kept; % is compatible with everything; interpolation makes (part of) the calculation unchecked text".into(),
            "numbers are printed with 10 decimals, so the comparison is relative to the magnitude of the computation (sum of |terms|, leaves counted >= 1 canonical unit), not to the possibly cancelled result".into(),
            "clamp(MIN, VAL, MAX) with MIN > MAX: CSS gives MIN, dart-sass and grass give MAX; excluded, not judged".into(),
        ]
    }
    fn strategy(&self, tier: Tier) -> Option<(BoxedStrategy<Case>, u32)> {
        Some((calcexpr::sheet(), tier.pick(40_000, 600_000)))
    }
    fn enumerate(&self, _tier: Tier) -> Vec<Case> {
        calcexpr::unit_triples()
    }
    fn prologue(&self, _cx: &mut Ctx) -> Vec<Failure> {
        calc::self_test()
            .into_iter()
            .map(|m| Failure::new("C16/harness:oracle-self-test", m, json!({})))
            .collect()
    }

    fn check(&self, case: &Case, cx: &mut Ctx) -> Verdict {
        let p = calcexpr::print(case);
        if case.crash_only {
            // "no input makes simplification crash": every unit triple under clamp/min/max
            cx.class("enumerated:unit-triple (crash-only)");
            let mut single = Single::scss(p.scss.clone());
            if case.compressed {
                single.style = Style::Compressed;
            }
            let res = cx.compile(&single);
            return match &res.outcome {
                Outcome::Panic { at, msg } => fail(&panic_signature(at, msg), format!("panic at {}: {} for {}", at, msg, p.expr), &p, &res, json!({"at": at, "msg": msg})),
                Outcome::Css(_) | Outcome::Error(_) => {
                    cx.class(if res.outcome.is_err() { "unit-triple:error" } else { "unit-triple:css" });
                    Verdict::Pass
                }
                other => {
                    cx.inconclusive(&format!("abnormal:{}", other.short().split_whitespace().next().unwrap_or("?")));
                    Verdict::Discard
                }
            };
        }

        // ---- the oracle's own reading of the source text ----
        let mut vars = Vars::new();
        for (name, def) in &p.defs {
            match calc::parse_value(def, true) {
                Ok(n) => {
                    vars.insert(name.clone(), n);
                }
                Err(e) => {
                    return Verdict::Fail(Failure::new(
                        "C16/harness:source-unparsable",
                        format!("oracle cannot parse the generated definition ${}: {} ({})", name, def, e),
                        json!({"scss": p.scss}),
                    ))
                }
            }
        }
        let src = match calc::parse_value(&p.expr, true) {
            Ok(n) => n,
            Err(e) => {
                return Verdict::Fail(Failure::new(
                    "C16/harness:source-unparsable",
                    format!("oracle cannot parse the generated expression {} ({})", p.expr, e),
                    json!({"scss": p.scss}),
                ))
            }
        };
        let mut an = Analysis::default();
        let top_shape = calc::analyze(&src, &vars, &mut an);

        // ---- compile ----
        let mut single = Single::scss(p.scss.clone());
        if case.compressed {
            single.style = Style::Compressed;
        }
        let res = cx.compile(&single);
        match &res.outcome {
            Outcome::Panic { at, msg } => {
                cx.class("outcome:panic");
                return fail(
                    &panic_signature(at, msg),
                    format!("panic at {}: {} for {}", at, msg, p.expr),
                    &p,
                    &res,
                    json!({"at": at, "msg": msg}),
                );
            }
            Outcome::Css(_) | Outcome::Error(_) => {}
            other => {
                cx.inconclusive(&format!("abnormal:{}", other.short().split_whitespace().next().unwrap_or("?")));
                return Verdict::Discard;
            }
        }
        let is_err = res.outcome.is_err();
        cx.class(if is_err { "outcome:error" } else { "outcome:css" });
        if an.has_interp {
            cx.class("has:interpolation");
        }
        if p.defs.iter().any(|(n, _)| n.starts_with('c')) {
            cx.class("has:calc-valued-variable");
        }
        if p.defs.iter().any(|(n, _)| n.starts_with('v')) {
            cx.class("has:numeric-variable");
        }
        cx.class(&format!("depth:{}", an.max_depth.min(6)));
        cx.class(&format!("ops:{}", if an.ops >= 8 { "8+".to_string() } else { an.ops.to_string() }));
        if let Node::Func { name, .. } = &src {
            cx.class(&format!("top:{}", name));
        }

        let nontrivial_shape =
            (an.ops >= 2 && an.mixed_nodes >= 1 && an.paren_sensitive >= 1) || an.nested_fn >= 1;
        let sample = |cx: &mut Ctx, nt: bool, verdict: &str| {
            let v = || json!({"scss": p.scss, "observed": res.outcome.short(), "judged": verdict});
            if nt {
                cx.sample_nontrivial(v);
            } else {
                cx.sample(v);
            }
        };

        // ---- 1. provably incompatible direct operands: must be rejected ----
        if !an.must_reject.is_empty() && !an.has_interp && an.nested_number_of_unknown_unit > 0 {
            // `min(max(1deg, 3), 3deg, 2s)`: the inner function yields the unitless 3, the running
            // minimum is then comparable with every later operand and Sass (dart-sass alike)
            // never compares 3deg with 2s - false alarm of the first silence sweep on seed 4
            cx.class("must-reject:not-judged(nested min/max/clamp yields a number of undetermined unit)");
        }
        if !an.must_reject.is_empty() && !an.has_interp && an.nested_number_of_unknown_unit == 0 {
            cx.class("judged:must-reject");
            if let Outcome::Error(e) = &res.outcome {
                cx.class(if e.message.contains("incompatible") {
                    "reject-message:incompatible"
                } else {
                    "reject-message:other"
                });
            }
            if nontrivial_shape {
                cx.nontrivial(&p.scss);
            }
            sample(cx, nontrivial_shape, "must-reject");
            if !is_err {
                return fail(
                    "C16/incompatible-units-accepted",
                    format!("{} mixes {} but compiled", p.expr, an.must_reject.join("; ")),
                    &p,
                    &res,
                    json!({"incompatible": an.must_reject}),
                );
            }
            return Verdict::Pass;
        }

        // ---- 2. regions that are not judged ----
        if !an.unitless_sum_calc.is_empty() && !an.has_interp {
            cx.class(if is_err { "unitless-vs-unit-sum:rejected" } else { "unitless-vs-unit-sum:accepted" });
            if ASSERT_UNITLESS_VS_UNIT_SUMS || cx.replay {
                if !is_err {
                    return fail(
                        SIG_UNITLESS,
                        format!(
                            "{} adds/subtracts a unitless and a unit-ful number ({}) outside min()/max() but compiled",
                            p.expr,
                            an.unitless_sum_calc.join("; ")
                        ),
                        &p,
                        &res,
                        json!({"operands": an.unitless_sum_calc}),
                    );
                }
                return Verdict::Pass;
            }
            cx.excluded("unitless-vs-unit sum in calc()/clamp() (finding C16/unitless-vs-unit-sum-accepted, DESIGN #19)");
            return Verdict::Discard;
        }
        if an.unitless_sum_minmax > 0 || an.unitless_args > 0 {
            cx.class("unjudged:unitless-next-to-unit-in-min/max/clamp (legacy rule)");
            return Verdict::Discard;
        }

        // ---- 3. evaluate the source ----
        let envs = calc::envs_for(&p.scss);
        let mut src_q = vec![];
        for env in &envs {
            if calc::clamp_disordered(&src, env, &vars) {
                cx.excluded("clamp() with MIN > MAX under an environment (CSS: MIN, dart-sass/grass: MAX)");
                return Verdict::Discard;
            }
            match calc::eval(&src, env, &vars) {
                Ok(q) => src_q.push(q),
                Err(EvalErr::DivZero) => {
                    cx.class("unjudged:division-by-(nearly)-zero");
                    return Verdict::Discard;
                }
                Err(EvalErr::Dim(_)) => {
                    // not a valid CSS calculation (e.g. (1px + 1em) + 1s, 1% + 1s): Sass does not
                    // promise either outcome
                    cx.class(if is_err { "unjudged:ill-typed-source:error" } else { "unjudged:ill-typed-source:css" });
                    return Verdict::Discard;
                }
                Err(e) => {
                    return Verdict::Fail(Failure::new(
                        "C16/harness:source-unevaluable",
                        format!("{:?} in {}", e, p.expr),
                        json!({"scss": p.scss}),
                    ))
                }
            }
        }
        let unclear_complex = an.complex_operand > 0
            || matches!(&top_shape, Shape::Plain(u) if !u.is_simple())
            || src_q[0].dim.iter().map(|d| d.abs()).sum::<i32>() > 1;
        let expect_plain = matches!(&top_shape, Shape::Plain(u) if u.is_simple()) && !an.has_interp && !unclear_complex;

        let css = match &res.outcome {
            Outcome::Css(c) => c.clone(),
            _ => {
                if unclear_complex {
                    cx.class("unjudged:compound-units:error");
                    return Verdict::Discard;
                }
                cx.class("judged:valid-but-rejected");
                return fail(
                    "C16/valid-calculation-rejected",
                    format!("{} is a well-typed calculation but was rejected", p.expr),
                    &p,
                    &res,
                    json!({"source_value_env0": src_q[0].v, "dim": src_q[0].dim}),
                );
            }
        };
        if unclear_complex {
            cx.class("compound-units:css");
        }
        let (printed, out) = match judge_output(&css, &p, &src_q, &envs, &vars, an.has_interp) {
            Ok(x) => x,
            Err((sig, what, detail)) => {
                // Is the failure confined to the compressed spelling of numbers (DESIGN finding #12,
                // e.g. 0.9999999999999px printed as `0px`)? Judge the expanded output of the same source.
                let mut sig = sig;
                if case.compressed {
                    let mut ex = single.clone();
                    ex.style = Style::Expanded;
                    let r2 = cx.compile(&ex);
                    if let Outcome::Css(c2) = &r2.outcome {
                        if judge_output(c2, &p, &src_q, &envs, &vars, an.has_interp).is_ok() {
                            let one_as_zero = match (declared_value(c2), declared_value(&css)) {
                                (Some(e), Some(c)) => prints_one_as_zero(&e, &c),
                                _ => false,
                            };
                            if one_as_zero {
                                cx.class("compressed-prints-1-as-0");
                                if !(ASSERT_COMPRESSED_ONE_AS_ZERO || cx.replay) {
                                    cx.excluded("compressed style prints a number in [0.99999999995, 1) as 0 (finding C16/compressed-prints-1-as-0, DESIGN #12)");
                                    return Verdict::Discard;
                                }
                                sig = SIG_ONE_AS_ZERO.to_string();
                            } else {
                                sig = format!("{}:compressed-only", sig);
                            }
                        }
                    }
                }
                return fail(&sig, what, &p, &res, detail);
            }
        };
        cx.class(if matches!(out, Node::Num { .. }) { "printed:number" } else { "printed:calculation" });
        if expect_plain {
            cx.class("judged:plain-number");
            if !matches!(out, Node::Num { .. }) {
                return fail(
                    "C16/not-simplified",
                    format!("all operands of {} are mutually convertible but `{}` was printed", p.expr, printed),
                    &p,
                    &res,
                    json!({"printed": printed}),
                );
            }
        } else {
            cx.class(if an.has_interp { "judged:numeric-only (interpolation)" } else { "judged:symbolic" });
        }
        if nontrivial_shape {
            cx.nontrivial(&p.scss);
        }
        sample(cx, nontrivial_shape, if expect_plain { "plain-number" } else { "numeric" });
        Verdict::Pass
    }
}

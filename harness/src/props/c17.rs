//! C17 — nested @media rules merge to their logical intersection.
//!
//! A case is a chain of 2–3 media query lists nested around / inside one style rule; every level
//! carries a marker declaration. The output's `@media` preludes are read back with the independent
//! reader of `oracle::media` and judged by truth tables over all environments
//! (media type ∈ {screen, print, tv} × all truth assignments of the conditions used).

use crate::engine::*;
use crate::oracle::css;
use crate::oracle::media::{self, list_text, EnvSet, MQuery, Universe};
use proptest::prelude::*;
use serde::{Deserialize, Serialize};
use serde_json::json;

pub struct C17;

/// Which part of a level's query list is supplied through interpolation / SassScript
#[derive(Clone, Debug, Serialize, Deserialize, PartialEq, Eq, Hash)]
pub enum Interp {
    None,
    /// the media type of query `q` is `#{$v}`
    Type { q: usize },
    /// modifier and type of query `q` come from one variable: `#{$v} and (color)`
    Head { q: usize },
    /// condition `k` of query `q` is `#{$v}` (the variable holds the parenthesised text)
    Feature { q: usize, k: usize },
    /// name and value inside the parentheses are interpolated: `(#{$n}: #{$v})`
    FeatureParts { q: usize, k: usize },
    /// the value is a SassScript expression: `(min-width: $v)` or `(min-width: 50px * 2)`
    FeatureExpr { q: usize, k: usize },
    /// the whole query `q` is `#{$v}`
    Query { q: usize },
    /// the whole list is `#{$v}`
    List,
}

#[derive(Clone, Debug, Serialize, Deserialize, PartialEq, Eq, Hash)]
pub struct Level {
    pub queries: Vec<MQuery>,
    pub interp: Interp,
}

#[derive(Clone, Debug, Serialize, Deserialize, PartialEq, Eq, Hash)]
pub struct Case {
    /// which sub-space / generator produced the case (evidence only)
    pub class: String,
    /// outermost first
    pub levels: Vec<Level>,
    /// the style rule `x { … }` is opened before level `rule_pos` (0 = around everything);
    /// `rule_pos == levels.len()` = the style rule is innermost
    pub rule_pos: usize,
    pub style: Style,
    /// interpolated media types are quoted strings (else unquoted identifiers)
    pub quoted: bool,
}

pub const POOL: [&str; 5] = [
    "(color)",
    "(min-width: 100px)",
    "(grid)",
    "(max-width: 500px)",
    "(orientation: landscape)",
];

fn q(modifier: Option<&str>, ty: Option<&str>, feats: &[&str]) -> MQuery {
    MQuery {
        modifier: modifier.map(|s| s.to_string()),
        ty: ty.map(|s| s.to_string()),
        feats: feats.iter().map(|s| s.to_string()).collect(),
    }
}

/// every query over types {none, all, screen, print} × modifiers {none, not, only} × subsets of
/// the first `nf` pool conditions (in pool order). `with_all_modifiers` keeps `not all` /
/// `only all` (outside the domain; the check discards and counts them).
fn alphabet(nf: usize, with_all_modifiers: bool) -> Vec<MQuery> {
    let mut out = vec![];
    let mut subsets: Vec<Vec<&str>> = vec![];
    for mask in 0..(1usize << nf) {
        subsets.push((0..nf).filter(|k| mask >> k & 1 == 1).map(|k| POOL[k]).collect());
    }
    subsets.sort_by_key(|s| s.len());
    for ty in [None, Some("all"), Some("screen"), Some("print")] {
        for modifier in [None, Some("not"), Some("only")] {
            if ty.is_none() && modifier.is_some() {
                continue; // `not (color)` is not in the level 3 grammar
            }
            if ty == Some("all") && modifier.is_some() && !with_all_modifiers {
                continue;
            }
            for s in &subsets {
                if ty.is_none() && s.is_empty() {
                    continue;
                }
                out.push(q(modifier, ty, s));
            }
        }
    }
    out
}

fn lvl(qs: Vec<MQuery>) -> Level {
    Level {
        queries: qs,
        interp: Interp::None,
    }
}

fn split_feature(f: &str) -> (String, Option<String>) {
    let inner = f.trim_start_matches('(').trim_end_matches(')');
    match inner.split_once(": ") {
        Some((n, v)) => (n.to_string(), Some(v.to_string())),
        None => (inner.to_string(), None),
    }
}

/// all interpolation kinds applicable to a level (deterministic order)
fn applicable_interps(l: &[MQuery]) -> Vec<Interp> {
    let mut v = vec![Interp::List];
    for (qi, qq) in l.iter().enumerate() {
        v.push(Interp::Query { q: qi });
        if qq.ty.is_some() {
            v.push(Interp::Type { q: qi });
            v.push(Interp::Head { q: qi });
        }
        for (k, f) in qq.feats.iter().enumerate() {
            v.push(Interp::Feature { q: qi, k });
            v.push(Interp::FeatureParts { q: qi, k });
            if split_feature(f).1.is_some() {
                v.push(Interp::FeatureExpr { q: qi, k });
            }
        }
    }
    v
}

fn sass_string(s: &str) -> String {
    format!("\"{}\"", s)
}

/// the source text of one level's query list and the variable declarations it needs
fn render_level(level: &Level, li: usize, quoted: bool, vars: &mut Vec<String>) -> String {
    let l = &level.queries;
    let v0 = format!("$l{}a", li);
    let v1 = format!("$l{}b", li);
    let ok_q = |qi: usize| qi < l.len();
    let mut texts: Vec<String> = l.iter().map(|x| x.text()).collect();
    match &level.interp {
        Interp::None => {}
        Interp::List => {
            vars.push(format!("{}: {};", v0, sass_string(&list_text(l))));
            return format!("#{{{}}}", v0);
        }
        Interp::Query { q: qi } if ok_q(*qi) => {
            vars.push(format!("{}: {};", v0, sass_string(&l[*qi].text())));
            texts[*qi] = format!("#{{{}}}", v0);
        }
        Interp::Type { q: qi } if ok_q(*qi) && l[*qi].ty.is_some() => {
            let t = l[*qi].ty.clone().unwrap();
            vars.push(format!("{}: {};", v0, if quoted { sass_string(&t) } else { t }));
            let mut m = l[*qi].clone();
            m.ty = Some(format!("#{{{}}}", v0));
            texts[*qi] = m.text();
        }
        Interp::Head { q: qi } if ok_q(*qi) && l[*qi].ty.is_some() => {
            let mut head = l[*qi].clone();
            head.feats.clear();
            vars.push(format!("{}: {};", v0, sass_string(&head.text())));
            let mut m = l[*qi].clone();
            m.modifier = None;
            m.ty = Some(format!("#{{{}}}", v0));
            texts[*qi] = m.text();
        }
        Interp::Feature { q: qi, k } if ok_q(*qi) && *k < l[*qi].feats.len() => {
            vars.push(format!("{}: {};", v0, sass_string(&l[*qi].feats[*k])));
            let mut m = l[*qi].clone();
            m.feats[*k] = format!("#{{{}}}", v0);
            texts[*qi] = m.text();
        }
        Interp::FeatureParts { q: qi, k } if ok_q(*qi) && *k < l[*qi].feats.len() => {
            let (n, v) = split_feature(&l[*qi].feats[*k]);
            vars.push(format!("{}: {};", v0, sass_string(&n)));
            let mut m = l[*qi].clone();
            m.feats[*k] = match v {
                Some(v) => {
                    vars.push(format!("{}: {};", v1, v));
                    format!("(#{{{}}}: #{{{}}})", v0, v1)
                }
                None => format!("(#{{{}}})", v0),
            };
            texts[*qi] = m.text();
        }
        Interp::FeatureExpr { q: qi, k } if ok_q(*qi) && *k < l[*qi].feats.len() => {
            let (n, v) = split_feature(&l[*qi].feats[*k]);
            if let Some(v) = v {
                let mut m = l[*qi].clone();
                let halved = v
                    .strip_suffix("px")
                    .and_then(|d| d.parse::<u32>().ok())
                    .filter(|d| d % 2 == 0 && quoted);
                m.feats[*k] = match halved {
                    Some(d) => format!("({}: {}px * 2)", n, d / 2),
                    None => {
                        vars.push(format!("{}: {};", v0, v));
                        format!("({}: {})", n, v0)
                    }
                };
                texts[*qi] = m.text();
            }
        }
        _ => {}
    }
    texts.join(", ")
}

pub fn render_source(case: &Case) -> String {
    let n = case.levels.len();
    let mut vars = vec![];
    let mut body = String::new();
    let mut open = 0;
    let mut rule_open = false;
    for (i, level) in case.levels.iter().enumerate() {
        if case.rule_pos == i {
            body.push_str("x { ");
            open += 1;
            rule_open = true;
        }
        let text = render_level(level, i, case.quoted, &mut vars);
        body.push_str(&format!("@media {} {{ ", text));
        open += 1;
        let k = i + 1;
        if rule_open {
            body.push_str(&format!("m{}: 1; ", k));
        } else if k == n {
            body.push_str(&format!("x {{ m{}: 1 }} ", k));
        } else {
            body.push_str(&format!("y{} {{ m{}: 1 }} ", k, k));
        }
    }
    for _ in 0..open {
        body.push_str("} ");
    }
    let mut s = String::new();
    for v in vars {
        s.push_str(&v);
        s.push('\n');
    }
    s.push_str(body.trim_end());
    s.push('\n');
    s
}

fn has_modifier_on_all(case: &Case) -> bool {
    case.levels
        .iter()
        .flat_map(|l| l.queries.iter())
        .any(|x| x.modifier.is_some() && x.is_all())
}

/// two negated queries of the same media type at different levels
fn has_two_negated_same_type(case: &Case) -> bool {
    for i in 0..case.levels.len() {
        for j in i + 1..case.levels.len() {
            for a in &case.levels[i].queries {
                for b in &case.levels[j].queries {
                    if a.negated() && b.negated() && a.ty.as_ref().map(|t| t.to_ascii_lowercase()) == b.ty.as_ref().map(|t| t.to_ascii_lowercase()) {
                        return true;
                    }
                }
            }
        }
    }
    false
}

/// region of finding #7: a negated query and a non-negated query of the same concrete media
/// type at two different levels among the first `k` levels
fn neg_vs_pos_same_type(case: &Case, k: usize) -> bool {
    let k = k.min(case.levels.len());
    for i in 0..k {
        for j in 0..k {
            if i == j {
                continue;
            }
            for a in &case.levels[i].queries {
                for b in &case.levels[j].queries {
                    if a.negated() && !b.negated() && a.concrete_type().is_some() && a.concrete_type() == b.concrete_type() {
                        return true;
                    }
                }
            }
        }
    }
    false
}

fn same_query(a: &MQuery, b: &MQuery) -> bool {
    let lc = |x: &Option<String>| x.as_ref().map(|t| t.to_ascii_lowercase());
    lc(&a.modifier) == lc(&b.modifier) && lc(&a.ty) == lc(&b.ty) && a.feats == b.feats
}

/// Region of the finding "escaped-outer-level" (three levels): every query of the outermost list
/// is spelled like some query of the two inner lists and the middle list has a negated query (the
/// only way, inside the domain, for outer x middle to be unmergeable). There the merged
/// middle x inner rule is hoisted out of the outermost @media as well: "which enclosing rules were
/// merged" is decided by comparing query texts, not rule identity (same in dart-sass 1.54).
fn escape_region(case: &Case) -> bool {
    if case.levels.len() != 3 {
        return false;
    }
    let inner: Vec<&MQuery> = case.levels[1..].iter().flat_map(|l| l.queries.iter()).collect();
    case.levels[1].queries.iter().any(|x| x.negated())
        && case.levels[0].queries.iter().all(|a| inner.iter().any(|b| same_query(a, b)))
}

/// keep the regions of known findings out of the search (they are still judged when a saved case
/// is replayed, so that a known-findings entry keeps reproducing until it is repaired)
const EXCLUDE_ESCAPE_REGION: bool = true;

fn well_formed(case: &Case) -> bool {
    let n = case.levels.len();
    (1..=3).contains(&n)
        && case.rule_pos <= n
        && case.levels.iter().all(|l| {
            (1..=3).contains(&l.queries.len())
                && l.queries.iter().all(|x| {
                    (x.ty.is_some() || (!x.feats.is_empty() && x.modifier.is_none()))
                        && x.feats.len() <= 4
                        && x.ty.as_deref().map(|t| t.chars().all(|c| c.is_ascii_alphabetic())).unwrap_or(true)
                        && x.modifier.as_deref().map(|m| m.eq_ignore_ascii_case("not") || m.eq_ignore_ascii_case("only")).unwrap_or(true)
                        && x.feats.iter().all(|f| media::norm_feature(f) == *f && f.starts_with('(') && f.ends_with(')'))
                })
        })
}

fn interp_name(i: &Interp) -> &'static str {
    match i {
        Interp::None => "none",
        Interp::Type { .. } => "type",
        Interp::Head { .. } => "modifier+type",
        Interp::Feature { .. } => "condition",
        Interp::FeatureParts { .. } => "condition-parts",
        Interp::FeatureExpr { .. } => "condition-value-expression",
        Interp::Query { .. } => "query",
        Interp::List => "list",
    }
}

fn set_desc(u: &Universe, s: &EnvSet) -> String {
    format!("{} of {} environments", s.count(), u.n_envs())
}

impl C17 {
    fn single_pairs(&self) -> Vec<Case> {
        // E1: every ordered pair of single queries over 3 conditions, every position of the style rule
        let a = alphabet(3, true);
        let mut v = vec![];
        for (rule_pos, style) in [
            (0, Style::Expanded),
            (1, Style::Expanded),
            (2, Style::Expanded),
            (1, Style::Compressed),
        ] {
            for x in &a {
                for y in &a {
                    v.push(Case {
                        class: "E1-single-pairs".into(),
                        levels: vec![lvl(vec![x.clone()]), lvl(vec![y.clone()])],
                        rule_pos,
                        style,
                        quoted: true,
                    });
                }
            }
        }
        v
    }
    fn triples(&self, nf: usize) -> Vec<Case> {
        let a = alphabet(nf, false);
        let mut v = vec![];
        let mut i = 0usize;
        for x in &a {
            for y in &a {
                for z in &a {
                    v.push(Case {
                        class: format!("E2-single-triples-{}cond", nf),
                        levels: vec![lvl(vec![x.clone()]), lvl(vec![y.clone()]), lvl(vec![z.clone()])],
                        rule_pos: i % 4,
                        style: if i / 4 % 4 == 3 { Style::Compressed } else { Style::Expanded },
                        quoted: true,
                    });
                    i += 1;
                }
            }
        }
        v
    }
    /// E6: three levels whose outermost level is a list of two queries, one of them spelled exactly
    /// like the middle or the innermost query (which enclosing rules a merged rule may leave is decided
    /// by comparing query texts; a list that shares only ONE query with the merged rule must be kept).
    fn shared_query_triples(&self) -> Vec<Case> {
        // outer = [x, s], middle = [y, w], inner = [z] with s = y or s = z: the outer list shares ONE
        // query text with the levels below it, and the middle list has an alternative (w) that the
        // outer list does not cover - so leaving the outer rule changes the meaning
        let a = alphabet(1, false);
        let few: Vec<MQuery> = a.iter().step_by(3).cloned().collect();
        let mut v = vec![];
        let mut i = 0usize;
        for x in &a {
            for y in &a {
                for w in &few {
                    for z in &few {
                        for share in 0..2 {
                            let shared = if share == 0 { y.clone() } else { z.clone() };
                            if same_query(x, &shared) || same_query(y, w) {
                                continue;
                            }
                            let outer = if i % 2 == 0 { vec![x.clone(), shared] } else { vec![shared, x.clone()] };
                            let middle = if i / 2 % 2 == 0 { vec![y.clone(), w.clone()] } else { vec![w.clone(), y.clone()] };
                            v.push(Case {
                                class: "E6-list2-outer-sharing-a-query-triples".into(),
                                levels: vec![lvl(outer), lvl(middle), lvl(vec![z.clone()])],
                                rule_pos: 3,
                                style: Style::Expanded,
                                quoted: true,
                            });
                            i += 1;
                        }
                    }
                }
            }
        }
        v
    }
    fn list_pairs(&self, both: bool) -> Vec<Case> {
        let a = alphabet(1, false);
        let mut lists: Vec<Vec<MQuery>> = vec![];
        for x in &a {
            for y in &a {
                lists.push(vec![x.clone(), y.clone()]);
            }
        }
        let mut v = vec![];
        let mut i = 0usize;
        if both {
            for l1 in &lists {
                for l2 in &lists {
                    v.push(Case {
                        class: "E3-list2-x-list2".into(),
                        levels: vec![lvl(l1.clone()), lvl(l2.clone())],
                        rule_pos: i % 3,
                        style: if i / 3 % 4 == 3 { Style::Compressed } else { Style::Expanded },
                        quoted: true,
                    });
                    i += 1;
                }
            }
        } else {
            for l1 in &lists {
                for s in &a {
                    for order in 0..2 {
                        let levels = if order == 0 {
                            vec![lvl(l1.clone()), lvl(vec![s.clone()])]
                        } else {
                            vec![lvl(vec![s.clone()]), lvl(l1.clone())]
                        };
                        v.push(Case {
                            class: "E3-list2-x-single".into(),
                            levels,
                            rule_pos: i % 3,
                            style: if i / 3 % 4 == 3 { Style::Compressed } else { Style::Expanded },
                            quoted: true,
                        });
                        i += 1;
                    }
                }
            }
        }
        v
    }
    fn case_variant_pairs(&self) -> Vec<Case> {
        // E5: single-query pairs over 1 condition where one side spells its media type and
        // modifier in another letter case (both are ASCII case-insensitive in CSS)
        let a = alphabet(1, false);
        let respell = |m: &MQuery, variant: usize| -> MQuery {
            let mut r = m.clone();
            if variant == 0 {
                r.ty = r.ty.map(|t| t.to_ascii_uppercase());
                r.modifier = r.modifier.map(|t| t.to_ascii_uppercase());
            } else {
                let cap = |t: String| {
                    let mut c = t.chars();
                    let f = c.next().unwrap().to_ascii_uppercase();
                    format!("{}{}", f, c.as_str())
                };
                r.ty = r.ty.map(cap);
                r.modifier = r.modifier.map(cap);
            }
            r
        };
        let mut v = vec![];
        let mut i = 0usize;
        for x in &a {
            for y in &a {
                if y.ty.is_none() {
                    continue;
                }
                for variant in 0..2 {
                    for order in 0..2 {
                        let yy = respell(y, variant);
                        let levels = if order == 0 {
                            vec![lvl(vec![x.clone()]), lvl(vec![yy])]
                        } else {
                            vec![lvl(vec![yy]), lvl(vec![x.clone()])]
                        };
                        v.push(Case {
                            class: "E5-case-variant-pairs".into(),
                            levels,
                            rule_pos: i % 3,
                            style: Style::Expanded,
                            quoted: true,
                        });
                        i += 1;
                    }
                }
            }
        }
        v
    }
    fn interpolated_pairs(&self) -> Vec<Case> {
        // E4: single-query pairs over {(min-width: 100px)}, every applicable interpolation kind on
        // either level
        let mut a = vec![];
        for ty in [None, Some("all"), Some("screen"), Some("print")] {
            for modifier in [None, Some("not"), Some("only")] {
                if (ty.is_none() || ty == Some("all")) && modifier.is_some() {
                    continue;
                }
                for feats in [vec![], vec![POOL[1]], vec![POOL[0], POOL[1]]] {
                    if ty.is_none() && feats.is_empty() {
                        continue;
                    }
                    a.push(q(modifier, ty, &feats));
                }
            }
        }
        let mut v = vec![];
        let mut i = 0usize;
        for x in &a {
            for y in &a {
                for level in 0..2 {
                    let target = if level == 0 { x } else { y };
                    for ip in applicable_interps(std::slice::from_ref(target)) {
                        let mut levels = vec![lvl(vec![x.clone()]), lvl(vec![y.clone()])];
                        levels[level].interp = ip;
                        v.push(Case {
                            class: "E4-interpolated-pairs".into(),
                            levels,
                            rule_pos: i % 3,
                            style: Style::Expanded,
                            quoted: i / 3 % 2 == 0,
                        });
                        i += 1;
                    }
                }
            }
        }
        v
    }
}

#[derive(Clone, Debug)]
struct RawQ {
    ty: u8,
    modifier: u8,
    feats: Vec<u16>,
    extra: u16,
    upper: u8,
}

fn raw_q() -> impl Strategy<Value = RawQ> {
    (
        prop_oneof![2 => Just(0u8), 1 => Just(1u8), 4 => Just(2u8), 3 => Just(3u8)],
        prop_oneof![4 => Just(0u8), 3 => Just(1u8), 1 => Just(2u8)],
        proptest::collection::vec(any::<u16>(), 0..=3),
        any::<u16>(),
        prop_oneof![18 => Just(0u8), 1 => Just(1u8), 1 => Just(2u8)],
    )
        .prop_map(|(ty, modifier, feats, extra, upper)| RawQ {
            ty,
            modifier,
            feats,
            extra,
            upper,
        })
}

fn build_q(r: &RawQ, pool: usize) -> MQuery {
    let mut feats: Vec<String> = r.feats.iter().map(|i| POOL[idx(*i, pool)].to_string()).collect();
    let ty = match r.ty {
        0 => None,
        1 => Some("all"),
        2 => Some("screen"),
        _ => Some("print"),
    };
    if ty.is_none() && feats.is_empty() {
        feats.push(POOL[idx(r.extra, pool)].to_string());
    }
    let modifier = if ty.is_none() || ty == Some("all") {
        None
    } else {
        match r.modifier {
            0 => None,
            1 => Some("not"),
            _ => Some("only"),
        }
    };
    let mut m = q(modifier, ty, &[]);
    m.feats = feats;
    // spelling variants: media types and the modifiers are ASCII case-insensitive
    match r.upper {
        1 => m.ty = m.ty.map(|t| t.to_ascii_uppercase()),
        2 => {
            m.modifier = m.modifier.map(|t| t.to_ascii_uppercase());
            m.ty = m.ty.map(|t| {
                let mut c = t.chars();
                let f = c.next().unwrap().to_ascii_uppercase();
                format!("{}{}", f, c.as_str())
            });
        }
        _ => {}
    }
    m
}

impl Prop for C17 {
    type Case = Case;
    fn id(&self) -> &'static str {
        "C17"
    }
    fn rule(&self) -> String {
        "a case = 2-3 media query lists (1-2 queries each; types {none, all, screen, print} x modifiers {none, not, only} x 0-3 opaque conditions) nested around/inside one style rule (every position of the rule), every level with its own marker declaration, expanded or compressed. Enumerated completely: E1 all ordered single-query pairs over 3 conditions x 3 rule positions (+ once compressed); E2 all single-query triples over 1 condition (thorough: 2 conditions); E3 all (two-query list) x (single query) pairs in both orders over 1 condition (thorough: list x list); E4 single-query pairs x every way of supplying a part (type, modifier+type, condition, condition parts, condition value expression, query, list) through interpolation; E5 single-query pairs over 1 condition with one side's type and modifier in upper / capitalised case; E6 triples over 1 condition: outer two-query list [x, s], middle two-query list [y, w], inner [z], where s is spelled like y or z (all x, y; every third query for w, z). Thorough adds generated pairs/triples of lists over 5 conditions with repeated conditions, case variants and interpolation. Excluded and counted: modifiers on `all`; two negated queries of the same media type at different levels. Every marker is judged under all environments (type in {screen, print, tv} x all truth assignments). Non-trivial = at least one negated query, or two different concrete media types, or a level with two queries; distinct = distinct (source text, style).".into()
    }
    fn assumptions(&self) -> Vec<String> {
        vec![
            "feature conditions are opaque and independent booleans of the environment; `only` has no effect on matching; media types and modifiers compare ASCII case-insensitively (CSS Media Queries)".into(),
            "for three levels an empty intersection must be dropped only where the two outer levels were themselves merged into one list or are already empty; otherwise a semantically empty nesting is accepted (dart-sass merges the innermost list with the nearest unmerged list only)".into(),
            "`(name:value)` spacing is not text: Sass prints `(name: value)`".into(),
        ]
    }
    fn strategy(&self, tier: Tier) -> Option<(BoxedStrategy<Case>, u32)> {
        if tier == Tier::Quick {
            return None;
        }
        let list = proptest::collection::vec(raw_q(), 1..=2);
        let s = (
            proptest::collection::vec(list, 2..=3),
            any::<u16>(),
            any::<bool>(),
            any::<bool>(),
            (any::<u8>(), any::<u16>(), any::<u16>()),
            prop_oneof![3 => Just(5usize), 2 => Just(3usize), 1 => Just(2usize)],
        )
            .prop_map(|(raw, rp, compressed, quoted, (ip_on, ip_level, ip_kind), pool)| {
                let n = raw.len();
                let mut levels: Vec<Level> = raw
                    .iter()
                    .map(|l| lvl(l.iter().map(|r| build_q(r, pool)).collect()))
                    .collect();
                if ip_on % 3 == 0 {
                    let li = idx(ip_level, n);
                    let ips = applicable_interps(&levels[li].queries);
                    levels[li].interp = ips[idx(ip_kind, ips.len())].clone();
                }
                Case {
                    class: format!("G-generated-{}", n),
                    levels,
                    rule_pos: idx(rp, n + 1),
                    style: if compressed { Style::Compressed } else { Style::Expanded },
                    quoted,
                }
            })
            .boxed();
        Some((s, 200_000))
    }
    fn enumerate(&self, tier: Tier) -> Vec<Case> {
        let mut v = self.single_pairs();
        v.extend(self.triples(1));
        v.extend(self.list_pairs(false));
        v.extend(self.interpolated_pairs());
        v.extend(self.case_variant_pairs());
        v.extend(self.shared_query_triples());
        if tier == Tier::Thorough {
            v.extend(self.triples(2));
            v.extend(self.list_pairs(true));
        }
        v
    }
    fn extra_evidence(&self, stats: &Stats) -> serde_json::Value {
        let g = |k: &str| stats.classes.get(k).copied().unwrap_or(0);
        json!({
            "exhaustive_subspaces": {
                "E1-single-pairs (79 queries incl. the 16 excluded `not|only all`, squared, x 4 placements)": g("E1-single-pairs"),
                "E2-single-triples-1cond": g("E2-single-triples-1cond"),
                "E2-single-triples-2cond": g("E2-single-triples-2cond"),
                "E3-list2-x-single": g("E3-list2-x-single"),
                "E3-list2-x-list2": g("E3-list2-x-list2"),
                "E4-interpolated-pairs": g("E4-interpolated-pairs"),
                "E5-case-variant-pairs": g("E5-case-variant-pairs"),
                "E6-list2-outer-sharing-a-query-triples": g("E6-list2-outer-sharing-a-query-triples"),
            },
            "markers_judged": g("marker-judged"),
        })
    }
    fn check(&self, case: &Case, cx: &mut Ctx) -> Verdict {
        if !well_formed(case) {
            cx.class("malformed-case");
            return Verdict::Discard;
        }
        cx.class(&case.class);
        if has_modifier_on_all(case) {
            cx.excluded("modifier applied to `all` (outside the property's domain)");
            return Verdict::Discard;
        }
        if has_two_negated_same_type(case) {
            cx.excluded("two negated queries of the same media type (outside the property's domain: dart-sass does not compute this intersection)");
            return Verdict::Discard;
        }
        if EXCLUDE_ESCAPE_REGION && !cx.replay && escape_region(case) {
            cx.excluded("known finding escaped-outer-level: outermost list spelled like queries of the inner lists, middle list with a negated query");
            return Verdict::Discard;
        }
        let n = case.levels.len();
        let src = render_source(case);
        let single = Single::scss(src.clone()).with_style(case.style);
        let res = cx.compile(&single);
        let css_text = match &res.outcome {
            Outcome::Css(c) => c.clone(),
            Outcome::Error(e) => {
                return Verdict::Fail(Failure::new(
                    "error-on-valid-nesting",
                    format!("valid nested @media is rejected: {}", e.message),
                    json!({"source": src, "error": e.display}),
                ));
            }
            o => {
                cx.inconclusive(&format!("abnormal:{}", o.short().split_whitespace().next().unwrap_or("")));
                return Verdict::Discard;
            }
        };

        // ---- evidence: what kind of case is this ----
        let all_q: Vec<&MQuery> = case.levels.iter().flat_map(|l| l.queries.iter()).collect();
        let has_not = all_q.iter().any(|x| x.negated());
        let mut types: Vec<String> = all_q.iter().filter_map(|x| x.concrete_type()).collect();
        types.sort();
        types.dedup();
        let has_list = case.levels.iter().any(|l| l.queries.len() > 1);
        cx.class(&format!("levels:{}", n));
        cx.class(&format!("rule-position:{}-of-{}", case.rule_pos, n));
        cx.class(&format!("style:{:?}", case.style));
        for l in &case.levels {
            if l.interp != Interp::None {
                cx.class(&format!("interpolated:{}", interp_name(&l.interp)));
            }
        }
        if has_not {
            cx.class("has:negated-query");
        }
        if types.len() > 1 {
            cx.class("has:two-media-types");
        }
        if has_list {
            cx.class("has:two-query-list");
        }
        if all_q.iter().any(|x| x.modifier.as_deref() == Some("only") || x.modifier.as_deref() == Some("ONLY")) {
            cx.class("has:only");
        }
        if all_q.iter().any(|x| x.text() != x.text().to_ascii_lowercase()) {
            cx.class("has:case-variant");
        }
        if neg_vs_pos_same_type(case, n) {
            cx.class("has:negated-vs-plain-same-type");
        }
        let nontrivial = has_not || types.len() > 1 || has_list;
        if nontrivial {
            cx.nontrivial(&(&src, case.style));
        }

        // ---- the model: environments and the expected set of every level ----
        let u = Universe::new(all_q.iter().flat_map(|x| x.feats.iter()));
        let mut expected: Vec<EnvSet> = vec![];
        let mut acc = u.full();
        for l in &case.levels {
            let s = match u.eval_list(&l.queries) {
                Ok(s) => s,
                Err(_) => return Verdict::Discard,
            };
            acc = acc.and(&s);
            expected.push(acc.clone());
        }

        let rows = css::rows(&css_text);
        let fail = |kind: &str, k: usize, what: String, extra: serde_json::Value| -> Verdict {
            let semantic = kind == "env-mismatch" || kind == "not-dropped";
            let region = if semantic && k == 3 && escape_region(case) {
                "escaped-outer-level"
            } else if semantic && neg_vs_pos_same_type(case, k) {
                "neg-vs-plain-same-type"
            } else {
                "other"
            };
            Verdict::Fail(Failure::new(
                format!("{}:{}", region, kind),
                format!("marker m{}: {}", k, what),
                json!({
                    "source": src,
                    "output": css_text,
                    "levels": case.levels.iter().map(|l| list_text(&l.queries)).collect::<Vec<_>>(),
                    "marker": format!("m{}", k),
                    "detail": extra,
                }),
            ))
        };

        let mut merged_single: Vec<bool> = vec![false; n + 1]; // marker k present inside exactly one @media
        let mut innermost = "absent";
        for k in 1..=n {
            let name = format!("m{}", k);
            let mine: Vec<&css::Row> = rows.iter().filter(|r| r.prop == name).collect();
            let exp = &expected[k - 1];
            cx.class("marker-judged");
            if mine.len() > 1 {
                return fail("duplicated", k, format!("emitted {} times", mine.len()), json!({}));
            }
            if mine.is_empty() {
                if !exp.is_empty() {
                    let e = (0..u.n_envs()).find(|e| exp.contains(*e)).unwrap();
                    return fail(
                        "missing",
                        k,
                        format!(
                            "dropped although the intersection of the source lists is not empty (e.g. it applies in [{}])",
                            u.describe_env(e)
                        ),
                        json!({"expected": set_desc(&u, exp)}),
                    );
                }
                cx.class(&format!("m{}:dropped(empty intersection)", k));
                continue;
            }
            let row = mine[0];
            // read the enclosing @media preludes
            let mut path: Vec<Vec<MQuery>> = vec![];
            for p in &row.at_path {
                match media::parse_at_media(p) {
                    Ok(Some(l)) => path.push(l),
                    Ok(None) => {
                        return fail("foreign-at-rule", k, format!("enclosed by {:?}", p), json!({}));
                    }
                    Err(e) => {
                        return fail(
                            "unreadable-prelude",
                            k,
                            format!("emitted prelude {:?} is not a level 3 media query list: {}", p, e),
                            json!({}),
                        );
                    }
                }
            }
            let mut obs = u.full();
            for l in &path {
                match u.eval_list(l) {
                    Ok(s) => obs = obs.and(&s),
                    Err(e) => {
                        return fail("text-not-preserved", k, format!("{} (emitted: {:?})", e, row.at_path), json!({}));
                    }
                }
            }
            if let Some(e) = obs.first_difference(exp) {
                let kind = if exp.is_empty() { "not-dropped" } else { "env-mismatch" };
                return fail(
                    kind,
                    k,
                    format!(
                        "emitted {:?} {} in environment [{}] but the source nesting {}",
                        row.at_path,
                        if obs.contains(e) { "applies" } else { "does not apply" },
                        u.describe_env(e),
                        if exp.contains(e) { "does" } else { "does not" },
                    ),
                    json!({"expected": set_desc(&u, exp), "observed": set_desc(&u, &obs)}),
                );
            }
            // semantically equal from here on
            if exp.is_empty() {
                // present, but never applies: only acceptable for a third level whose two outer
                // levels stayed nested (see assumptions)
                let outer_merged = k >= 2 && (merged_single[k - 1] || expected[k - 2].is_empty());
                if k <= 2 || outer_merged {
                    return fail(
                        "not-dropped",
                        k,
                        format!("the intersection is empty but the rule is emitted inside {:?}", row.at_path),
                        json!({}),
                    );
                }
                cx.class("m3:empty-but-nested-under-unmerged-levels(accepted)");
            }
            if path.len() > k {
                return fail("extra-nesting", k, format!("{} @media levels around a marker nested {} deep", path.len(), k), json!({}));
            }
            // query text is otherwise preserved
            if path.len() == k {
                for (i, l) in path.iter().enumerate() {
                    if *l != case.levels[i].queries {
                        return fail(
                            "text-not-preserved",
                            k,
                            format!(
                                "nothing was merged, yet level {} reads {:?} instead of {:?}",
                                i + 1,
                                list_text(l),
                                list_text(&case.levels[i].queries)
                            ),
                            json!({}),
                        );
                    }
                }
            } else {
                let src_q: Vec<&MQuery> = case.levels[..k].iter().flat_map(|l| l.queries.iter()).collect();
                for oq in path.iter().flatten() {
                    let ty_ok = oq.ty.is_none() || src_q.iter().any(|s| s.ty == oq.ty);
                    let mod_ok = oq.modifier.is_none() || src_q.iter().any(|s| s.modifier == oq.modifier);
                    let feats_ok = oq.feats.iter().all(|f| src_q.iter().any(|s| s.feats.contains(f)));
                    if !(ty_ok && mod_ok && feats_ok) {
                        return fail(
                            "text-not-preserved",
                            k,
                            format!("merged query {:?} contains a type, modifier or condition spelled differently from every source query", oq.text()),
                            json!({}),
                        );
                    }
                }
            }
            merged_single[k] = path.len() == 1;
            let shape = if path.len() == k && k > 1 {
                "nested(unmerged)"
            } else if path.len() == 1 {
                if k > 1 { "merged" } else { "single" }
            } else {
                "partly-merged"
            };
            if k > 1 {
                cx.class(&format!("m{}:{}", k, shape));
            }
            if k == n {
                innermost = shape;
            }
        }
        let sample = || {
            json!({"class": case.class, "source": src, "style": case.style, "output": css_text, "innermost": innermost,
                   "expected_environments": (0..n).map(|i| set_desc(&u, &expected[i])).collect::<Vec<_>>()})
        };
        if nontrivial {
            cx.sample_nontrivial(sample);
        } else {
            cx.sample(sample);
        }
        Verdict::Pass
    }
}

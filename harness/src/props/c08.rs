//! C08 — units convert by the CSS ratios and unit algebra is consistent.
//!
//! Enumerated part: all 36 x 36 ordered pairs over (34 known units, one unknown unit, unitless) x
//! operations x 3 magnitudes, plus the round-trip / transitivity laws over all triples of a class.
//! Generated part: `*` / `math.div` chains producing compound units.

use crate::engine::*;
use crate::oracle::decimal as dec;
use crate::oracle::units::{self as un, Quantity};
use crate::props::c07::sass_mod;
use proptest::prelude::*;
use serde::{Deserialize, Serialize};
use serde_json::json;

pub struct C08;

pub const UNKNOWN_UNIT: &str = "foo";

/// the 36 "units" of the enumerated part; "" = unitless
pub fn all_units() -> Vec<&'static str> {
    let mut v: Vec<&'static str> = un::KNOWN_UNITS.to_vec();
    v.push(UNKNOWN_UNIT);
    v.push("");
    v
}

pub const PAIR_OPS: [&str; 18] = [
    "+", "-", "<", "==", "%", "min", "max", "div", "div-unit", "*", "*-unit", "compatible", "unit", "emit*", "emit-div", "!=",
    // three arguments: the first operand scaled (x3 / :3) comes last, so the running extreme has
    // changed unit before the last comparison
    "min3", "max3",
];

#[derive(Clone, Debug, Serialize, Deserialize, Hash, PartialEq)]
pub struct Item {
    pub op: String,
    pub u1: String,
    pub u2: String,
    #[serde(default)]
    pub u3: String,
    pub mag: u8,
}

#[derive(Clone, Debug, Serialize, Deserialize, Hash, PartialEq)]
pub struct Step {
    pub div: bool,
    pub value: String,
    pub unit: String,
}

#[derive(Clone, Debug, Serialize, Deserialize)]
pub enum Case {
    /// items that must all evaluate; one compilation
    Batch(Vec<Item>),
    /// an item that must be rejected; one compilation
    Reject(Item),
    /// generated `*` / math.div chain
    Chain { value: String, unit: String, steps: Vec<Step> },
}

// ------------------------------------------------------------------------------------------
// magnitudes

/// magnitude 0: both operands denote the same quantity where the units allow it
fn same_quantity(u: &str) -> &'static str {
    match u {
        "in" => "1",
        "px" => "96",
        "cm" => "2.54",
        "mm" => "25.4",
        "q" => "101.6",
        "pt" => "72",
        "pc" => "6",
        "turn" => "1",
        "deg" => "360",
        "grad" => "400",
        "rad" => "6.283185307179586",
        "s" => "1.5",
        "ms" => "1500",
        "kHz" => "1.5",
        "Hz" => "1500",
        "dpi" => "243.84",
        "dppx" => "2.54",
        "dpcm" => "96",
        _ => "1.5",
    }
}

fn magnitudes(it: &Item) -> (String, String) {
    match it.mag {
        0 => (same_quantity(&it.u1).to_string(), same_quantity(&it.u2).to_string()),
        1 => ("3".to_string(), "7".to_string()),
        // the same raw number with two different units: equal magnitudes, different quantities
        3 => ("5".to_string(), "5".to_string()),
        _ => ("12.5".to_string(), "-0.25".to_string()),
    }
}

fn law_value(mag: u8) -> &'static str {
    match mag {
        0 => "1",
        1 => "3.7",
        _ => "0.25",
    }
}

fn num(v: &str, u: &str) -> String {
    if v.starts_with('-') {
        format!("({}{})", v, u)
    } else {
        format!("{}{}", v, u)
    }
}

fn render(it: &Item) -> String {
    let (v1, v2) = magnitudes(it);
    let (a, b) = (num(&v1, &it.u1), num(&v2, &it.u2));
    match it.op.as_str() {
        "+" | "-" | "<" | "==" | "!=" | "%" => format!("{} {} {}", a, it.op, b),
        "min" | "max" => format!("math.{}({}, {})", it.op, a, b),
        "max3" => format!("math.max({}, {}, {} * 3)", a, b, a),
        "min3" => format!("math.min({}, {}, math.div({}, 3))", a, b, a),
        "div" => format!("meta.inspect(math.div({}, {}))", a, b),
        "div-unit" => format!("math.unit(math.div({}, {}))", a, b),
        "*" => format!("meta.inspect({} * {})", a, b),
        "*-unit" => format!("math.unit({} * {})", a, b),
        "compatible" => format!("math.compatible({}, {})", a, b),
        "unit" => format!("math.unit({}) math.unit({})", a, b),
        "emit*" => format!("{} * {}", a, b),
        "emit-div" => format!("math.div({}, {})", a, b),
        // laws: u1 = a, u2 = b, u3 = c
        "roundtrip" => {
            let x = law_value(it.mag);
            format!("0{} + (0{} + {}{})", it.u1, it.u2, x, it.u1)
        }
        "roundtrip-eq" => {
            let x = law_value(it.mag);
            format!("(0{} + (0{} + {}{})) == {}{}", it.u1, it.u2, x, it.u1, x, it.u1)
        }
        "trans" => {
            let x = law_value(it.mag);
            format!("0{} + (0{} + {}{})", it.u3, it.u2, x, it.u1)
        }
        "trans-eq" => {
            let x = law_value(it.mag);
            format!("(0{} + {}{}) == (0{} + (0{} + {}{}))", it.u3, x, it.u1, it.u3, it.u2, x, it.u1)
        }
        _ => "null".to_string(),
    }
}

const PRELUDE: &str = "@use \"sass:math\";\n@use \"sass:meta\";\n";

fn stylesheet(items: &[Item]) -> String {
    let mut s = String::from(PRELUDE);
    s.push_str("a{\n");
    for (i, it) in items.iter().enumerate() {
        s.push_str(&format!("p{}:{};\n", i, render(it)));
    }
    s.push_str("}\n");
    s
}

fn split_values(css: &str, n: usize) -> Vec<Option<String>> {
    let mut out = vec![None; n];
    let body = match (css.find('{'), css.rfind('}')) {
        (Some(a), Some(b)) if a < b => &css[a + 1..b],
        _ => return out,
    };
    for d in body.split(';') {
        if let Some((name, value)) = d.split_once(':') {
            if let Some(ix) = name.trim().strip_prefix('p').and_then(|x| x.parse::<usize>().ok()) {
                if ix < n {
                    out[ix] = Some(value.trim().to_string());
                }
            }
        }
    }
    out
}

// ------------------------------------------------------------------------------------------
// expectations

const REL: f64 = 1e-12;

#[derive(Clone, Debug)]
pub enum Exp {
    /// value within +-e, followed by exactly this unit text
    Num { v: f64, e: f64, unit: String },
    /// one of several numbers (min/max of equal quantities)
    OneOf(Vec<Exp>),
    Bool(bool),
    /// the property fixes no answer here
    Skip(&'static str),
    Text(String),
    /// compilation must fail
    Error,
}

fn lit(v: &str) -> f64 {
    dec::nearest_f64(v).expect("literal")
}

/// second operand expressed in the unit of the result: (v1, v2 converted, error bound, result unit)
fn aligned(it: &Item) -> Option<(f64, f64, f64, String)> {
    let (s1, s2) = magnitudes(it);
    let (v1, v2) = (lit(&s1), lit(&s2));
    if it.u1.is_empty() {
        return Some((v1, v2, 0.0, it.u2.clone()));
    }
    if it.u2.is_empty() || it.u1 == it.u2 {
        return Some((v1, v2, 0.0, it.u1.clone()));
    }
    let f = un::factor(&it.u2, &it.u1)?;
    let c = v2 * f;
    Some((v1, c, c.abs() * REL, it.u1.clone()))
}

pub fn expect(it: &Item) -> Exp {
    let (s1, s2) = magnitudes(it);
    let (v1, v2) = (lit(&s1), lit(&s2));
    let compat = un::compatible(&it.u1, &it.u2);
    let both = !it.u1.is_empty() && !it.u2.is_empty();
    match it.op.as_str() {
        "+" | "-" | "<" | "%" | "min" | "max" => {
            if !compat {
                return Exp::Error;
            }
            let (a, c, e, unit) = aligned(it).unwrap();
            let close = (a - c).abs() <= 1e-9 * a.abs().max(c.abs());
            match it.op.as_str() {
                "+" => Exp::Num { v: a + c, e: e + 4.0 * dec::ulp(a + c) * (e > 0.0) as u8 as f64, unit },
                "-" => Exp::Num { v: a - c, e: e + 4.0 * dec::ulp(a - c) * (e > 0.0) as u8 as f64, unit },
                "<" => {
                    if close {
                        Exp::Skip("ordering of equal quantities is C07's subject")
                    } else {
                        Exp::Bool(a < c)
                    }
                }
                "%" => {
                    let q = a / c;
                    if (q - q.round()).abs() < 1e-6 {
                        return Exp::Skip("modulo at a multiple of the divisor is discontinuous");
                    }
                    let m = sass_mod(a, c);
                    Exp::Num { v: m, e: e * (q.abs().floor() + 2.0) + if e > 0.0 { 4.0 * dec::ulp(a) } else { 0.0 }, unit }
                }
                _ => {
                    // the selected argument itself, with its own unit
                    let first = Exp::Num { v: v1, e: 0.0, unit: it.u1.clone() };
                    let second = Exp::Num { v: v2, e: 0.0, unit: it.u2.clone() };
                    if close {
                        Exp::OneOf(vec![first, second])
                    } else if (it.op == "min") == (a < c) {
                        first
                    } else {
                        second
                    }
                }
            }
        }
        "min3" | "max3" => {
            if !compat {
                return Exp::Error;
            }
            let (a, c, _, _) = aligned(it).unwrap();
            let is_max = it.op == "max3";
            let t = if is_max { a * 3.0 } else { a / 3.0 };
            let close = |x: f64, y: f64| (x - y).abs() <= 1e-9 * x.abs().max(y.abs());
            if close(a, c) || close(a, t) || close(c, t) {
                return Exp::Skip("ordering of equal quantities is C07's subject");
            }
            let best = if is_max { a.max(c).max(t) } else { a.min(c).min(t) };
            if best == a {
                Exp::Num { v: v1, e: 0.0, unit: it.u1.clone() }
            } else if best == c {
                Exp::Num { v: v2, e: 0.0, unit: it.u2.clone() }
            } else {
                let v3 = if is_max { v1 * 3.0 } else { v1 / 3.0 };
                Exp::Num { v: v3, e: 4.0 * dec::ulp(v3), unit: it.u1.clone() }
            }
        }
        "==" | "!=" => {
            let eq = if it.u1.is_empty() != it.u2.is_empty() {
                false
            } else if !compat {
                false
            } else {
                let (a, c, _, _) = aligned(it).unwrap();
                let d = (a - c).abs();
                if d < 1e-12 {
                    true
                } else if d > 1e-9 {
                    false
                } else {
                    return Exp::Skip("difference inside the tolerance sliver");
                }
            };
            Exp::Bool(eq == (it.op == "=="))
        }
        "compatible" => Exp::Bool(compat),
        "unit" => Exp::Text(format!("\"{}\" \"{}\"", it.u1, it.u2)),
        "*" | "*-unit" | "emit*" => {
            let q = Quantity::single(v1, &it.u1).mul(&Quantity::single(v2, &it.u2));
            let us = un::unit_string(&q.numer, &q.denom);
            match it.op.as_str() {
                "*" => Exp::Num { v: q.value, e: 0.0, unit: us },
                "*-unit" => Exp::Text(format!("\"{}\"", us)),
                _ => {
                    if both {
                        Exp::Error
                    } else {
                        Exp::Num { v: q.value, e: 0.0, unit: us }
                    }
                }
            }
        }
        "div" | "div-unit" | "emit-div" => {
            // convertible units cancel; otherwise the quotient unit is u1/u2
            let (v, e, numer, denom): (f64, f64, Vec<String>, Vec<String>) = if both && un::convertible(&it.u1, &it.u2) {
                let (a, c, e, _) = aligned(it).unwrap();
                let v = a / c;
                (v, if e > 0.0 { v.abs() * 4.0 * REL } else { 0.0 }, vec![], vec![])
            } else {
                let q = Quantity::single(v1, &it.u1).div(&Quantity::single(v2, &it.u2));
                (q.value, 0.0, q.numer, q.denom)
            };
            let us = un::unit_string(&numer, &denom);
            match it.op.as_str() {
                "div" => Exp::Num { v, e, unit: us },
                "div-unit" => Exp::Text(format!("\"{}\"", us)),
                _ => {
                    if numer.len() <= 1 && denom.is_empty() {
                        Exp::Num { v, e, unit: us }
                    } else {
                        Exp::Error
                    }
                }
            }
        }
        "roundtrip" | "roundtrip-eq" | "trans" | "trans-eq" => {
            let x = lit(law_value(it.mag));
            let ok = un::convertible(&it.u1, &it.u2) && (it.u3.is_empty() || un::convertible(&it.u2, &it.u3));
            if !ok {
                return Exp::Skip("not a triple of one class");
            }
            match it.op.as_str() {
                "roundtrip" => Exp::Num { v: x, e: x.abs() * 4.0 * REL, unit: it.u1.clone() },
                "trans" => {
                    let v = x * un::factor(&it.u1, &it.u3).unwrap();
                    Exp::Num { v, e: v.abs() * 4.0 * REL, unit: it.u3.clone() }
                }
                _ => Exp::Bool(true),
            }
        }
        _ => Exp::Skip("unknown op"),
    }
}

/// does the observed value text satisfy the expectation?
fn satisfies(exp: &Exp, text: &str) -> Result<(), String> {
    match exp {
        Exp::Skip(_) => Ok(()),
        Exp::Error => Err("a value was produced where an error is required".into()),
        Exp::Bool(b) => {
            if text == if *b { "true" } else { "false" } {
                Ok(())
            } else {
                Err(format!("expected {}", b))
            }
        }
        Exp::Text(t) => {
            if text == t {
                Ok(())
            } else {
                Err(format!("expected `{}`", t))
            }
        }
        Exp::OneOf(v) => {
            if v.iter().any(|e| satisfies(e, text).is_ok()) {
                Ok(())
            } else {
                Err("matches none of the acceptable results".into())
            }
        }
        Exp::Num { v, e, unit } => {
            let (n, u) = un::split_number(text);
            if u != unit {
                return Err(format!("expected unit `{}`, found `{}`", unit, u));
            }
            let j = dec::judge_printed(n, v - e, v + e, false);
            if j.ok {
                Ok(())
            } else {
                Err(format!("expected {}{} (+-{:e}): {}", dec::reference_text(*v, false), unit, e, j.reason))
            }
        }
    }
}

fn describe(exp: &Exp) -> String {
    match exp {
        Exp::Num { v, e, unit } => format!("{}{} (+-{:e})", dec::reference_text(*v, false), unit, e),
        Exp::OneOf(v) => v.iter().map(describe).collect::<Vec<_>>().join(" or "),
        Exp::Bool(b) => b.to_string(),
        Exp::Skip(w) => format!("(no claim: {})", w),
        Exp::Text(t) => t.clone(),
        Exp::Error => "a compile error".into(),
    }
}

fn sig_units(it: &Item) -> String {
    let c = |u: &str| -> String {
        if u.is_empty() {
            "unitless".into()
        } else {
            match un::class_of(u) {
                Some(c) => format!("{:?}", c),
                None => "other".into(),
            }
        }
    };
    format!("{}~{}", c(&it.u1), c(&it.u2))
}

// ------------------------------------------------------------------------------------------
// enumeration

fn enumerate_all() -> Vec<Case> {
    let units = all_units();
    let mut ok: Vec<Item> = vec![];
    let mut reject: Vec<Item> = vec![];
    for u1 in &units {
        for u2 in &units {
            for op in PAIR_OPS {
                for mag in 0..4u8 {
                    if (op == "emit*" || op == "emit-div" || op == "unit" || op == "*-unit" || op == "div-unit" || op == "compatible") && mag != 1 {
                        // the value plays no role
                        continue;
                    }
                    let it = Item { op: op.to_string(), u1: u1.to_string(), u2: u2.to_string(), u3: String::new(), mag };
                    match expect(&it) {
                        // rejections do not depend on the value: three magnitudes are enough
                        Exp::Error if mag == 3 => {}
                        Exp::Error => reject.push(it),
                        _ => ok.push(it),
                    }
                }
            }
        }
    }
    // laws over all triples of each class
    for a in &units {
        for b in &units {
            if !un::convertible(a, b) || un::class_of(a).is_none() {
                continue;
            }
            for mag in 0..3u8 {
                for op in ["roundtrip", "roundtrip-eq"] {
                    ok.push(Item { op: op.into(), u1: a.to_string(), u2: b.to_string(), u3: String::new(), mag });
                }
            }
            for c in &units {
                if !un::convertible(b, c) {
                    continue;
                }
                for mag in 0..3u8 {
                    for op in ["trans", "trans-eq"] {
                        ok.push(Item { op: op.into(), u1: a.to_string(), u2: b.to_string(), u3: c.to_string(), mag });
                    }
                }
            }
        }
    }
    let mut cases: Vec<Case> = ok.chunks(200).map(|c| Case::Batch(c.to_vec())).collect();
    cases.extend(reject.into_iter().map(Case::Reject));
    // compound units: every three-factor chain over a reduced unit set, in the three shapes
    // (a*b)/c, (a/b)/c, (a/b)*c
    const SMALL: [&str; 11] = ["px", "in", "cm", "deg", "rad", "s", "ms", "em", "%", "foo", ""];
    for a in SMALL {
        for b in SMALL {
            for c in SMALL {
                for (d1, d2) in [(false, true), (true, true), (true, false)] {
                    cases.push(Case::Chain {
                        value: "3".into(),
                        unit: a.into(),
                        steps: vec![Step { div: d1, value: "7".into(), unit: b.into() }, Step { div: d2, value: "2".into(), unit: c.into() }],
                    });
                }
            }
        }
    }
    cases
}

// ------------------------------------------------------------------------------------------
// generated chains

fn chain_unit() -> BoxedStrategy<String> {
    let mut pool: Vec<&'static str> = all_units();
    pool.push("bar");
    // convertible classes are the interesting part: weight them up
    let weighted: Vec<&'static str> = pool
        .iter()
        .flat_map(|u| std::iter::repeat(*u).take(if un::class_of(u).is_some() { 3 } else { 1 }))
        .collect();
    any::<u16>().prop_map(move |i| weighted[idx(i, weighted.len())].to_string()).boxed()
}

fn chain_value() -> BoxedStrategy<String> {
    const POOL: [&str; 16] = ["1", "2", "3", "4", "5", "7", "10", "0.5", "1.5", "2.5", "12", "96", "2.54", "-2", "-0.25", "100"];
    any::<u16>().prop_map(|i| POOL[idx(i, POOL.len())].to_string()).boxed()
}

fn chain_case() -> BoxedStrategy<Case> {
    (chain_value(), chain_unit(), proptest::collection::vec((any::<bool>(), chain_value(), chain_unit()), 1..6))
        .prop_map(|(value, unit, steps)| Case::Chain {
            value,
            unit,
            steps: steps.into_iter().map(|(div, value, unit)| Step { div, value, unit }).collect(),
        })
        .boxed()
}

fn chain_expr(value: &str, unit: &str, steps: &[Step]) -> String {
    let mut e = num(value, unit);
    for s in steps {
        let o = num(&s.value, &s.unit);
        e = if s.div { format!("math.div({}, {})", e, o) } else { format!("({} * {})", e, o) };
    }
    e
}

impl C08 {
    fn check_batch(&self, items: &[Item], cx: &mut Ctx) -> Verdict {
        let n = items.len();
        let res = cx.compile(&Single::scss(stylesheet(items)));
        let vals = match &res.outcome {
            Outcome::Css(c) => split_values(c, n),
            Outcome::Error(e) => {
                if n > 1 {
                    // locate the item: compile each alone
                    for it in items {
                        if let Verdict::Fail(f) = self.check_batch(std::slice::from_ref(it), cx) {
                            return Verdict::Fail(f);
                        }
                    }
                    return Verdict::Fail(Failure::new("C08/batch-error", format!("the batch fails ({}) but every item alone succeeds", e.message), json!({})));
                }
                let it = &items[0];
                return Verdict::Fail(Failure::new(
                    format!("C08/rejected:{}:{}", it.op, sig_units(it)),
                    format!("`{}` fails ({}), expected {}", render(it), e.message, describe(&expect(it))),
                    json!({"item": it, "message": e.message}),
                ));
            }
            Outcome::Panic { at, msg } => {
                if n > 1 {
                    for it in items {
                        if let Verdict::Fail(f) = self.check_batch(std::slice::from_ref(it), cx) {
                            return Verdict::Fail(f);
                        }
                    }
                }
                return Verdict::Fail(Failure::new(
                    format!("C08/panic-where-a-value-is-expected:{}", items[0].op),
                    format!("`{}` panics at {} ({}), expected {}", render(&items[0]), at, msg, describe(&expect(&items[0]))),
                    json!({"item": items[0], "at": at, "msg": msg}),
                ));
            }
            _ => {
                cx.inconclusive("abnormal-outcome");
                return Verdict::Discard;
            }
        };
        cx.add_evaluations(n.saturating_sub(1) as u64);
        for (i, it) in items.iter().enumerate() {
            let exp = expect(it);
            cx.class(&format!("op:{}", it.op));
            if let Exp::Skip(w) = &exp {
                cx.class(&format!("no-claim:{}", w));
            }
            if it.u1 != it.u2 {
                cx.nontrivial(it);
                if it.op == "+" && un::convertible(&it.u1, &it.u2) {
                    cx.sample_nontrivial(|| json!({"source": render(it), "expected": describe(&exp), "observed": vals[i]}));
                }
            } else {
                cx.sample(|| json!({"source": render(it), "expected": describe(&exp), "observed": vals[i]}));
            }
            let text = match &vals[i] {
                Some(t) => t.clone(),
                None => String::new(),
            };
            if let Err(why) = satisfies(&exp, &text) {
                return Verdict::Fail(Failure::new(
                    format!("C08/wrong:{}:{}", it.op, sig_units(it)),
                    format!("`{}` gives `{}`, expected {}: {}", render(it), text, describe(&exp), why),
                    json!({"item": it, "observed": text, "expected": describe(&exp)}),
                ));
            }
        }
        Verdict::Pass
    }

    fn check_reject(&self, it: &Item, cx: &mut Ctx) -> Verdict {
        cx.class(&format!("reject:{}", it.op));
        if it.u1 != it.u2 {
            cx.nontrivial(it);
        }
        let res = cx.compile(&Single::scss(stylesheet(std::slice::from_ref(it))));
        match &res.outcome {
            Outcome::Error(_) => Verdict::Pass,
            Outcome::Css(c) => {
                let v = split_values(c, 1)[0].clone().unwrap_or_default();
                Verdict::Fail(Failure::new(
                    format!("C08/silently-computed:{}:{}", it.op, sig_units(it)),
                    format!("`{}` gives `{}`, expected a compile error", render(it), v),
                    json!({"item": it, "observed": v}),
                ))
            }
            Outcome::Panic { at, msg } => Verdict::Fail(Failure::new(
                format!("C08/panic-where-an-error-is-expected:{}", it.op),
                format!("`{}` panics at {} ({})", render(it), at, msg),
                json!({"item": it}),
            )),
            _ => {
                cx.inconclusive("abnormal-outcome");
                Verdict::Discard
            }
        }
    }

    fn check_chain(&self, value: &str, unit: &str, steps: &[Step], cx: &mut Ctx) -> Verdict {
        // model
        let mut q = Quantity::single(lit(value), unit);
        let mut cancelled = false;
        for s in steps {
            let o = Quantity::single(lit(&s.value), &s.unit);
            q = if s.div { q.div(&o) } else { q.mul(&o) };
            let c = q.canonical();
            if c.numer.len() + c.denom.len() < q.numer.len() + q.denom.len() {
                cancelled = true;
            }
            if c.numer.len() > 2 || c.denom.len() > 2 {
                cx.class("chain:beyond-2x2(discarded)");
                return Verdict::Discard;
            }
        }
        let canon = q.canonical();
        let expr = chain_expr(value, unit, steps);
        let emittable = q.emittable();
        cx.class(&format!("chain:result-{}n{}d", canon.numer.len(), canon.denom.len()));
        cx.class(if cancelled { "chain:with-cancellation" } else { "chain:no-cancellation" });
        if cancelled || !emittable {
            cx.nontrivial(&expr);
            cx.sample_nontrivial(|| json!({"expr": expr, "canonical_value": canon.value, "canonical_unit": un::unit_string(&canon.numer, &canon.denom)}));
        }
        let src = format!("{}a{{\np0:meta.inspect({});\np1:math.unit({});\n}}\n", PRELUDE, expr, expr);
        let src2 = format!("{}a{{\np0:{};\n}}\n", PRELUDE, expr);
        let res = cx.run_job(&Job { steps: vec![Single::scss(src), Single::scss(src2)], storm: vec![] });
        let fail = |sig: &str, what: String| Verdict::Fail(Failure::new(format!("C08/chain:{}", sig), what, json!({"expr": expr})));
        // (1) inspect + math.unit
        let vals = match &res[0].outcome {
            Outcome::Css(c) => split_values(c, 2),
            Outcome::Error(e) => return fail("inspect-rejected", format!("`meta.inspect({})` fails: {}", expr, e.message)),
            Outcome::Panic { at, msg } => return fail("panic", format!("`{}` panics at {} ({})", expr, at, msg)),
            _ => {
                cx.inconclusive("abnormal-outcome");
                return Verdict::Discard;
            }
        };
        let inspected = vals[0].clone().unwrap_or_default();
        let unit_text = vals[1].clone().unwrap_or_default();
        let (n, u) = un::split_number(&inspected);
        if unit_text != format!("\"{}\"", u) {
            return fail("unit-vs-inspect", format!("math.unit gives {} but inspect gives `{}` for `{}`", unit_text, inspected, expr));
        }
        let (on, od) = match un::parse_unit_string(u) {
            Some(x) => x,
            None => return fail("unit-syntax", format!("cannot read the unit of `{}`", inspected)),
        };
        let shown = match dec::parse_printed(n, false) {
            Ok(_) => dec::nearest_f64(n).unwrap_or(f64::NAN),
            Err(why) => return fail("number-syntax", format!("`{}`: {}", inspected, why)),
        };
        let obs = Quantity { value: shown, numer: on, denom: od };
        if !obs.fully_cancelled() {
            return fail("not-cancelled", format!("`{}` = `{}`: convertible units left in numerator and denominator", expr, inspected));
        }
        let oc = obs.canonical();
        if oc.numer != canon.numer || oc.denom != canon.denom {
            return fail(
                "wrong-dimension",
                format!("`{}` = `{}`: expected the dimension {}", expr, inspected, un::unit_string(&canon.numer, &canon.denom)),
            );
        }
        // the shown value was rounded to 10 digits in the units chosen by the implementation: compare
        // in canonical units with the corresponding absolute slack
        let scale = if shown != 0.0 { (oc.value / shown).abs() } else { 1.0 };
        let slack = 0.5000001e-10 * scale + canon.value.abs() * 1e-11;
        if !((oc.value - canon.value).abs() <= slack) {
            return fail(
                "wrong-value",
                format!("`{}` = `{}` = {:e} in canonical units, expected {:e}", expr, inspected, oc.value, canon.value),
            );
        }
        // (2) emission
        match (&res[1].outcome, emittable) {
            (Outcome::Error(_), false) => Verdict::Pass,
            (Outcome::Css(c), false) => fail("compound-unit-emitted", format!("`{}` is emitted as `{}`", expr, split_values(c, 1)[0].clone().unwrap_or_default())),
            (Outcome::Css(c), true) => {
                let t = split_values(c, 1)[0].clone().unwrap_or_default();
                if t == inspected {
                    Verdict::Pass
                } else {
                    fail("emit-vs-inspect", format!("`{}` is emitted as `{}` but inspected as `{}`", expr, t, inspected))
                }
            }
            (Outcome::Error(e), true) => fail("simple-unit-rejected", format!("`{}` (= {}) cannot be emitted: {}", expr, inspected, e.message)),
            (Outcome::Panic { at, msg }, _) => fail("panic", format!("`{}` panics at {} ({})", expr, at, msg)),
            _ => {
                cx.inconclusive("abnormal-outcome");
                Verdict::Discard
            }
        }
    }
}

impl Prop for C08 {
    type Case = Case;
    fn id(&self) -> &'static str {
        "C08"
    }
    fn rule(&self) -> String {
        "enumerated: every ordered pair over 34 known units + the unknown unit `foo` + unitless (36^2 = 1296) x {+, -, <, ==, !=, %, math.min, math.max (two arguments, and three: a, b, a*3 resp. a/3), math.div (inspect, math.unit, emission), * (inspect, math.unit, emission), math.compatible, math.unit} x 4 magnitudes (same quantity in both units / 3 and 7 / 12.5 and -0.25 / the same raw number 5 with both units; one magnitude where the value plays no role), plus round-trip and transitivity laws over all ordered pairs / triples of each conversion class x 3 values; items that must evaluate are batched 200 per compile, items that must be rejected are compiled alone. Enumerated as well: all three-factor chains (a*b)/c, (a/b)/c, (a/b)*c over 11 representative units. Generated (thorough tier only): chains of 1..5 `*` / math.div steps over the same units (+ a second unknown unit), discarded if an intermediate result exceeds 2 numerator or 2 denominator units. Non-trivial: a pair item with two distinct units; a chain with at least one cancellation or a compound result. Distinct = distinct item / chain expression.".into()
    }
    fn assumptions(&self) -> Vec<String> {
        vec![
            "conversion ratios are those of CSS Values and Units, held as exact rationals (times pi for rad); a converted operand may deviate by 1e-12 relative before printing".into(),
            "`1 == 1px` is false (Sass documentation: numbers are equal if values and units agree or agree after conversion); unitless is compatible with every unit (dart-sass math.compatible)".into(),
            "math.min/max return the selected argument unconverted; when both denote the same quantity either may be returned; `<` on equal quantities and `%` at an exact multiple are not judged here (C07)".into(),
            "math.unit()/inspect spell unit products as dart-sass 1.54 does: a*b, a/b, a^-1, (a*b)^-1".into(),
            "for chains, which of several convertible numerator/denominator units is cancelled is not fixed: the result is compared in canonical units (px, deg, ms, Hz, dpi)".into(),
        ]
    }
    fn strategy(&self, tier: Tier) -> Option<(BoxedStrategy<Case>, u32)> {
        match tier {
            // quick = the complete enumerated part only (evidence: exhaustive)
            Tier::Quick => None,
            Tier::Thorough => Some((chain_case(), 200_000)),
        }
    }
    fn enumerate(&self, _tier: Tier) -> Vec<Case> {
        enumerate_all()
    }
    fn check(&self, case: &Case, cx: &mut Ctx) -> Verdict {
        match case {
            Case::Batch(items) => self.check_batch(items, cx),
            Case::Reject(it) => self.check_reject(it, cx),
            Case::Chain { value, unit, steps } => self.check_chain(value, unit, steps, cx),
        }
    }
    fn extra_evidence(&self, _stats: &Stats) -> serde_json::Value {
        json!({"exhaustive_part": "all 36x36 ordered unit pairs x operations x magnitudes, and all class triples for the conversion laws, are enumerated completely in every tier", "unit_pairs": 1296})
    }
}

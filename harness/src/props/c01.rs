//! C01 — totality: every input yields CSS or a structured error; never a panic, abort or parser hang.

use crate::corpus::corpus;
use crate::engine::*;
use crate::gen::text::*;
use proptest::prelude::*;
use serde::{Deserialize, Serialize};
use serde_json::json;
use std::time::Duration;

pub struct C01;

#[derive(Clone, Debug, Serialize, Deserialize, PartialEq)]
pub enum EntryMode {
    FromString,
    FromPath,
    Import,
    Use,
    Forward,
}

#[derive(Clone, Debug, Serialize, Deserialize)]
pub struct Case {
    pub class: String,
    pub text: Bytes,
    pub syntax: Syntax,
    pub style: Style,
    pub quiet: bool,
    pub unicode: bool,
    pub charset: bool,
    pub mode: EntryMode,
    /// bounded by construction: an evaluation-phase timeout is a violation
    #[serde(default)]
    pub bounded: bool,
}

#[derive(Clone, Debug)]
struct Cfg {
    syntax: Syntax,
    style: Style,
    quiet: bool,
    unicode: bool,
    charset: bool,
    mode: EntryMode,
}

fn cfg() -> impl Strategy<Value = Cfg> {
    (
        prop_oneof![Just(Syntax::Scss), Just(Syntax::Sass), Just(Syntax::Css)],
        prop_oneof![Just(Style::Expanded), Just(Style::Compressed)],
        any::<bool>(),
        any::<bool>(),
        any::<bool>(),
        prop_oneof![
            6 => Just(EntryMode::FromString),
            2 => Just(EntryMode::FromPath),
            1 => Just(EntryMode::Import),
            1 => Just(EntryMode::Use),
            1 => Just(EntryMode::Forward),
        ],
    )
        .prop_map(|(syntax, style, quiet, unicode, charset, mode)| Cfg {
            syntax,
            style,
            quiet,
            unicode,
            charset,
            mode,
        })
}

fn mk(class: &str, text: String, c: Cfg) -> Case {
    Case {
        class: class.to_string(),
        text: Bytes::Text(text),
        syntax: c.syntax,
        style: c.style,
        quiet: c.quiet,
        unicode: c.unicode,
        charset: c.charset,
        mode: c.mode,
        bounded: false,
    }
}

pub fn build_single(case: &Case) -> Single {
    let ext = case.syntax.ext();
    let mut s = Single::scss("");
    s.style = case.style;
    s.quiet = case.quiet;
    s.unicode = case.unicode;
    s.charset = case.charset;
    match case.mode {
        EntryMode::FromString => {
            match &case.text {
                Bytes::Text(t) => s.entry = Entry::Text(t.clone()),
                // from_string takes a String: invalid UTF-8 cannot be passed; use from_path instead
                Bytes::Hex(_) => {
                    let name = format!("entry.{}", ext);
                    s.files.push((name.clone(), case.text.clone()));
                    s.entry = Entry::Path(name);
                }
            }
            s.syntax = Some(case.syntax);
        }
        EntryMode::FromPath => {
            let name = format!("entry.{}", ext);
            s.files.push((name.clone(), case.text.clone()));
            s.entry = Entry::Path(name);
            s.syntax = None;
        }
        EntryMode::Import | EntryMode::Use | EntryMode::Forward => {
            let name = format!("m.{}", ext);
            s.files.push((name, case.text.clone()));
            let rule = match case.mode {
                EntryMode::Import => "@import \"m\";\n",
                EntryMode::Use => "@use \"m\";\n",
                _ => "@forward \"m\";\n",
            };
            s.files
                .push(("entry.scss".to_string(), Bytes::Text(rule.to_string())));
            s.entry = Entry::Path("entry.scss".to_string());
            s.syntax = None;
        }
    }
    s
}

fn norm_msg(m: &str) -> String {
    let mut out = String::new();
    let mut last_digit = false;
    for c in m.chars() {
        if c.is_ascii_digit() {
            if !last_digit {
                out.push('N');
            }
            last_digit = true;
        } else {
            last_digit = false;
            out.push(if c == '\n' { ' ' } else { c });
        }
        if out.len() > 70 {
            break;
        }
    }
    out
}

pub fn panic_signature(at: &str, msg: &str) -> String {
    // file without the line number, which moves under unrelated edits
    let file = at.rsplit_once(':').map(|(f, _)| f).unwrap_or(at);
    let file = file.rsplit("/src/").next().unwrap_or(file);
    format!("panic:{}:{}", file, norm_msg(msg))
}

pub const DEPTH_CAP: usize = 64;

/// Judge one compilation result for totality. Shared with C19/C20 (which skip abnormal cases).
pub fn judge(case: &Case, single: &Single, res: &Res, cx: &mut Ctx) -> Verdict {
    match &res.outcome {
        Outcome::Css(_) | Outcome::Error(_) | Outcome::Parsed => Verdict::Pass,
        Outcome::Panic { at, msg } => Verdict::Fail(Failure::new(
            panic_signature(at, msg),
            format!("panic at {}: {}", at, msg),
            json!({"at": at, "msg": msg}),
        )),
        Outcome::Crash { signal, stderr } => {
            let so = stderr.contains("overflowed its stack");
            Verdict::Fail(Failure::new(
                if so {
                    "crash:stack-overflow".to_string()
                } else {
                    format!("crash:signal{}", signal)
                },
                format!("worker process died (signal {}) {}", signal, stderr.trim()),
                json!({"signal": signal, "stderr": stderr}),
            ))
        }
        Outcome::NotRun => Verdict::Discard,
        Outcome::Timeout => {
            // which phase? the parse phase is observed alone, with a longer limit, twice
            let mut p = single.clone();
            p.mode = Mode::ParseOnly;
            if let EntryMode::Import | EntryMode::Use | EntryMode::Forward = case.mode {
                // parse the imported file itself
                p.entry = Entry::Path(format!("m.{}", case.syntax.ext()));
            }
            // while shrinking a failure that was already confirmed with the long limits, short ones do
            let t = Duration::from_secs(if cx.counting || cx.replay { 20 } else { 3 });
            let r1 = cx.worker.one_timeout(&p, t);
            if matches!(r1.outcome, Outcome::Timeout) {
                let r2 = if cx.counting || cx.replay { cx.worker.one_timeout(&p, t) } else { r1.clone() };
                if matches!(r2.outcome, Outcome::Timeout) {
                    return Verdict::Fail(Failure::new(
                        format!("hang:parse:{:?}", case.syntax),
                        "the parser does not terminate (2 x 20 s on a <= 4 KiB input)".to_string(),
                        json!({}),
                    ));
                }
            }
            if case.bounded {
                let r = cx.worker.one_timeout(single, Duration::from_secs(30));
                if matches!(r.outcome, Outcome::Timeout) {
                    return Verdict::Fail(Failure::new(
                        "hang:eval:bounded-program",
                        "evaluation of a program bounded by construction does not terminate (10 s + 30 s)",
                        json!({}),
                    ));
                }
                return Verdict::Pass;
            }
            cx.inconclusive("eval-timeout");
            Verdict::Discard
        }
    }
}

fn depth_ladder() -> Vec<Case> {
    let mut v = vec![];
    let base = Cfg {
        syntax: Syntax::Scss,
        style: Style::Expanded,
        quiet: false,
        unicode: true,
        charset: true,
        mode: EntryMode::FromString,
    };
    for d in [16usize, 32, 64, 128, 256, 512, 1024, 2048, 4096, 8192] {
        let shapes: Vec<(&str, String)> = vec![
            ("parens", format!("a{{b:{}1{}}}", "(".repeat(d), ")".repeat(d))),
            ("blocks", format!("{}b:c{}", "a{".repeat(d), "}".repeat(d))),
            ("interp", format!("a{{b:{}1{}}}", "#{".repeat(d), "}".repeat(d))),
            ("if", format!("{}a{{b:c}}{}", "@if true{".repeat(d), "}".repeat(d))),
            ("pseudo", format!("{}a{}{{b:c}}", ":not(".repeat(d), ")".repeat(d))),
            ("brackets", format!("a{{b:{}1{}}}", "[".repeat(d), "]".repeat(d))),
            ("calc", format!("a{{b:calc({}1{})}}", "(".repeat(d), ")".repeat(d))),
            ("unclosed-blocks", "a{".repeat(d)),
            ("unary", format!("a{{b:{}1}}", "- ".repeat(d))),
            ("not", format!("a{{b:{}true}}", "not ".repeat(d))),
        ];
        for (name, text) in shapes {
            let c = mk(&format!("G7-depth-{}-{}", name, d), text, base.clone());
            v.push(c);
        }
    }
    v
}

/// G8 (enumerated): multi-byte text placed before column-sensitive constructs on the same line -
/// loud comments (re-indented from their start column), nested blocks, error sites. A character
/// column used as a byte offset, or the reverse, shows here. Both styles, SCSS and plain CSS.
fn non_ascii_layouts() -> Vec<Case> {
    let pre = [
        "a { b: \"日本語\"; } ", "/* 注釈です */ ", "a{b:\"ééé\"}", "\u{feff}", "x { y: \"😀\" } ", "é { a: b } ",
        "@media screen { é { a: b } } ", "$v: \"ü\"; ", "/*! ©é */", ".日本 > .語 { a: b }",
    ];
    let follow = [
        "/* end */", "/*! end */", "/* a\n   b */", "a { /* c */ b: c; /* d\n e */ }", "@foo é { /* x */ }",
        "b { c: d } /* 終 */ /* end\n  end */", "a { b: 1 + ; }", "#{é} { a: b } /* z */",
    ];
    let mut v = vec![];
    for (i, p) in pre.iter().enumerate() {
        for (j, f) in follow.iter().enumerate() {
            for style in [Style::Expanded, Style::Compressed] {
                let syntax = if p.starts_with('$') || f.contains("#{") || f.contains("1 + ") || (i + j) % 3 != 0 { Syntax::Scss } else { Syntax::Css };
                let cfg = Cfg { syntax, style, quiet: true, unicode: (i + j) % 2 == 0, charset: j % 2 == 0, mode: EntryMode::FromString };
                v.push(mk("G8-non-ascii-layout", format!("{}{}\n", p, f), cfg));
            }
        }
    }
    v
}

impl Prop for C01 {
    type Case = Case;
    fn id(&self) -> &'static str {
        "C01"
    }
    fn rule(&self) -> String {
        "cases = (text, syntax, style, quiet, unicode, charset, entry mode); classes: G1 corpus under all three syntaxes, G2 corpus + 1..4 token/char mutations (EOF truncations weighted up), G3 generated programs (value-heavy sheets, rule trees, SassScript programs; SCSS and indented; 0..2 mutations; unmutated ones are bounded by construction, so an evaluation timeout is a violation), G4 token soup from a Sass dictionary, G5 every built-in (global and sass:*) called with 0..4 well/ill-typed arguments, G6 raw bytes incl. invalid UTF-8 through from_path/@import/@use/@forward, G7 nesting-depth ladder 16..8192 (enumerated), G8 multi-byte text before loud comments / blocks / error sites on the same line (enumerated, 160 sheets). Bracket depth is capped at 64 for G1-G6 (deeper = excluded, counted). Non-trivial = at least 3 tokens, not byte-identical to a corpus entry, and compiles or fails at a location other than 0:0; distinct = distinct (text, syntax, mode).".into()
    }
    fn assumptions(&self) -> Vec<String> {
        vec![
            "a parse that runs 10 s and then twice 20 s on a <= 4 KiB input is non-termination".into(),
            "evaluation-phase timeouts of unbounded inputs (token soup may contain huge loops) are inconclusive, not violations".into(),
        ]
    }
    fn strategy(&self, tier: Tier) -> Option<(BoxedStrategy<Case>, u32)> {
        let n = corpus().len();
        let g1 = (any::<u16>(), cfg()).prop_map(move |(i, c)| {
            let e = &corpus()[idx(i, n)];
            mk("G1-corpus", e.input.clone(), c)
        });
        let g2 = (
            any::<u16>(),
            proptest::collection::vec(mut_op(), 1..4),
            cfg(),
            any::<u8>(),
        )
            .prop_map(move |(i, ops, mut c, natural)| {
                let e = &corpus()[idx(i, n)];
                if natural % 4 != 0 {
                    // mostly keep the entry's own syntax so the mutation is a near miss
                    c.syntax = e.syntax();
                }
                mk("G2-mutation", apply_mutations(&e.input, &ops), c)
            });
        let g4 = (token_soup(), cfg()).prop_map(|(t, c)| mk("G4-soup", t, c));
        let g5 = (builtin_call(), cfg(), any::<bool>()).prop_map(|(t, mut c, sass)| {
            if sass {
                // the indented syntax accepts the same one-line statements when ';' is not used
                c.syntax = Syntax::Scss;
            }
            if c.syntax == Syntax::Css || c.syntax == Syntax::Sass {
                c.syntax = Syntax::Scss;
            }
            mk("G5-builtin", t, c)
        });
        let g6 = (proptest::collection::vec(any::<u8>(), 0..64), any::<u16>(), any::<u16>(), cfg())
            .prop_map(move |(bytes, i, at, mut c)| {
                // raw bytes spliced into a corpus entry (or alone)
                let e = &corpus()[idx(i, n)];
                let mut v = e.input.as_bytes().to_vec();
                if at % 3 == 0 {
                    v = bytes;
                } else {
                    let k = idx(at, v.len() + 1);
                    let tail = v.split_off(k);
                    v.extend(bytes);
                    v.extend(tail);
                }
                if c.mode == EntryMode::FromString {
                    c.mode = EntryMode::FromPath;
                }
                let mut case = mk("G6-bytes", String::new(), c);
                case.text = Bytes::from_vec(v);
                case
            });
        // G3: programs bounded by construction (value-heavy sheets, rule trees, SassScript programs),
        // printed as SCSS / indented Sass, then 0..2 mutations. Unmutated ones must also terminate
        // in the evaluation phase.
        let g3 = (
            any::<u8>(),
            crate::gen::chooser::choices(160),
            crate::gen::ruletree::tree(),
            crate::gen::program::program_strategy(crate::gen::program::GenCfg { avoid_quoted_logs: false, avoid_calls_in_warn: false, avoid_space_splat: false, avoid_calls_in_named: false, ..Default::default() }),
            proptest::collection::vec(mut_op(), 0..3),
            cfg(),
        )
            .prop_map(|(k, ch, tree, prog, ops, mut c)| {
                let (text, syntax) = match k % 5 {
                    0 | 1 => {
                        let mut cc = crate::gen::chooser::Chooser::new(&ch);
                        (crate::gen::sheet::gen_sheet(&mut cc, crate::gen::sheet::SheetOpts { style_dependent_interp: true, scss_reread_safe: false }).scss, Syntax::Scss)
                    }
                    2 => {
                        let t = crate::gen::ruletree::sanitize(&tree, true);
                        if k % 2 == 0 && crate::gen::ruletree::sass_expressible(&t) {
                            (crate::gen::ruletree::print_sass(&t), Syntax::Sass)
                        } else {
                            (crate::gen::ruletree::print_scss(&t), Syntax::Scss)
                        }
                    }
                    3 => (crate::gen::program::print_scss(&prog).text, Syntax::Scss),
                    _ => (crate::gen::program::print_sass(&prog).text, Syntax::Sass),
                };
                c.syntax = syntax;
                // loop counts are bounded by construction, data growth is not (`$s: $s + $s` in a mixin
                // included 25 times asks for 4^25 bytes - thorough-tier false alarm): a SassScript
                // program counts as bounded only if the reference interpreter runs it to the end
                // within its step / string-size / number-range budgets
                let in_budget = k % 5 < 3 || !matches!(crate::oracle::interp::Interp::run(&prog), Err((crate::oracle::interp::Stop::OutOfDomain(_), _)));
                let bounded = ops.is_empty() && in_budget;
                let mut case = mk("G3-program", apply_mutations(&text, &ops), c);
                case.bounded = bounded;
                case
            });
        let s = prop_oneof![
            2 => g1,
            8 => g2,
            4 => g3,
            3 => g4,
            4 => g5,
            2 => g6,
        ]
        .boxed();
        Some((s, tier.pick(60_000, 2_000_000)))
    }
    fn enumerate(&self, _tier: Tier) -> Vec<Case> {
        let mut v = depth_ladder();
        v.extend(non_ascii_layouts());
        v
    }
    fn check(&self, case: &Case, cx: &mut Ctx) -> Verdict {
        let text_lossy = String::from_utf8_lossy(&case.text.to_vec()).into_owned();
        let is_ladder = case.class.starts_with("G7");
        if !is_ladder
            && (bracket_depth(&text_lossy) > DEPTH_CAP
                || (case.syntax == Syntax::Sass && indent_depth(&text_lossy) > 2 * DEPTH_CAP))
        {
            cx.excluded("nesting-depth>64 (known finding C01/stack-overflow-deep-nesting)");
            return Verdict::Discard;
        }
        let single = build_single(case);
        let res = if cx.counting || cx.replay {
            cx.compile(&single)
        } else {
            cx.worker.one_timeout(&single, Duration::from_secs(3))
        };
        cx.class(&case.class);
        let oc = match &res.outcome {
            Outcome::Css(_) => "ok",
            Outcome::Error(_) => "error",
            _ => "abnormal",
        };
        cx.class(&format!("{:?}:{}", case.syntax, oc));
        cx.class(&format!("mode:{:?}", case.mode));
        let ntok = tokenize(&text_lossy).len();
        let moved = match &res.outcome {
            Outcome::Css(_) => true,
            Outcome::Error(e) => e.begin.line > 0 || e.begin.col > 0,
            _ => true,
        };
        if ntok >= 3 && moved && case.class != "G1-corpus" {
            cx.nontrivial(&(&text_lossy, case.syntax, format!("{:?}", case.mode)));
            cx.sample_nontrivial(|| json!({"class": case.class, "syntax": case.syntax, "mode": case.mode, "text": text_lossy, "outcome": res.outcome.short()}));
        } else {
            cx.sample(|| json!({"class": case.class, "syntax": case.syntax, "mode": case.mode, "text": text_lossy, "outcome": res.outcome.short()}));
        }
        judge(case, &single, &res, cx)
    }
}

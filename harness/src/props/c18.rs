//! C18 — the three input syntaxes and insignificant source variations agree.

use crate::corpus::{corpus, fuzz_corpus};
use crate::engine::*;
use crate::gen::chooser::{choices, Chooser};
use crate::gen::plaincss::{gen_css, SASS_ONLY};
use crate::gen::rewrite;
use crate::gen::ruletree;
use crate::gen::sheet::{gen_sheet, SheetOpts};
use proptest::prelude::*;
use serde::{Deserialize, Serialize};
use serde_json::json;

pub struct C18;

#[derive(Clone, Debug, Serialize, Deserialize)]
pub struct Case {
    /// name of the relation
    pub rel: String,
    pub a: String,
    pub a_syntax: Syntax,
    pub b: String,
    pub b_syntax: Syntax,
    /// "same" = identical CSS or both fail; "b-fails" = b must be rejected
    pub expect: String,
    pub compressed: bool,
    /// how many positions the rewrite touched / structural size (for the non-trivial rule)
    pub weight: usize,
    #[serde(default)]
    pub note: String,
    /// files visible to the compilation of `a` / of `b` (in-memory file system)
    #[serde(default)]
    pub a_files: Vec<(String, String)>,
    #[serde(default)]
    pub b_files: Vec<(String, String)>,
}

#[derive(Clone, Debug)]
enum Src {
    Corpus(u16),
    /// thorough tier only: an SCSS input harvested from the coverage-guided campaign
    Fuzz(u16),
    Sheet(Vec<u16>),
    Tree(ruletree::Tree),
}

fn src(tier: Tier) -> BoxedStrategy<Src> {
    if tier == Tier::Thorough && !fuzz_scss().is_empty() {
        prop_oneof![
            3 => any::<u16>().prop_map(Src::Corpus),
            3 => any::<u16>().prop_map(Src::Fuzz),
            3 => choices(140).prop_map(Src::Sheet),
            2 => ruletree::tree().prop_map(Src::Tree),
        ]
        .boxed()
    } else {
        prop_oneof![
            3 => any::<u16>().prop_map(Src::Corpus),
            3 => choices(140).prop_map(Src::Sheet),
            2 => ruletree::tree().prop_map(Src::Tree),
        ]
        .boxed()
    }
}

fn scss_corpus() -> Vec<usize> {
    corpus()
        .iter()
        .enumerate()
        .filter(|(_, e)| e.syntax == "scss" && !e.uses_random() && crate::gen::text::bracket_depth(&e.input) < 60)
        .map(|(i, _)| i)
        .collect()
}

fn fuzz_scss() -> &'static Vec<usize> {
    static F: std::sync::OnceLock<Vec<usize>> = std::sync::OnceLock::new();
    F.get_or_init(|| {
        fuzz_corpus()
            .iter()
            .enumerate()
            .filter(|(_, e)| e.syntax == "scss" && !e.uses_random() && crate::gen::text::bracket_depth(&e.input) < 60)
            .map(|(i, _)| i)
            .collect()
    })
}

fn realize(s: &Src) -> (String, &'static str) {
    match s {
        Src::Fuzz(i) => {
            let v = fuzz_scss();
            (fuzz_corpus()[v[idx(*i, v.len())]].input.clone(), "fuzz-corpus")
        }
        Src::Corpus(i) => {
            let v = scss_corpus();
            (corpus()[v[idx(*i, v.len())]].input.clone(), "corpus")
        }
        Src::Sheet(ch) => {
            let mut c = Chooser::new(ch);
            (gen_sheet(&mut c, SheetOpts::default()).scss, "gen-sheet")
        }
        Src::Tree(t) => {
            let t = ruletree::renumber(&ruletree::sanitize(t, true));
            (ruletree::print_scss(&t), "rule-tree")
        }
    }
}

fn mk(rel: &str, a: String, a_syntax: Syntax, b: String, b_syntax: Syntax, expect: &str, compressed: bool, weight: usize, note: &str) -> Case {
    Case {
        rel: rel.into(),
        a,
        a_syntax,
        b,
        b_syntax,
        expect: expect.into(),
        compressed,
        weight,
        note: note.into(),
        a_files: vec![],
        b_files: vec![],
    }
}

impl Prop for C18 {
    type Case = Case;
    fn id(&self) -> &'static str {
        "C18"
    }
    fn rule(&self) -> String {
        "pairs (a, b) that must compile to byte-identical CSS (or both fail): rule trees and SassScript programs (control flow, mixins with content blocks, functions) printed as SCSS and as indented Sass by two independent printers each (programs: same @debug/@warn messages too); statement trees with silent/loud comments, @if/@else, @each, mixins and @media through a third pair of printers, also as a loaded file of either syntax under an entry of either syntax whose syntax option is given explicitly; generated plain-CSS sheets parsed as CSS and as SCSS; the same plus one Sass-only construct, which CSS mode must reject (30 constructs, enumerated over generated sheets); and rewrites of SCSS sources (corpus, generated value-heavy sheets, rule trees): LF -> CRLF / CR / FF at syntactic newlines, leading BOM, leading @charset, whitespace and silent comments inserted after ; { } at statement level, single spaces inside declaration / variable values replaced by newlines, tabs, CRLF or a silent comment, `_` <-> `-` exchanged independently at each occurrence in $variables and user-defined function/mixin names. Non-trivial = the rewrite touched >= 5 positions, or the tree has nesting depth >= 3 / the CSS sheet has >= 3 statements; distinct by (relation, a, b).".into()
    }
    fn assumptions(&self) -> Vec<String> {
        vec![
            "sources with a multi-line loud comment are kept out of the whitespace-insertion relation: the re-indentation of such a comment legitimately depends on the column it starts in".into(),
            "plain CSS parsed as CSS and as SCSS is compared through the CSS canonicaliser (whitespace inside function arguments, colour spellings such as RED/red, transparent/rgba(0,0,0,0)), every other relation byte for byte".into(),
            "sources that already contain CR are kept out of the newline relation".into(),
        ]
    }
    fn strategy(&self, tier: Tier) -> Option<(BoxedStrategy<Case>, u32)> {
        let two_printers = (ruletree::tree(), any::<bool>()).prop_map(|(t, compressed)| {
            let t = ruletree::renumber(&ruletree::sanitize(&t, true));
            let sh = ruletree::shape(&t);
            let a = ruletree::print_scss(&t);
            if !ruletree::sass_expressible(&t) {
                // an empty-bodied unknown at-rule cannot be spelled in the indented syntax
                return mk("scss-vs-sass", a.clone(), Syntax::Scss, a, Syntax::Scss, "same", compressed, 0, "not expressible in the indented syntax: compared with itself");
            }
            let b = ruletree::print_sass(&t);
            mk("scss-vs-sass", a, Syntax::Scss, b, Syntax::Sass, "same", compressed, sh.depth, "")
        });
        let two_printers_prog = (
            crate::gen::program::program_strategy(crate::gen::program::GenCfg { avoid_calls_in_named: true, avoid_quoted_logs: false, avoid_calls_in_warn: false, avoid_space_splat: false, ..Default::default() }),
            any::<bool>(),
        )
            .prop_map(|(p, compressed)| {
                let a = crate::gen::program::print_scss(&p).text;
                let b = crate::gen::program::print_sass(&p).text;
                let depth = a.lines().map(|l| l.chars().take_while(|c| *c == ' ').count() / 2).max().unwrap_or(0);
                mk("scss-vs-sass-program", a, Syntax::Scss, b, Syntax::Sass, "same", compressed, depth.max(3), "")
            });
        // statement trees with comments, control flow and mixins through two printers; and the same
        // tree as a loaded file of either syntax under an entry of either syntax whose syntax is
        // given explicitly (the option applies to the entry only: loaded files go by extension)
        let twins = (choices(120), any::<bool>(), any::<u8>()).prop_map(|(ch, compressed, k)| {
            let mut c = Chooser::new(&ch);
            let doc = crate::gen::dual::gen_doc(&mut c);
            let scss = crate::gen::dual::print_scss(&doc);
            let sass = crate::gen::dual::print_sass(&doc);
            let w = scss.lines().count().min(9);
            if k % 3 != 0 {
                return mk("scss-vs-sass-twins", scss, Syntax::Scss, sass, Syntax::Sass, "same", compressed, w, "");
            }
            // a: scss entry loading part.scss (baseline); b: one of the other three combinations
            let stmt = ["@import \"part\"", "@use \"part\"", "@use \"part\" as q"][(k as usize / 3) % 3];
            let (b_entry_syntax, b_part_is_sass) = [(Syntax::Scss, true), (Syntax::Sass, false), (Syntax::Sass, true)][(k as usize / 9) % 3];
            let mut case = mk(
                "explicit-syntax-entry-loads-other-syntax",
                format!("{};\n", stmt),
                Syntax::Scss,
                if b_entry_syntax == Syntax::Scss { format!("{};\n", stmt) } else { format!("{}\n", stmt) },
                b_entry_syntax,
                "same",
                compressed,
                w,
                stmt,
            );
            case.a_files = vec![("part.scss".into(), scss.clone())];
            case.b_files = vec![if b_part_is_sass { ("part.sass".into(), sass) } else { ("part.scss".into(), scss) }];
            case
        });
        let css_vs_scss = (choices(120), any::<bool>()).prop_map(|(ch, compressed)| {
            let mut c = Chooser::new(&ch);
            let css = gen_css(&mut c);
            let n = css.matches("{\n").count();
            mk("css-vs-scss", css.clone(), Syntax::Css, css, Syntax::Scss, "same", compressed, n, "")
        });
        let sass_only = (choices(80), any::<u16>(), any::<u16>()).prop_map(|(ch, k, pos)| {
            let mut c = Chooser::new(&ch);
            let css = gen_css(&mut c);
            let (name, snip) = SASS_ONLY[idx(k, SASS_ONLY.len())];
            // insert the snippet between two top-level statements
            let cuts: Vec<usize> = std::iter::once(0)
                .chain(css.match_indices("}\n").map(|(i, _)| i + 2).filter(|i| css[..*i].matches('{').count() == css[..*i].matches('}').count()))
                .collect();
            let at = cuts[idx(pos, cuts.len())];
            // @charset / @import must stay first: never insert before them
            let at = if css[at..].starts_with("@charset") || css[at..].starts_with("@import") { css.len() } else { at };
            let b = format!("{}{}{}", &css[..at], snip, &css[at..]);
            mk("sass-only-rejected-in-css", css, Syntax::Css, b, Syntax::Css, "b-fails", false, 5, name)
        });
        let rewrites = (src(tier), any::<u8>(), choices(200), any::<bool>()).prop_map(|(s, kind, ch, compressed)| {
            let (a, class) = realize(&s);
            let mut c = Chooser::new(&ch);
            match kind % 9 {
                0 => {
                    let (b, n) = rewrite::newlines(&a, "\r\n");
                    mk("newline-crlf", a, Syntax::Scss, b, Syntax::Scss, "same", compressed, n, class)
                }
                1 => {
                    let (b, n) = rewrite::newlines(&a, "\r");
                    mk("newline-cr", a, Syntax::Scss, b, Syntax::Scss, "same", compressed, n, class)
                }
                2 => {
                    let (b, n) = rewrite::newlines(&a, "\u{c}");
                    mk("newline-ff", a, Syntax::Scss, b, Syntax::Scss, "same", compressed, n, class)
                }
                3 => {
                    let b = format!("\u{feff}{}", a);
                    mk("leading-bom", a, Syntax::Scss, b, Syntax::Scss, "same", compressed, 5, class)
                }
                4 => {
                    let b = format!("@charset \"UTF-8\";\n{}", a);
                    mk("leading-charset", a, Syntax::Scss, b, Syntax::Scss, "same", compressed, 5, class)
                }
                5 => {
                    let (b, n) = rewrite::gaps(&a, &mut c);
                    mk("gaps", a, Syntax::Scss, b, Syntax::Scss, "same", compressed, n, class)
                }
                6 | 7 => {
                    let (b, n) = rewrite::value_gaps(&a, &mut c);
                    mk("value-gaps", a, Syntax::Scss, b, Syntax::Scss, "same", compressed, n, class)
                }
                _ => {
                    let (b, n) = rewrite::swap_names(&a, &mut c);
                    mk("underscore-hyphen", a, Syntax::Scss, b, Syntax::Scss, "same", compressed, n, class)
                }
            }
        });
        let s = prop_oneof![3 => two_printers, 2 => two_printers_prog, 3 => twins, 2 => css_vs_scss, 1 => sass_only, 6 => rewrites].boxed();
        Some((s, tier.pick(48_000, 600_000)))
    }
    fn enumerate(&self, _tier: Tier) -> Vec<Case> {
        // every Sass-only construct once, in a fixed small sheet
        SASS_ONLY
            .iter()
            .map(|(name, snip)| {
                let css = "a {\n  b: c;\n}\n".to_string();
                mk("sass-only-rejected-in-css", css.clone(), Syntax::Css, format!("{}{}", css, snip), Syntax::Css, "b-fails", false, 5, name)
            })
            .collect()
    }
    fn check(&self, case: &Case, cx: &mut Ctx) -> Verdict {
        cx.class(&format!("rel:{}", case.rel));
        // domain exclusions (see assumptions)
        match case.rel.as_str() {
            "gaps" | "value-gaps" if rewrite::has_multiline_loud_comment(&case.a) => {
                cx.excluded("multi-line loud comment: re-indentation depends on its column");
                return Verdict::Discard;
            }
            "gaps" | "value-gaps" if case.a.contains("--") => {
                cx.class("discard:custom-property-raw-value");
                return Verdict::Discard;
            }
            "newline-crlf" | "newline-cr" | "newline-ff" if case.a.contains('\r') || case.a.contains('\u{c}') => {
                cx.class("discard:source-already-has-cr/ff");
                return Verdict::Discard;
            }
            "leading-bom" if case.a.starts_with('\u{feff}') => {
                cx.class("discard:already-has-bom");
                return Verdict::Discard;
            }
            "leading-charset" if case.a.trim_start().starts_with("@charset") || case.a.starts_with('\u{feff}') => {
                cx.class("discard:already-has-charset");
                return Verdict::Discard;
            }
            _ => {}
        }
        if case.a == case.b && case.a_syntax == case.b_syntax && case.expect == "same" {
            cx.class("identity (rewrite touched nothing)");
        }
        let mut sa = Single::scss(case.a.clone());
        sa.syntax = Some(case.a_syntax);
        let mut sb = Single::scss(case.b.clone());
        sb.syntax = Some(case.b_syntax);
        for (n, t) in &case.a_files {
            sa.files.push((n.clone(), Bytes::Text(t.clone())));
        }
        for (n, t) in &case.b_files {
            sb.files.push((n.clone(), Bytes::Text(t.clone())));
        }
        if case.compressed {
            sa.style = Style::Compressed;
            sb.style = Style::Compressed;
        }
        let ra = cx.compile(&sa);
        let rb = cx.compile(&sb);
        if ra.outcome.is_abnormal() || rb.outcome.is_abnormal() {
            cx.inconclusive("abnormal (C01's subject)");
            return Verdict::Discard;
        }
        let nt = (case.weight >= 5 || (case.rel == "scss-vs-sass" && case.weight >= 3) || (case.rel == "css-vs-scss" && case.weight >= 3)) && !(case.a == case.b && case.a_syntax == case.b_syntax);
        if nt {
            cx.nontrivial(&(&case.rel, &case.a, &case.b));
            cx.sample_nontrivial(|| json!({"rel": case.rel, "a": case.a, "b": case.b, "note": case.note, "a_outcome": ra.outcome.short()}));
        } else {
            cx.sample(|| json!({"rel": case.rel, "a": case.a, "b": case.b}));
        }
        if case.rel == "underscore-hyphen" {
            if let Outcome::Css(x) = &ra.outcome {
                if x.contains('$') {
                    // `$name` passed through verbatim (e.g. in an unknown at-rule prelude) is text, not a variable
                    cx.class("discard:dollar-text-passed-through");
                    return Verdict::Discard;
                }
            }
        }
        if case.expect == "b-fails" {
            return match (&ra.outcome, &rb.outcome) {
                (Outcome::Css(_), Outcome::Error(_)) => Verdict::Pass,
                (Outcome::Css(_), Outcome::Css(out)) => Verdict::Fail(Failure::new(
                    format!("sass-only-accepted-in-css:{}", case.note),
                    format!("plain-CSS mode accepted the Sass-only construct `{}`", case.note),
                    json!({"input": case.b, "output": out}),
                )),
                _ => {
                    cx.class("discard:base-css-sheet-fails");
                    Verdict::Discard
                }
            };
        }
        match (&ra.outcome, &rb.outcome) {
            (Outcome::Css(x), Outcome::Css(y)) => {
                cx.class("both-ok");
                let same = if case.rel == "css-vs-scss" {
                    use crate::oracle::canon::{canon_sheet, diff, CanonOpts, Comments};
                    diff(&canon_sheet(x, CanonOpts::FULL, Comments::All), &canon_sheet(y, CanonOpts::FULL, Comments::All)).is_none()
                } else {
                    x == y
                };
                let msgs = |r: &Res| r.logs.iter().map(|l| (l.kind.clone(), l.message.clone())).collect::<Vec<_>>();
                if same && case.rel == "scss-vs-sass-program" && msgs(&ra) != msgs(&rb) {
                    return Verdict::Fail(Failure::new(
                        "scss-vs-sass-program:logs-differ",
                        "the SCSS and the indented spelling of one program deliver different @debug/@warn messages",
                        json!({"a_logs": msgs(&ra), "b_logs": msgs(&rb)}),
                    ));
                }
                if same {
                    Verdict::Pass
                } else {
                    Verdict::Fail(Failure::new(
                        format!("{}:css-differs", case.rel),
                        format!("{}: the two spellings compile to different CSS", case.rel),
                        json!({"a_css": x, "b_css": y}),
                    ))
                }
            }
            (Outcome::Error(_), Outcome::Error(_)) => {
                cx.class("both-fail");
                Verdict::Pass
            }
            (x, y) => Verdict::Fail(Failure::new(
                format!("{}:one-fails", case.rel),
                format!("{}: one spelling compiles, the other fails", case.rel),
                json!({"a": x.short(), "b": y.short()}),
            )),
        }
    }
}

//! C09 — `==` is an equivalence consistent with `!=`, map keys and `index()`; maps keep
//! first-insertion order everywhere.
//!
//! Three kinds of cases:
//! * `Laws`   – a universe of value expressions; all ordered pairs are evaluated with `==` and `!=`
//!              (a few compiles), the laws are decided offline on the boolean matrix; `index()` probes
//!              and (optionally) two-key map literals are judged against the same matrix;
//! * `Dup`    – two-key map literals `(x: 1, y: 2)` must be rejected iff `x == y`;
//! * `MapSeq` – a sequence of map operations over a small key pool, run against the association-list
//!              model (`oracle::assoc`) whose key equality is the `==` matrix observed for the pool in
//!              the same compilation.

use crate::engine::*;
use crate::gen::c09vals::*;
use crate::oracle::assoc::{Assoc, MVal, Model};
use crate::oracle::css::rows;
use proptest::prelude::*;
use serde::{Deserialize, Serialize};
use serde_json::json;
use std::collections::HashMap;
use std::sync::OnceLock;

pub struct C09;

/// Known finding C09/arglist-list-asymmetry (DESIGN §4 #10): `(a, b) == $arglist` is false while
/// `$arglist == (a, b)` is true. While this is `true`, pairs that put a plain list against an
/// argument list at corresponding positions are kept out of the symmetry/transitivity/index checks
/// and out of map key pools (counted as excluded). Set to `false` once the defect is repaired.
pub const MASK_ARGLIST_VS_LIST: bool = false;

/// Known finding C09/cross-unit-fuzzy (DESIGN §4 #18): numbers with different convertible units that
/// are neither safely equal nor safely different (see `cross_unit_window`) are removed from universes
/// and key pools (counted).
pub const EXCLUDE_CROSS_UNIT_WINDOW: bool = true;

/// the constants above, switchable for triage without a rebuild (`VP_C09_NOMASK=1` = no exclusions)
fn mask_arglist() -> bool {
    static T: OnceLock<bool> = OnceLock::new();
    MASK_ARGLIST_VS_LIST && !*T.get_or_init(|| std::env::var("VP_C09_NOMASK").is_ok())
}
fn exclude_window() -> bool {
    static T: OnceLock<bool> = OnceLock::new();
    EXCLUDE_CROSS_UNIT_WINDOW && !*T.get_or_init(|| std::env::var("VP_C09_NOMASK").is_ok())
}

#[derive(Clone, Debug, Serialize, Deserialize)]
pub enum Val {
    /// a fresh unquoted identifier `v<n>` (numbered in order of appearance)
    Atom,
    /// nested map built by successive single-entry merges
    Map(Vec<(u16, Val)>),
}

#[derive(Clone, Debug, Serialize, Deserialize)]
pub enum Step {
    Set { path: Vec<u16>, val: Val },
    Merge { entries: Vec<(u16, Val)> },
    DeepMerge { entries: Vec<(u16, Val)> },
    Remove { keys: Vec<u16> },
    Get { path: Vec<u16> },
    HasKey { path: Vec<u16> },
}

#[derive(Clone, Debug, Serialize, Deserialize)]
pub enum Case {
    Laws {
        values: Vec<V>,
        /// `index((list...), probe)`; selectors are mapped onto the universe with `idx`
        #[serde(default)]
        index: Vec<(Vec<u16>, u16)>,
        /// also check two-key map literals for all ordered pairs
        #[serde(default)]
        dup: bool,
        /// probe = no known-finding exclusions (used by known_findings.json repros)
        #[serde(default)]
        probe: bool,
    },
    Dup {
        pairs: Vec<(V, V)>,
        #[serde(default)]
        probe: bool,
    },
    MapSeq {
        keys: Vec<V>,
        steps: Vec<Step>,
        #[serde(default)]
        probe: bool,
    },
}

// ---------------------------------------------------------------------------------------------
// helpers

fn known_signatures() -> &'static Vec<String> {
    static T: OnceLock<Vec<String>> = OnceLock::new();
    T.get_or_init(|| {
        load_known("C09")
            .into_iter()
            .filter(|e| e.status == "known")
            .map(|e| e.signature)
            .collect()
    })
}

/// several failures in one case: report an unknown one first so that a known finding cannot mask it
fn pick_failure(mut fs: Vec<Failure>) -> Verdict {
    if fs.is_empty() {
        return Verdict::Pass;
    }
    let pos = fs
        .iter()
        .position(|f| !known_signatures().iter().any(|k| sig_matches(k, &f.signature)))
        .unwrap_or(0);
    Verdict::Fail(fs.swap_remove(pos))
}

fn push_once(fs: &mut Vec<Failure>, f: Failure) {
    if !fs.iter().any(|g| g.signature == f.signature) {
        fs.push(f);
    }
}

/// the `<kinds>` part of a signature
fn kinds(vs: &[&V]) -> String {
    let mut rel = Rel::default();
    for a in vs {
        for b in vs {
            let r = relate(a, b);
            rel.arglist_vs_list |= r.arglist_vs_list;
            rel.window |= r.window;
        }
    }
    if rel.arglist_vs_list {
        return "arglist+list".to_string();
    }
    if rel.window {
        return "num-cross-unit-near".to_string();
    }
    let mut t: Vec<&str> = vs.iter().map(|v| v.tag()).collect();
    t.sort();
    t.dedup();
    t.join("+")
}

fn exprs(vs: &[&V]) -> Vec<String> {
    vs.iter().map(|v| v.expr()).collect()
}

fn defs(prefix: &str, vs: &[V]) -> String {
    let mut s = String::new();
    for (i, v) in vs.iter().enumerate() {
        s.push_str(&format!("${}{}: {};\n", prefix, i, v.expr()));
    }
    s
}

enum Got {
    Rows(HashMap<String, String>),
    Stop(Verdict),
}

/// a loaded machine can starve the worker: one retry before a case is given up as inconclusive
fn compile_retry(cx: &mut Ctx, s: &Single) -> Res {
    let res = cx.compile(s);
    if matches!(res.outcome, Outcome::Timeout | Outcome::NotRun | Outcome::Crash { .. }) {
        return cx.compile(s);
    }
    res
}

/// compile and return `prop -> value`; abnormal outcomes are inconclusive, an error is a failure
fn compile_rows(cx: &mut Ctx, src: String, what: &str) -> Got {
    let res = compile_retry(cx, &Single::scss(src.clone()));
    match res.outcome {
        Outcome::Css(css) => {
            let mut m = HashMap::new();
            for r in rows(&css) {
                m.insert(r.prop, r.value);
            }
            Got::Rows(m)
        }
        Outcome::Error(e) => Got::Stop(Verdict::Fail(Failure::new(
            "C09/unexpected-error",
            format!("{}: a stylesheet that is valid by construction was rejected: {}", what, e.message),
            json!({"error": e.display, "source": src}),
        ))),
        o => {
            cx.inconclusive(&format!("{}:{}", what, o.short().split_whitespace().next().unwrap_or("")));
            Got::Stop(Verdict::Discard)
        }
    }
}

fn parse_bool(s: Option<&String>) -> Option<bool> {
    match s.map(|x| x.as_str()) {
        Some("true") => Some(true),
        Some("false") => Some(false),
        _ => None,
    }
}

fn harness_fail(what: &str, details: serde_json::Value) -> Verdict {
    Verdict::Fail(Failure::new("C09/harness:missing-row", what.to_string(), details))
}

/// Remove the later element of every pair that lies in a known-finding region.
/// `also_arglist`: additionally keep list-vs-arglist pairs out (map key pools).
fn exclude_regions(values: &[V], also_arglist: bool, cx: &mut Ctx) -> Vec<V> {
    let mut kept: Vec<V> = vec![];
    for v in values {
        let mut drop = None;
        for k in &kept {
            let r = relate(k, v);
            if exclude_window() && r.window {
                drop = Some("cross-unit fuzzy window (known finding C09/cross-unit-fuzzy)");
                break;
            }
            if also_arglist && mask_arglist() && r.arglist_vs_list {
                drop = Some("map key pool with a list and an argument list (known finding C09/arglist-list-asymmetry)");
                break;
            }
        }
        match drop {
            Some(why) => cx.excluded(why),
            None => kept.push(v.clone()),
        }
    }
    kept
}

struct Matrix {
    n: usize,
    eq: Vec<Vec<bool>>,
    ne: Vec<Vec<bool>>,
}

/// `a { e-i-j: $p<i> == $p<j>; n-i-j: $p<i> != $p<j>; }` for rows lo..hi
fn matrix_rows_src(prefix: &str, n: usize, lo: usize, hi: usize) -> String {
    let mut s = String::from("a {\n");
    for i in lo..hi {
        for j in 0..n {
            s.push_str(&format!(
                "e-{i}-{j}: ${p}{i} == ${p}{j}; n-{i}-{j}: ${p}{i} != ${p}{j};\n",
                i = i,
                j = j,
                p = prefix
            ));
        }
    }
    s.push_str("}\n");
    s
}

fn read_matrix(m: &HashMap<String, String>, n: usize, lo: usize, hi: usize, mx: &mut Matrix) -> Result<(), String> {
    for i in lo..hi {
        for j in 0..n {
            let e = parse_bool(m.get(&format!("e-{}-{}", i, j)));
            let ne = parse_bool(m.get(&format!("n-{}-{}", i, j)));
            match (e, ne) {
                (Some(e), Some(ne)) => {
                    mx.eq[i][j] = e;
                    mx.ne[i][j] = ne;
                }
                _ => return Err(format!("e-{}-{} / n-{}-{}", i, j, i, j)),
            }
        }
    }
    Ok(())
}

/// The algebraic laws on an observed matrix. Returns the failures (one per signature) and the number
/// of pair / triple judgements made.
fn judge_laws(values: &[V], mx: &Matrix, masked: &dyn Fn(usize, usize) -> bool, fs: &mut Vec<Failure>) -> u64 {
    let n = mx.n;
    let mut judged = 0u64;
    let mini = |idx: &[usize]| -> serde_json::Value {
        let vs: Vec<V> = idx.iter().map(|i| values[*i].clone()).collect();
        serde_json::to_value(Case::Laws { values: vs, index: vec![], dup: false, probe: true }).unwrap_or(json!(null))
    };
    // != is the negation of ==
    for i in 0..n {
        for j in 0..n {
            judged += 1;
            if mx.ne[i][j] == mx.eq[i][j] {
                push_once(
                    fs,
                    Failure::new(
                        format!("C09/{}:negation", kinds(&[&values[i], &values[j]])),
                        format!(
                            "`{a} == {b}` is {e} and `{a} != {b}` is {n}",
                            a = values[i].expr(),
                            b = values[j].expr(),
                            e = mx.eq[i][j],
                            n = mx.ne[i][j]
                        ),
                        json!({"a": values[i].expr(), "b": values[j].expr(), "eq": mx.eq[i][j], "ne": mx.ne[i][j], "minimal_case": mini(&[i, j])}),
                    ),
                );
            }
        }
    }
    // reflexive (NaN excluded)
    for i in 0..n {
        if values[i].contains_nan() {
            continue;
        }
        judged += 1;
        if !mx.eq[i][i] {
            push_once(
                fs,
                Failure::new(
                    format!("C09/{}:reflexivity", kinds(&[&values[i]])),
                    format!("`{a} == {a}` is false", a = values[i].expr()),
                    json!({"a": values[i].expr(), "minimal_case": mini(&[i])}),
                ),
            );
        }
    }
    // symmetric
    for i in 0..n {
        for j in (i + 1)..n {
            if masked(i, j) {
                continue;
            }
            judged += 1;
            if mx.eq[i][j] != mx.eq[j][i] {
                push_once(
                    fs,
                    Failure::new(
                        format!("C09/{}:symmetry", kinds(&[&values[i], &values[j]])),
                        format!(
                            "`{a} == {b}` is {x} but `{b} == {a}` is {y}",
                            a = values[i].expr(),
                            b = values[j].expr(),
                            x = mx.eq[i][j],
                            y = mx.eq[j][i]
                        ),
                        json!({"a": values[i].expr(), "b": values[j].expr(), "a==b": mx.eq[i][j], "b==a": mx.eq[j][i], "minimal_case": mini(&[i, j])}),
                    ),
                );
            }
        }
    }
    // transitive over all triples
    let any_mask: Vec<Vec<bool>> = (0..n).map(|i| (0..n).map(|j| masked(i, j)).collect()).collect();
    for i in 0..n {
        for j in 0..n {
            if any_mask[i][j] {
                continue;
            }
            for k in 0..n {
                if any_mask[j][k] || any_mask[i][k] {
                    continue;
                }
                judged += 1;
                if mx.eq[i][j] && mx.eq[j][k] && !mx.eq[i][k] {
                    push_once(
                        fs,
                        Failure::new(
                            format!("C09/{}:transitivity", kinds(&[&values[i], &values[j], &values[k]])),
                            format!(
                                "`{a} == {b}` and `{b} == {c}` but `{a} == {c}` is false",
                                a = values[i].expr(),
                                b = values[j].expr(),
                                c = values[k].expr()
                            ),
                            json!({"a": values[i].expr(), "b": values[j].expr(), "c": values[k].expr(), "minimal_case": mini(&[i, j, k])}),
                        ),
                    );
                }
            }
        }
    }
    judged
}

// ---------------------------------------------------------------------------------------------
// two-key map literals

const DUP_MSG: &str = "Duplicate key";

/// `pairs[k] = (x, y, x == y, y == x)`. Returns judged count.
fn judge_dup_literals(cx: &mut Ctx, pairs: &[(V, V, bool, bool)], fs: &mut Vec<Failure>) -> Result<u64, Verdict> {
    let mut judged = 0;
    let mut ok_pairs: Vec<&(V, V, bool, bool)> = vec![];
    let mut err_pairs: Vec<&(V, V, bool, bool)> = vec![];
    for p in pairs {
        if p.2 != p.3 {
            cx.class("dup-literal:skipped-asymmetric-pair");
            continue;
        }
        if p.2 {
            err_pairs.push(p);
        } else {
            ok_pairs.push(p);
        }
    }
    fn one_src(p: &(V, V, bool, bool)) -> String {
        format!(
            "{}$x: {};\n$y: {};\na {{ d: length(($x: 1, $y: 2)); }}\n",
            PRELUDE,
            p.0.expr(),
            p.1.expr()
        )
    }
    // expected errors: one compile each, sent as jobs of up to 40 steps
    for chunk in err_pairs.chunks(40) {
        let job = Job {
            steps: chunk.iter().map(|p| Single::scss(one_src(p))).collect(),
            storm: vec![],
        };
        let res = cx.run_job(&job);
        for (p, r) in chunk.iter().zip(res.iter()) {
            match &r.outcome {
                Outcome::Error(e) if e.message.contains(DUP_MSG) => {
                    judged += 1;
                    cx.class("dup-literal:rejected-as-required");
                }
                Outcome::Error(e) => {
                    push_once(
                        fs,
                        Failure::new(
                            "C09/unexpected-error",
                            format!("map literal with keys {} and {}: unexpected error {}", p.0.expr(), p.1.expr(), e.message),
                            json!({"error": e.display}),
                        ),
                    );
                }
                Outcome::Css(css) => {
                    judged += 1;
                    push_once(
                        fs,
                        Failure::new(
                            format!("C09/{}:map-literal-accepts-equal-keys", kinds(&[&p.0, &p.1])),
                            format!(
                                "`{a} == {b}` is true but the map literal `({a}: 1, {b}: 2)` is accepted",
                                a = p.0.expr(),
                                b = p.1.expr()
                            ),
                            json!({"a": p.0.expr(), "b": p.1.expr(), "css": css,
                                   "minimal_case": serde_json::to_value(Case::Dup{pairs: vec![(p.0.clone(), p.1.clone())], probe: true}).unwrap_or(json!(null))}),
                        ),
                    );
                }
                _ => {
                    cx.inconclusive("dup-literal");
                    return Err(Verdict::Discard);
                }
            }
        }
    }
    // expected successes: batched, bisected when a batch is rejected
    fn batch(cx: &mut Ctx, ps: &[&(V, V, bool, bool)], fs: &mut Vec<Failure>, judged: &mut u64) -> Result<(), Verdict> {
        if ps.is_empty() {
            return Ok(());
        }
        let mut src = format!("{}{}", PRELUDE, HELPERS);
        for (k, p) in ps.iter().enumerate() {
            src.push_str(&format!("$x{}: {};\n$y{}: {};\n", k, p.0.expr(), k, p.1.expr()));
        }
        src.push_str("a {\n");
        for k in 0..ps.len() {
            // two entries, in source order
            src.push_str(&format!(
                "d-{k}: length(($x{k}: 1, $y{k}: 2)); o-{k}: enckl(map-keys(($x{k}: 1, $y{k}: 2))) == enckl(($x{k}, $y{k}));\n",
                k = k
            ));
        }
        src.push_str("}\n");
        let res = compile_retry(cx, &Single::scss(src));
        match &res.outcome {
            Outcome::Css(css) => {
                let mut m = HashMap::new();
                for r in rows(css) {
                    m.insert(r.prop, r.value);
                }
                for (k, p) in ps.iter().enumerate() {
                    *judged += 1;
                    if m.get(&format!("o-{}", k)).map(|s| s.as_str()) != Some("true") && m.get(&format!("d-{}", k)).map(|s| s.as_str()) == Some("2") {
                        push_once(
                            fs,
                            Failure::new(
                                format!("C09/{}:map-literal-order", kinds(&[&p.0, &p.1])),
                                format!("map-keys(({a}: 1, {b}: 2)) is not ({a}, {b}) in this order", a = p.0.expr(), b = p.1.expr()),
                                json!({"a": p.0.expr(), "b": p.1.expr()}),
                            ),
                        );
                    }
                    if m.get(&format!("d-{}", k)).map(|s| s.as_str()) != Some("2") {
                        push_once(
                            fs,
                            Failure::new(
                                format!("C09/{}:map-literal-merges-unequal-keys", kinds(&[&p.0, &p.1])),
                                format!("`{a} == {b}` is false but `({a}: 1, {b}: 2)` does not have two entries", a = p.0.expr(), b = p.1.expr()),
                                json!({"a": p.0.expr(), "b": p.1.expr(), "length": m.get(&format!("d-{}", k))}),
                            ),
                        );
                    }
                }
                cx.class_n("dup-literal:accepted-as-required", ps.len() as u64);
                Ok(())
            }
            Outcome::Error(e) => {
                if ps.len() == 1 {
                    let p = ps[0];
                    *judged += 1;
                    if e.message.contains(DUP_MSG) {
                        push_once(
                            fs,
                            Failure::new(
                                format!("C09/{}:map-literal-rejects-unequal-keys", kinds(&[&p.0, &p.1])),
                                format!("`{a} == {b}` is false but the map literal `({a}: 1, {b}: 2)` is rejected as a duplicate key", a = p.0.expr(), b = p.1.expr()),
                                json!({"a": p.0.expr(), "b": p.1.expr(), "error": e.display,
                                       "minimal_case": serde_json::to_value(Case::Dup{pairs: vec![(p.0.clone(), p.1.clone())], probe: true}).unwrap_or(json!(null))}),
                            ),
                        );
                    } else {
                        push_once(
                            fs,
                            Failure::new(
                                "C09/unexpected-error",
                                format!("map literal with keys {} and {}: unexpected error {}", p.0.expr(), p.1.expr(), e.message),
                                json!({"error": e.display}),
                            ),
                        );
                    }
                    Ok(())
                } else {
                    let (l, r) = ps.split_at(ps.len() / 2);
                    batch(cx, l, fs, judged)?;
                    batch(cx, r, fs, judged)
                }
            }
            _ => {
                cx.inconclusive("dup-literal-batch");
                Err(Verdict::Discard)
            }
        }
    }
    for chunk in ok_pairs.chunks(250) {
        batch(cx, chunk, fs, &mut judged)?;
    }
    Ok(judged)
}

// ---------------------------------------------------------------------------------------------
// Laws

fn check_laws(values: &[V], index: &[(Vec<u16>, u16)], dup: bool, probe: bool, cx: &mut Ctx) -> Verdict {
    let values: Vec<V> = if probe { values.to_vec() } else { exclude_regions(values, false, cx) };
    let n = values.len();
    if n == 0 {
        return Verdict::Discard;
    }
    cx.class(if probe { "laws:probe" } else { "laws:universe" });
    // mask
    let mut mask = vec![vec![false; n]; n];
    if !probe && mask_arglist() {
        for i in 0..n {
            for j in (i + 1)..n {
                if relate(&values[i], &values[j]).arglist_vs_list {
                    mask[i][j] = true;
                    mask[j][i] = true;
                    cx.excluded("pair list vs argument list masked (known finding C09/arglist-list-asymmetry)");
                }
            }
        }
    }
    // matrix, a few compiles
    let head = format!("{}{}", PRELUDE, defs("u", &values));
    let mut mx = Matrix { n, eq: vec![vec![false; n]; n], ne: vec![vec![false; n]; n] };
    let rows_per = (1000 / n).max(1);
    let mut lo = 0;
    while lo < n {
        let hi = (lo + rows_per).min(n);
        let src = format!("{}{}", head, matrix_rows_src("u", n, lo, hi));
        let m = match compile_rows(cx, src, "matrix") {
            Got::Rows(m) => m,
            Got::Stop(v) => return v,
        };
        if let Err(which) = read_matrix(&m, n, lo, hi, &mut mx) {
            return harness_fail("a matrix cell is missing from the output", json!({"cell": which}));
        }
        lo = hi;
    }
    let mut fs: Vec<Failure> = vec![];
    let masked = |i: usize, j: usize| mask[i][j];
    let mut judged = judge_laws(&values, &mx, &masked, &mut fs);

    if !fs.is_empty() {
        // the matrix is not an equivalence: the keyed checks below have no defined expectation
        // (and shrinking should not pay for them)
        cx.add_evaluations(judged.saturating_sub(1));
        return pick_failure(fs);
    }

    // evidence only (no verdict): does == on table atoms follow the documentation-derived families?
    for i in 0..n {
        for j in (i + 1)..n {
            if let (V::Atom { e: a, .. }, V::Atom { e: b, .. }) = (&values[i], &values[j]) {
                if let (Some(fa), Some(fb)) = (family_of(a), family_of(b)) {
                    match (fa == fb, mx.eq[i][j]) {
                        (true, true) => cx.class("atoms:same-family:=="),
                        (false, false) => cx.class("atoms:cross-family:!="),
                        (true, false) => cx.class(&format!("atoms:same-family:!=  {} vs {}", a, b)),
                        (false, true) => cx.class(&format!("atoms:cross-family:==  {} vs {}", a, b)),
                    }
                }
            }
        }
    }

    // evidence: which == pairs are textually different; triples with two such pairs
    let mut eq_pairs = 0u64;
    for i in 0..n {
        for j in 0..n {
            if i != j && mx.eq[i][j] {
                eq_pairs += 1;
                cx.nontrivial(&("pair", values[i].expr(), values[j].expr()));
                if i < j {
                    let mut t = [values[i].tag(), values[j].tag()];
                    t.sort();
                    cx.class(&format!("eq-pair:{}~{}", t[0], t[1]));
                }
                for k in 0..n {
                    if k != j && k != i && mx.eq[j][k] {
                        cx.nontrivial(&("triple", values[i].expr(), values[j].expr(), values[k].expr()));
                    }
                }
            }
        }
    }
    cx.class_n("laws:pairs==-textually-different", eq_pairs);
    cx.class_n("laws:pairs-total", (n * n) as u64);
    if eq_pairs > 0 {
        cx.sample_nontrivial(|| {
            let mut ex = vec![];
            'o: for i in 0..n {
                for j in 0..n {
                    if i != j && mx.eq[i][j] {
                        ex.push(format!("{} == {}", values[i].expr(), values[j].expr()));
                        if ex.len() >= 6 {
                            break 'o;
                        }
                        break;
                    }
                }
            }
            json!({"kind": "Laws", "universe_size": n, "equal_but_textually_different_pairs": eq_pairs, "examples": ex})
        });
    }

    // index()
    if !index.is_empty() {
        let mut src = head.clone();
        src.push_str("a {\n");
        let mut plan = vec![];
        for (k, (sel, probe_sel)) in index.iter().enumerate() {
            let l: Vec<usize> = sel.iter().map(|s| idx(*s, n)).collect();
            if l.len() < 2 {
                continue;
            }
            let p = idx(*probe_sel, n);
            let items: Vec<String> = l.iter().map(|i| format!("$u{}", i)).collect();
            // alternate comma / space lists and the global / module spelling of the function
            let f = if k % 4 < 2 { "index" } else { "list.index" };
            src.push_str(&format!("x-{}: inspect({}(({}), $u{}));\n", k, f, items.join(if k % 2 == 0 { ", " } else { " " }), p));
            plan.push((k, l, p));
        }
        src.push_str("}\n");
        if !plan.is_empty() {
            let m = match compile_rows(cx, src, "index") {
                Got::Rows(m) => m,
                Got::Stop(v) => return v,
            };
            for (k, l, p) in plan {
                // only the elements up to and including the first match decide the answer
                let first = l.iter().position(|&e| mask[e][p] || mx.eq[e][p] || mx.eq[p][e]);
                if let Some(w) = first {
                    if mask[l[w]][p] || mx.eq[l[w]][p] != mx.eq[p][l[w]] {
                        cx.class("index:skipped-masked-or-asymmetric");
                        continue;
                    }
                }
                let want = first;
                let want_s = match want {
                    Some(w) => (w + 1).to_string(),
                    None => "null".to_string(),
                };
                let got = m.get(&format!("x-{}", k)).cloned().unwrap_or_default();
                judged += 1;
                match want {
                    Some(w) if l[w] != p => cx.class("index:found-respelled"),
                    Some(_) => cx.class("index:found-same"),
                    None => cx.class("index:absent"),
                }
                if got != want_s {
                    let involved = want.map(|w| l[w]).or_else(|| got.parse::<usize>().ok().and_then(|g| l.get(g.wrapping_sub(1)).copied()));
                    let mut ks = vec![&values[p]];
                    if let Some(e) = involved {
                        ks.push(&values[e]);
                    }
                    let lst: Vec<String> = l.iter().map(|i| values[*i].expr()).collect();
                    push_once(
                        &mut fs,
                        Failure::new(
                            format!("C09/{}:index", kinds(&ks)),
                            format!("index(({}), {}) = {} but by `==` the first equal element is {}", lst.join(", "), values[p].expr(), got, want_s),
                            json!({"list": lst, "probe": values[p].expr(), "observed": got, "expected": want_s}),
                        ),
                    );
                }
            }
        }
    }

    if !fs.is_empty() {
        cx.add_evaluations(judged.saturating_sub(1));
        return pick_failure(fs);
    }

    // two-key literals
    if dup {
        let mut pairs = vec![];
        for i in 0..n {
            for j in 0..n {
                if mask[i][j] {
                    continue;
                }
                pairs.push((values[i].clone(), values[j].clone(), mx.eq[i][j], mx.eq[j][i]));
            }
        }
        match judge_dup_literals(cx, &pairs, &mut fs) {
            Ok(k) => judged += k,
            Err(v) => return v,
        }
    }
    cx.add_evaluations(judged.saturating_sub(1));
    if fs.is_empty() {
        cx.sample(|| json!({"kind": "Laws", "universe_size": n, "first": exprs(&values.iter().take(8).collect::<Vec<_>>())}));
    }
    pick_failure(fs)
}

fn check_dup(pairs: &[(V, V)], probe: bool, cx: &mut Ctx) -> Verdict {
    cx.class("dup:case");
    let mut ps: Vec<&(V, V)> = vec![];
    for p in pairs {
        let r = relate(&p.0, &p.1);
        if !probe && ((mask_arglist() && r.arglist_vs_list) || (exclude_window() && r.window)) {
            cx.excluded("map literal over a pair in a known-finding region");
            continue;
        }
        ps.push(p);
    }
    if ps.is_empty() {
        return Verdict::Discard;
    }
    // == in both directions for every pair
    let mut fs = vec![];
    let mut with_eq: Vec<(V, V, bool, bool)> = vec![];
    for chunk in ps.chunks(500) {
        let mut src = String::from(PRELUDE);
        for (k, p) in chunk.iter().enumerate() {
            src.push_str(&format!("$x{}: {};\n$y{}: {};\n", k, p.0.expr(), k, p.1.expr()));
        }
        src.push_str("a {\n");
        for k in 0..chunk.len() {
            src.push_str(&format!("f-{k}: $x{k} == $y{k}; b-{k}: $y{k} == $x{k};\n", k = k));
        }
        src.push_str("}\n");
        let m = match compile_rows(cx, src, "dup-eq") {
            Got::Rows(m) => m,
            Got::Stop(v) => return v,
        };
        for (k, p) in chunk.iter().enumerate() {
            match (parse_bool(m.get(&format!("f-{}", k))), parse_bool(m.get(&format!("b-{}", k)))) {
                (Some(f), Some(b)) => {
                    if f && p.0.expr() != p.1.expr() {
                        cx.nontrivial(&("dup", p.0.expr(), p.1.expr()));
                    }
                    with_eq.push((p.0.clone(), p.1.clone(), f, b))
                }
                _ => return harness_fail("an == row is missing", json!({"k": k})),
            }
        }
    }
    let judged = match judge_dup_literals(cx, &with_eq, &mut fs) {
        Ok(k) => k,
        Err(v) => return v,
    };
    cx.add_evaluations(judged.saturating_sub(1));
    pick_failure(fs)
}

// ---------------------------------------------------------------------------------------------
// MapSeq

const HELPERS: &str = "@function enc($m) { $s: \"\"; @each $k, $v in $m { $s: $s + \"<\" + inspect($k) + \"~\" + encv($v) + \">\"; } @return $s; }\n\
@function encv($v) { @if type-of($v) == map { @return \"^\" + enc($v) + \"|\"; } @return inspect($v); }\n\
@function enckl($l) { $s: \"\"; @each $x in $l { $s: $s + \"<\" + inspect($x) + \">\"; } @return $s; }\n\
@function encvl($l) { $s: \"\"; @each $x in $l { $s: $s + \"<\" + encv($x) + \">\"; } @return $s; }\n";

#[derive(Clone, Debug, PartialEq)]
enum Dv {
    Text(String),
    Map(Vec<(String, Dv)>),
}

/// decode `<key~val><key~^<k~v>|>`
fn decode_enc(s: &str) -> Option<Vec<(String, Dv)>> {
    fn entries(c: &[char], i: &mut usize) -> Option<Vec<(String, Dv)>> {
        let mut out = vec![];
        while *i < c.len() && c[*i] == '<' {
            *i += 1;
            let mut key = String::new();
            while *i < c.len() && c[*i] != '~' {
                if "<>^|".contains(c[*i]) {
                    return None;
                }
                key.push(c[*i]);
                *i += 1;
            }
            if *i >= c.len() {
                return None;
            }
            *i += 1; // ~
            let val = if *i < c.len() && c[*i] == '^' {
                *i += 1;
                let inner = entries(c, i)?;
                if *i >= c.len() || c[*i] != '|' {
                    return None;
                }
                *i += 1;
                Dv::Map(inner)
            } else {
                let mut t = String::new();
                while *i < c.len() && c[*i] != '>' {
                    if "<~^|".contains(c[*i]) {
                        return None;
                    }
                    t.push(c[*i]);
                    *i += 1;
                }
                Dv::Text(t)
            };
            if *i >= c.len() || c[*i] != '>' {
                return None;
            }
            *i += 1;
            out.push((key.trim().to_string(), match val {
                Dv::Text(t) => Dv::Text(t.trim().to_string()),
                m => m,
            }));
        }
        Some(out)
    }
    let c: Vec<char> = s.chars().collect();
    let mut i = 0;
    let out = entries(&c, &mut i)?;
    if i == c.len() {
        Some(out)
    } else {
        None
    }
}

fn dv_enc(d: &Dv) -> String {
    match d {
        Dv::Text(t) => t.clone(),
        Dv::Map(es) => {
            let mut s = String::from("^");
            for (k, v) in es {
                s.push_str(&format!("<{}~{}>", k, dv_enc(v)));
            }
            s.push('|');
            s
        }
    }
}

fn dv_inspect(es: &[(String, Dv)]) -> String {
    let parts: Vec<String> = es
        .iter()
        .map(|(k, v)| {
            format!(
                "{}: {}",
                k,
                match v {
                    Dv::Text(t) => t.clone(),
                    Dv::Map(m) => dv_inspect(m),
                }
            )
        })
        .collect();
    format!("({})", parts.join(", "))
}

/// order and content, not parenthesisation or spacing
fn loose(s: &str) -> String {
    s.chars().filter(|c| !"() \t\n".contains(*c)).collect()
}

fn strip_eq(s: Option<&String>) -> Option<String> {
    let s = s?;
    let t = s.trim();
    t.strip_prefix('=').map(|x| x.trim().to_string())
}

/// does the decoded map agree with the model (order, admissible key spellings, values)?
fn match_tree(dec: &[(String, Dv)], model: &Assoc, labels: &[String], spelling: &mut Vec<&'static str>) -> Result<(), String> {
    if dec.len() != model.len() {
        return Err(format!("{} entries observed, {} expected", dec.len(), model.len()));
    }
    for (p, ((k, v), e)) in dec.iter().zip(model.iter()).enumerate() {
        let admissible: Vec<&String> = e.cands.iter().map(|c| &labels[*c]).collect();
        if !admissible.iter().any(|l| *l == k) {
            return Err(format!("entry {}: key {} observed, expected one of {:?}", p, k, admissible));
        }
        if admissible.iter().any(|l| *l != admissible[0]) {
            spelling.push(if k == admissible[0] { "overwrite-keeps-first-spelling" } else { "overwrite-takes-later-spelling" });
        }
        match (v, &e.val) {
            (Dv::Text(t), MVal::Atom(a)) => {
                if t != a {
                    return Err(format!("entry {} ({}): value {} observed, {} expected", p, k, t, a));
                }
            }
            (Dv::Map(d), MVal::Map(m)) => match_tree(d, m, labels, spelling).map_err(|e| format!("entry {} ({}) > {}", p, k, e))?,
            (Dv::Text(t), MVal::Map(m)) if m.is_empty() && t == "()" => {}
            (o, w) => return Err(format!("entry {} ({}): value {:?} observed, {:?} expected", p, k, o, w)),
        }
    }
    Ok(())
}

fn model_render(a: &Assoc, labels: &[String]) -> String {
    let parts: Vec<String> = a
        .iter()
        .map(|e| {
            let ks: Vec<&str> = e.cands.iter().map(|c| labels[*c].as_str()).collect();
            format!(
                "{}: {}",
                ks.join("|"),
                match &e.val {
                    MVal::Atom(t) => t.clone(),
                    MVal::Map(m) => model_render(m, labels),
                }
            )
        })
        .collect();
    format!("({})", parts.join(", "))
}

struct Renderer {
    n: usize,
    counter: usize,
}

impl Renderer {
    fn k(&self, sel: u16) -> usize {
        idx(sel, self.n)
    }
    /// Sass expression and model value
    fn val(&mut self, v: &Val, model: &mut Model) -> (String, MVal) {
        match v {
            Val::Atom => {
                let t = format!("v{}", self.counter);
                self.counter += 1;
                (t.clone(), MVal::Atom(t))
            }
            Val::Map(es) => {
                let (e, m) = self.map(es, model);
                (e, MVal::Map(m))
            }
        }
    }
    /// map built by successive single-entry merges (a literal could contain equal keys)
    fn map(&mut self, es: &[(u16, Val)], model: &mut Model) -> (String, Assoc) {
        let mut expr = String::new();
        let mut a: Assoc = vec![];
        for (i, (ks, v)) in es.iter().enumerate() {
            let k = self.k(*ks);
            let (ve, mv) = self.val(v, model);
            let single = format!("($k{}: {})", k, ve);
            expr = if i == 0 { single } else { format!("map-merge({}, {})", expr, single) };
            model.set(&mut a, k, mv);
        }
        if es.is_empty() {
            expr = "$E".to_string();
        }
        (expr, a)
    }
}

fn step_name(s: &Step) -> &'static str {
    match s {
        Step::Set { path, .. } if path.len() > 1 => "set-nested",
        Step::Set { .. } => "set",
        Step::Merge { .. } => "merge",
        Step::DeepMerge { .. } => "deep-merge",
        Step::Remove { .. } => "remove",
        Step::Get { path } if path.len() > 1 => "get-nested",
        Step::Get { .. } => "get",
        Step::HasKey { path } if path.len() > 1 => "has-key-nested",
        Step::HasKey { .. } => "has-key",
    }
}

fn step_keys(s: &Step, n: usize) -> Vec<usize> {
    fn val_keys(v: &Val, n: usize, out: &mut Vec<usize>) {
        if let Val::Map(es) = v {
            for (k, v) in es {
                out.push(idx(*k, n));
                val_keys(v, n, out);
            }
        }
    }
    let mut out = vec![];
    match s {
        Step::Set { path, val } => {
            out.extend(path.iter().map(|k| idx(*k, n)));
            val_keys(val, n, &mut out);
        }
        Step::Merge { entries } | Step::DeepMerge { entries } => {
            for (k, v) in entries {
                out.push(idx(*k, n));
                val_keys(v, n, &mut out);
            }
        }
        Step::Remove { keys } => out.extend(keys.iter().map(|k| idx(*k, n))),
        Step::Get { path } | Step::HasKey { path } => out.extend(path.iter().map(|k| idx(*k, n))),
    }
    out
}

fn check_mapseq(keys: &[V], steps: &[Step], probe: bool, cx: &mut Ctx) -> Verdict {
    let keys: Vec<V> = if probe { keys.to_vec() } else { exclude_regions(keys, true, cx) };
    let n = keys.len();
    if n == 0 || steps.is_empty() {
        return Verdict::Discard;
    }
    if steps.iter().any(|s| match s {
        Step::Set { path, .. } | Step::Get { path } | Step::HasKey { path } => path.is_empty(),
        Step::Remove { keys } => keys.is_empty(),
        _ => false,
    }) {
        return Verdict::Discard;
    }
    cx.class("mapseq:case");
    // ---- render; the model runs in lock step but needs the matrix, so record a script first ----
    let mut src = format!("{}{}{}", PRELUDE, HELPERS, defs("k", &keys));
    src.push_str("a {\n");
    for i in 0..n {
        src.push_str(&format!("l-{i}: unquote(\"=\" + inspect($k{i}));\n", i = i));
    }
    src.push_str("}\n");
    src.push_str(&matrix_rows_src("k", n, 0, n));
    src.push_str("$m: $E;\n");
    // render with a throw-away model (only the expression text is used here)
    {
        let never = |_: usize, _: usize| false;
        let mut dummy = Model::new(&never);
        let mut r = Renderer { n, counter: 0 };
        for (si, s) in steps.iter().enumerate() {
            let path_args = |p: &Vec<u16>| -> String { p.iter().map(|k| format!("$k{}", idx(*k, n))).collect::<Vec<_>>().join(", ") };
            let mut mutating = true;
            match s {
                Step::Set { path, val } => {
                    let (ve, _) = r.val(val, &mut dummy);
                    src.push_str(&format!("$m: map.set($m, {}, {});\n", path_args(path), ve));
                }
                Step::Merge { entries } => {
                    let (me, _) = r.map(entries, &mut dummy);
                    let f = if si % 2 == 0 { "map-merge" } else { "map.merge" };
                    src.push_str(&format!("$m: {}($m, {});\n", f, me));
                }
                Step::DeepMerge { entries } => {
                    let (me, _) = r.map(entries, &mut dummy);
                    src.push_str(&format!("$m: map.deep-merge($m, {});\n", me));
                }
                Step::Remove { keys } => {
                    let f = if si % 2 == 0 { "map-remove" } else { "map.remove" };
                    src.push_str(&format!("$m: {}($m, {});\n", f, path_args(keys)));
                }
                Step::Get { path } => {
                    mutating = false;
                    let f = if si % 2 == 0 { "map-get" } else { "map.get" };
                    src.push_str(&format!("a {{ s{}-r: unquote(\"=\" + encv({}($m, {}))); }}\n", si, f, path_args(path)));
                }
                Step::HasKey { path } => {
                    mutating = false;
                    let f = if si % 2 == 0 { "map-has-key" } else { "map.has-key" };
                    src.push_str(&format!("a {{ s{}-r: unquote(\"=\" + inspect({}($m, {}))); }}\n", si, f, path_args(path)));
                }
            }
            if mutating {
                src.push_str(&format!(
                    "a {{ s{i}-e: unquote(\"=\" + enc($m)); s{i}-i: unquote(\"=\" + inspect($m)); s{i}-k: unquote(\"=\" + enckl(map-keys($m))); s{i}-v: unquote(\"=\" + encvl(map-values($m))); }}\n",
                    i = si
                ));
            }
        }
    }
    let m = match compile_rows(cx, src.clone(), "mapseq") {
        Got::Rows(m) => m,
        Got::Stop(v) => return v,
    };
    // ---- labels and matrix ----
    let mut labels = vec![];
    for i in 0..n {
        match strip_eq(m.get(&format!("l-{}", i))) {
            Some(l) => {
                if l.chars().any(|c| "<>~^|".contains(c)) {
                    cx.class("mapseq:label-with-delimiter");
                    return Verdict::Discard;
                }
                labels.push(l)
            }
            None => return harness_fail("a label row is missing", json!({"i": i, "source": src})),
        }
    }
    let mut mx = Matrix { n, eq: vec![vec![false; n]; n], ne: vec![vec![false; n]; n] };
    if let Err(which) = read_matrix(&m, n, 0, n, &mut mx) {
        return harness_fail("a matrix cell is missing from the output", json!({"cell": which}));
    }
    let mut fs = vec![];
    let no_mask = |_: usize, _: usize| false;
    let mut judged = judge_laws(&keys, &mx, &no_mask, &mut fs);
    if !fs.is_empty() {
        // the key equality of this pool is not an equivalence: the model is not defined
        return pick_failure(fs);
    }
    // ---- model in lock step ----
    let eqf = |i: usize, j: usize| mx.eq[i][j];
    let mut model = Model::new(&eqf);
    let mut state: Assoc = vec![];
    let mut r = Renderer { n, counter: 0 };
    let mut spelling: Vec<&'static str> = vec![];
    let fail = |si: usize, s: &Step, what: String, state_before: &Assoc, labels: &[String], extra: serde_json::Value| -> Failure {
        let ks: Vec<&V> = step_keys(s, n).into_iter().map(|k| &keys[k]).collect();
        Failure::new(
            format!("C09/{}:map-{}", kinds(&ks), step_name(s)),
            format!("step {} ({}): {}", si, step_name(s), what),
            json!({"step": si, "op": step_name(s), "keys": exprs(&ks), "map_before": model_render(state_before, labels), "observed_vs_expected": extra, "source": src}),
        )
    };
    for (si, s) in steps.iter().enumerate() {
        let before = state.clone();
        let respelled_before = model.hits.respelled;
        let mut mutating = true;
        let mut read_expect: Option<Option<MVal>> = None;
        let mut has_expect: Option<bool> = None;
        match s {
            Step::Set { path, val } => {
                let (_, mv) = r.val(val, &mut model);
                let p: Vec<usize> = path.iter().map(|k| r.k(*k)).collect();
                model.set_path(&mut state, &p, mv);
            }
            Step::Merge { entries } => {
                let (_, b) = r.map(entries, &mut model);
                model.merge(&mut state, b);
            }
            Step::DeepMerge { entries } => {
                let (_, b) = r.map(entries, &mut model);
                model.deep_merge(&mut state, b);
            }
            Step::Remove { keys: ks } => {
                let p: Vec<usize> = ks.iter().map(|k| r.k(*k)).collect();
                model.remove(&mut state, &p);
            }
            Step::Get { path } => {
                mutating = false;
                let p: Vec<usize> = path.iter().map(|k| r.k(*k)).collect();
                read_expect = Some(model.get_path(&state, &p));
            }
            Step::HasKey { path } => {
                mutating = false;
                let p: Vec<usize> = path.iter().map(|k| r.k(*k)).collect();
                has_expect = Some(model.has_path(&state, &p));
            }
        }
        judged += 1;
        cx.class(&format!("step:{}", step_name(s)));
        if model.hits.respelled > respelled_before {
            cx.class(&format!("step-hits-respelled-key:{}", step_name(s)));
        }
        if mutating {
            let e = match strip_eq(m.get(&format!("s{}-e", si))) {
                Some(e) => e,
                None => return harness_fail("a step row is missing", json!({"step": si, "source": src})),
            };
            let dec = match decode_enc(&e) {
                Some(d) => d,
                None => return harness_fail("cannot decode the @each encoding", json!({"step": si, "text": e})),
            };
            if let Err(why) = match_tree(&dec, &state, &labels, &mut spelling) {
                return Verdict::Fail(fail(si, s, format!("@each over the map: {}", why), &before, &labels, json!({"observed": e, "expected": model_render(&state, &labels)})));
            }
            // inspect: same order and content
            let ins = strip_eq(m.get(&format!("s{}-i", si))).unwrap_or_default();
            let want_ins = dv_inspect(&dec);
            if loose(&ins) != loose(&want_ins) {
                return Verdict::Fail(fail(si, s, "inspect() disagrees with @each order/content".into(), &before, &labels, json!({"observed": ins, "expected": want_ins})));
            }
            // map-keys / map-values: same order
            let ks = strip_eq(m.get(&format!("s{}-k", si))).unwrap_or_default();
            let want_ks: String = dec.iter().map(|(k, _)| format!("<{}>", k)).collect();
            if loose(&ks) != loose(&want_ks) {
                return Verdict::Fail(fail(si, s, "map-keys() disagrees with @each order".into(), &before, &labels, json!({"observed": ks, "expected": want_ks})));
            }
            let vs = strip_eq(m.get(&format!("s{}-v", si))).unwrap_or_default();
            let want_vs: String = dec.iter().map(|(_, v)| format!("<{}>", dv_enc(v))).collect();
            if loose(&vs) != loose(&want_vs) {
                return Verdict::Fail(fail(si, s, "map-values() disagrees with @each order".into(), &before, &labels, json!({"observed": vs, "expected": want_vs})));
            }
        } else {
            let got = match strip_eq(m.get(&format!("s{}-r", si))) {
                Some(g) => g,
                None => return harness_fail("a step row is missing", json!({"step": si, "source": src})),
            };
            if let Some(h) = has_expect {
                if got != h.to_string() {
                    return Verdict::Fail(fail(si, s, format!("has-key = {}, but by `==` on the keys it is {}", got, h), &before, &labels, json!({"observed": got, "expected": h})));
                }
            }
            if let Some(exp) = read_expect {
                let ok = match &exp {
                    None => got == "null",
                    Some(MVal::Atom(t)) => &got == t,
                    Some(MVal::Map(mm)) => match got.strip_prefix('^').and_then(|x| x.strip_suffix('|')).and_then(decode_enc) {
                        Some(d) => match_tree(&d, mm, &labels, &mut spelling).is_ok(),
                        None => mm.is_empty() && got == "()",
                    },
                };
                if !ok {
                    let want = match &exp {
                        None => "null".to_string(),
                        Some(MVal::Atom(t)) => t.clone(),
                        Some(MVal::Map(mm)) => model_render(mm, &labels),
                    };
                    return Verdict::Fail(fail(si, s, format!("map-get = {}, but by `==` on the keys it is {}", got, want), &before, &labels, json!({"observed": got, "expected": want})));
                }
            }
        }
    }
    for sp in spelling {
        cx.class(sp);
    }
    cx.add_evaluations(judged.saturating_sub(1));
    let h = &model.hits;
    cx.class_n("lookup:same-key", h.same);
    cx.class_n("lookup:respelled-key", h.respelled);
    cx.class_n("lookup:miss", h.miss);
    if h.respelled > 0 {
        let key = (exprs(&keys.iter().collect::<Vec<_>>()), serde_json::to_string(steps).unwrap_or_default());
        cx.nontrivial(&key);
        cx.sample_nontrivial(|| json!({"kind": "MapSeq", "keys": exprs(&keys.iter().collect::<Vec<_>>()), "steps": steps, "final_map": model_render(&state, &labels), "lookups_through_respelled_key": h.respelled}));
    } else {
        cx.sample(|| json!({"kind": "MapSeq", "keys": exprs(&keys.iter().collect::<Vec<_>>()), "steps": steps.len()}));
    }
    Verdict::Pass
}

// ---------------------------------------------------------------------------------------------
// strategies

fn val_strategy() -> BoxedStrategy<Val> {
    let leaf = Just(Val::Atom);
    leaf.prop_recursive(2, 6, 3, |inner| proptest::collection::vec((any::<u16>(), inner), 1..3).prop_map(Val::Map))
        .boxed()
}

fn val_mostly_atom() -> BoxedStrategy<Val> {
    prop_oneof![3 => Just(Val::Atom), 2 => val_strategy()].boxed()
}

fn path() -> BoxedStrategy<Vec<u16>> {
    prop_oneof![
        3 => any::<u16>().prop_map(|k| vec![k]),
        1 => (any::<u16>(), any::<u16>()).prop_map(|(a, b)| vec![a, b]),
    ]
    .boxed()
}

fn step_strategy() -> BoxedStrategy<Step> {
    prop_oneof![
        3 => (path(), val_mostly_atom()).prop_map(|(path, val)| Step::Set { path, val }),
        3 => proptest::collection::vec((any::<u16>(), val_mostly_atom()), 1..4).prop_map(|entries| Step::Merge { entries }),
        2 => proptest::collection::vec((any::<u16>(), val_strategy()), 1..4).prop_map(|entries| Step::DeepMerge { entries }),
        3 => proptest::collection::vec(any::<u16>(), 1..3).prop_map(|keys| Step::Remove { keys }),
        2 => path().prop_map(|path| Step::Get { path }),
        1 => path().prop_map(|path| Step::HasKey { path }),
    ]
    .boxed()
}

/// key pool drawn from the fixed universe's intended groups: 2..3 groups x 1..3 members (+ a stray)
fn fixed_pool() -> BoxedStrategy<Vec<V>> {
    proptest::collection::vec((any::<u16>(), proptest::collection::vec(any::<u16>(), 1..4)), 2..4)
        .prop_map(|gs| {
            let groups = fixed_key_groups();
            let mut out: Vec<V> = vec![];
            for (g, ms) in gs {
                let grp = &groups[idx(g, groups.len())];
                for m in ms {
                    let v = grp[idx(m, grp.len())].clone();
                    if !out.iter().any(|o| o.expr() == v.expr()) {
                        out.push(v);
                    }
                }
            }
            out
        })
        .boxed()
}

fn mapseq_strategy(tier: Tier) -> BoxedStrategy<Case> {
    let pool = match tier {
        Tier::Quick => prop_oneof![4 => fixed_pool(), 1 => key_pool().boxed()].boxed(),
        Tier::Thorough => prop_oneof![1 => fixed_pool(), 1 => key_pool().boxed()].boxed(),
    };
    (pool, proptest::collection::vec(step_strategy(), 1..=12))
        .prop_map(|(keys, steps)| Case::MapSeq { keys, steps, probe: false })
        .boxed()
}

fn random_laws() -> BoxedStrategy<Case> {
    (
        universe(),
        proptest::collection::vec((proptest::collection::vec(any::<u16>(), 2..6), any::<u16>()), 20..40),
    )
        .prop_map(|(values, index)| Case::Laws { values, index, dup: true, probe: false })
        .boxed()
}

fn fixed_index_probes(n: usize) -> Vec<(Vec<u16>, u16)> {
    // deterministic: lists of 2..6 elements; the probe is a neighbour (same family in table order)
    // of one of the elements in half of the cases
    let mut r = Lcg(0x5eed_c09);
    let sel = |i: usize| -> u16 { (((i as u64) << 16) / n as u64 + 1).min(65535) as u16 };
    let mut out = vec![];
    for _ in 0..600 {
        let len = 2 + r.next(5);
        let l: Vec<usize> = (0..len).map(|_| r.next(n)).collect();
        let p = if r.coin() {
            let base = l[r.next(l.len())];
            (base + r.next(3) + n - 1) % n
        } else {
            r.next(n)
        };
        out.push((l.into_iter().map(sel).collect(), sel(p)));
    }
    out
}

impl Prop for C09 {
    type Case = Case;
    fn id(&self) -> &'static str {
        "C09"
    }
    fn rule(&self) -> String {
        "Laws: a universe of value expressions (fixed U = every spelling of every atom family + structured lists/maps/arglists; random universes = seed values + respellings + near misses from the same constructors); all ordered pairs evaluated with == and != in the compiler, laws (negation, reflexive w/o NaN, symmetric, transitive over all triples), index() probes and two-key map literals judged offline against that matrix. MapSeq: <= 12 map operations (set/merge/deep-merge/remove/get/has-key, nested paths) over a pool of 2..9 keys, against an association-list model keyed by the pool's observed == matrix; @each, inspect, map-keys, map-values compared after every mutating step. evaluations = pair + triple + index + literal + step judgements. Non-trivial = a pair that is == but textually different, a triple containing two such pairs, a map-literal pair that is == but textually different, or a map sequence in which a lookup/write hits an existing key through an equal but differently spelled key; distinct by expression texts / by (pool, steps).".into()
    }
    fn assumptions(&self) -> Vec<String> {
        vec![
            "inspect() of a single key (its spelling) is taken from the compiler and only used as a label; which spelling of an overwritten key a map shows is not asserted (either is accepted, the choice is recorded in the class histogram)".into(),
            "parenthesisation and spacing of inspect(map) are not asserted, only order and content".into(),
            "cross-unit number pairs that are neither safely equal (< 5e-13 apart in both units, away from 1e-11 bucket edges) nor safely different (>= 1e-9 apart in both units) are excluded (known finding C09/cross-unit-fuzzy, counted)".into(),
            format!("MASK_ARGLIST_VS_LIST = {}: list-vs-arglist pairs are masked from symmetry/transitivity/index/literal checks and key pools (known finding C09/arglist-list-asymmetry, counted)", MASK_ARGLIST_VS_LIST),
        ]
    }
    fn strategy(&self, tier: Tier) -> Option<(BoxedStrategy<Case>, u32)> {
        let (w_seq, w_laws, total) = match tier {
            Tier::Quick => (100u32, 1u32, 6_060u32),
            Tier::Thorough => (250, 1, 50_200),
        };
        let s = prop_oneof![
            w_seq => mapseq_strategy(tier),
            w_laws => random_laws(),
        ]
        .boxed();
        Some((s, total))
    }
    fn enumerate(&self, _tier: Tier) -> Vec<Case> {
        let u = fixed_universe();
        let n = u.len();
        let mut out = vec![Case::Laws { values: u.clone(), index: fixed_index_probes(n), dup: false, probe: false }];
        // two-key literals over the whole fixed universe, one case per row
        for i in 0..n {
            let pairs: Vec<(V, V)> = (0..n).map(|j| (u[i].clone(), u[j].clone())).collect();
            out.push(Case::Dup { pairs, probe: false });
        }
        out
    }
    fn check(&self, case: &Case, cx: &mut Ctx) -> Verdict {
        match case {
            Case::Laws { values, index, dup, probe } => check_laws(values, index, *dup, *probe, cx),
            Case::Dup { pairs, probe } => check_dup(pairs, *probe, cx),
            Case::MapSeq { keys, steps, probe } => check_mapseq(keys, steps, *probe, cx),
        }
    }
    fn extra_evidence(&self, _stats: &Stats) -> serde_json::Value {
        json!({
            "fixed_universe_size": fixed_universe().len(),
            "mask_arglist_vs_list": MASK_ARGLIST_VS_LIST,
            "exclude_cross_unit_window": EXCLUDE_CROSS_UNIT_WINDOW,
        })
    }
}

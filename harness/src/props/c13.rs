//! C13 — imports follow the documented search order, only via the supplied Fs.

use crate::engine::*;
use crate::gen::fstree::{self, Case, Stmt, VFile};
use crate::oracle::css::{parse_nodes, rows, tokenize, Node, Tok};
use crate::oracle::imports::{self as model, Resolution, Rule, Tree};
use proptest::prelude::*;
use serde_json::json;
use std::collections::{BTreeMap, BTreeSet};
use std::path::PathBuf;

pub struct C13;

/// finding C13/fs-probe-malformed-import-only (#17): `@import "x.scss"` probes `x..importscss`
pub const TOLERATE_MALFORMED_PROBE: bool = false;
/// finding C13/fs-probe-import-only-for-use (#17): `@use "x"` probes `x.import.scss` (harmless while
/// no such file exists; loading it is the separate finding C13/use-loads-import-only)
pub const TOLERATE_USE_IMPORT_ONLY_PROBE: bool = false;

// ------------------------------------------------------------------------------------------------
// texts

fn stmt_text(s: &Stmt) -> String {
    match s.rule {
        Rule::Import => format!("@import \"{}\"", s.url),
        Rule::Use => format!("@use \"{}\" as ns", s.url),
        Rule::Forward => format!("@forward \"{}\"", s.url),
    }
}

fn marker_rule(prefix: char, marker: u32, sass: bool) -> String {
    if sass {
        format!(".{}{}\n  x: y\n", prefix, marker)
    } else {
        format!(".{}{}{{x:y}}\n", prefix, marker)
    }
}

pub fn file_text(f: &VFile) -> String {
    let sass = f.path.ends_with(".sass");
    let css = f.path.ends_with(".css");
    let mut t = String::new();
    if let (Some(n), false) = (&f.nested, css) {
        t.push_str(&stmt_text(n));
        t.push_str(if sass { "\n" } else { ";\n" });
    }
    t.push_str(&marker_rule('m', f.marker, sass));
    t
}

pub fn is_joined(case: &Case) -> bool {
    case.joined
        && matches!(&case.stmt, Some(s) if s.rule == Rule::Import)
        && !case.plain.is_empty()
        // a media query list swallows a following comma (`@import "a" screen, "b"` is a syntax error in
        // Sass): only the last argument of a joined rule may carry media queries
        && !case.plain[..case.plain.len() - 1]
            .iter()
            .any(|p| p.text.contains(" screen") || p.text.contains(" print"))
}

pub fn entry_text(case: &Case) -> String {
    let sass = case.entry.ends_with(".sass");
    let end = if sass { "\n" } else { ";\n" };
    let mut t = String::new();
    if is_joined(case) {
        let mut parts = vec![format!("\"{}\"", case.stmt.as_ref().unwrap().url)];
        parts.extend(case.plain.iter().map(|p| p.text.clone()));
        t.push_str(&format!("@import {}{}", parts.join(", "), end));
    } else {
        if let Some(s) = &case.stmt {
            t.push_str(&stmt_text(s));
            t.push_str(end);
        }
        for p in &case.plain {
            t.push_str(&format!("@import {}{}", p.text, end));
        }
    }
    t.push_str(&marker_rule('m', 0, sass));
    t
}

pub fn build_single(case: &Case) -> Single {
    let mut s = Single::scss("");
    s.entry = Entry::Path(case.entry.clone());
    s.syntax = None;
    s.load_paths = case.load_paths.clone();
    s.files.push((case.entry.clone(), Bytes::Text(entry_text(case))));
    for f in &case.files {
        s.files.push((f.path.clone(), Bytes::Text(file_text(f))));
    }
    s
}

// ------------------------------------------------------------------------------------------------
// decoys on the real disk (worker cwd), removed when the guard is dropped

struct DecoyGuard {
    files: Vec<PathBuf>,
    dirs: Vec<PathBuf>,
}

thread_local! {
    static SKELETON_FOR: std::cell::RefCell<Option<PathBuf>> = std::cell::RefCell::new(None);
}

fn ensure_skeleton(root: &PathBuf) {
    let done = SKELETON_FOR.with(|s| s.borrow().as_ref() == Some(root));
    if done {
        return;
    }
    for d in fstree::skeleton_dirs() {
        let _ = std::fs::create_dir_all(root.join(d));
    }
    SKELETON_FOR.with(|s| *s.borrow_mut() = Some(root.clone()));
}

impl DecoyGuard {
    fn create(root: &PathBuf, case: &Case) -> DecoyGuard {
        let mut g = DecoyGuard {
            files: vec![],
            dirs: vec![],
        };
        if case.decoys.is_empty() {
            return g;
        }
        ensure_skeleton(root);
        for d in &case.decoys {
            let rel = model::normalize(&d.path);
            if rel.is_empty() || rel.starts_with("..") || rel.starts_with('/') {
                continue;
            }
            // never touch the worker's own files
            let top = rel.split('/').next().unwrap_or("");
            if top == "stdout" || top == "stderr" || top == "sock" {
                continue;
            }
            let p = root.join(&rel);
            let text = format!(".d{}{{x:y}}\n", d.marker);
            let mut wrote = write_new(&p, &text);
            if !wrote {
                // a parent directory outside the constant skeleton: create it for this case only
                let mut dir = root.clone();
                let segs: Vec<&str> = rel.split('/').collect();
                for s in &segs[..segs.len() - 1] {
                    dir = dir.join(s);
                    if std::fs::create_dir(&dir).is_ok() {
                        g.dirs.push(dir.clone());
                    }
                }
                wrote = write_new(&p, &text);
            }
            if wrote {
                g.files.push(p);
            }
        }
        g
    }
}

fn write_new(p: &PathBuf, text: &str) -> bool {
    use std::io::Write;
    match std::fs::OpenOptions::new().write(true).create_new(true).open(p) {
        Ok(mut f) => f.write_all(text.as_bytes()).is_ok(),
        Err(_) => false,
    }
}

impl Drop for DecoyGuard {
    fn drop(&mut self) {
        for f in &self.files {
            let _ = std::fs::remove_file(f);
        }
        for d in self.dirs.iter().rev() {
            let _ = std::fs::remove_dir(d);
        }
    }
}

// ------------------------------------------------------------------------------------------------
// expectation

#[derive(Clone, Debug)]
struct Search {
    stmt: Stmt,
    from_file: String,
    res: Resolution,
}

#[derive(Clone, Debug, Default)]
struct Expect {
    /// markers of the files that are loaded (entry = 0)
    markers: BTreeSet<u32>,
    /// normalised paths that must have been read
    reads: Vec<String>,
    /// (file, line) of the load that has no match
    error: Option<(String, usize)>,
    searches: Vec<Search>,
    ambiguous: bool,
}

fn expect(case: &Case) -> Expect {
    let tree = Tree::new(case.files.iter().map(|f| f.path.clone()));
    let by_path: BTreeMap<String, &VFile> = case.files.iter().map(|f| (model::normalize(&f.path), f)).collect();
    let mut e = Expect::default();
    e.markers.insert(0);
    e.reads.push(model::normalize(&case.entry));
    let mut cur: Option<(Stmt, String)> = case.stmt.clone().map(|s| (s, case.entry.clone()));
    let mut depth = 0;
    while let Some((stmt, from)) = cur.take() {
        depth += 1;
        let res = model::resolve(&tree, stmt.rule, &stmt.url, &from, &case.load_paths);
        e.searches.push(Search {
            stmt: stmt.clone(),
            from_file: from.clone(),
            res: res.clone(),
        });
        match res {
            Resolution::Found { path, .. } => {
                let f = by_path[&path];
                e.markers.insert(f.marker);
                e.reads.push(path.clone());
                if let (Some(n), false) = (&f.nested, f.path.ends_with(".css")) {
                    if depth < 4 {
                        cur = Some((n.clone(), path));
                    }
                }
            }
            Resolution::NotFound => {
                e.error = Some((model::normalize(&from), 0));
            }
            Resolution::Ambiguous(_) => {
                e.ambiguous = true;
            }
        }
    }
    // ambiguity anywhere in a performed search (reached or not) is outside the domain
    for s in &e.searches {
        if !model::ambiguities(&tree, &s.stmt.url, &s.from_file, &case.load_paths).is_empty() {
            e.ambiguous = true;
        }
    }
    e
}

fn no_ws(toks: Vec<Tok>) -> Vec<Tok> {
    toks.into_iter().filter(|t| !matches!(t, Tok::Ws)).collect()
}

/// the `@import` statements of the output: tokens after the keyword, whitespace removed
fn import_rules(css: &str) -> Vec<Vec<Tok>> {
    let mut out = vec![];
    for n in parse_nodes(&tokenize(css)) {
        if let Node::AtStmt { prelude } = n {
            let p = no_ws(prelude);
            if let Some(Tok::AtKeyword(k)) = p.first() {
                if k.eq_ignore_ascii_case("import") {
                    out.push(p[1..].to_vec());
                }
            }
        }
    }
    out
}

fn markers_in(css: &str) -> (Vec<u32>, Vec<u32>) {
    let mut m = vec![];
    let mut d = vec![];
    for r in rows(css) {
        let sel = r.selector.trim();
        if let Some(n) = sel.strip_prefix(".m").and_then(|x| x.parse::<u32>().ok()) {
            m.push(n);
        } else if let Some(n) = sel.strip_prefix(".d").and_then(|x| x.parse::<u32>().ok()) {
            d.push(n);
        }
    }
    (m, d)
}

/// the malformed import-only spellings of an explicit-extension URL (`x..importscss`, `_x..importscss`)
fn malformed_probe_set(s: &Search, load_paths: &[String]) -> BTreeSet<String> {
    let mut out = BTreeSet::new();
    if let Some(ext) = model::explicit_ext(&s.stmt.url) {
        for base in model::locations(&s.from_file, load_paths) {
            let p = model::join(&base, &s.stmt.url);
            let dir = model::dirname(&p);
            let name = model::basename(&p);
            let stem = &name[..name.len() - ext.len()];
            let bad = format!("{}..import{}", stem, &ext[1..]);
            out.insert(model::normalize(&model::join(dir, &bad)));
            out.insert(model::normalize(&model::join(dir, &format!("_{}", bad))));
        }
    }
    out
}

fn dotted(s: &Stmt) -> bool {
    model::explicit_ext(&s.url).is_none() && model::basename(&s.url).contains('.')
}

/// Name the kind of a result mismatch: the regions of the confirmed findings get their own
/// signatures (they only occur when the corresponding exclusion is lifted or in a replay).
fn classify(case: &Case, e: &Expect, res: &Res, observed_markers: &[u32], generic: &str) -> String {
    let by_marker: BTreeMap<u32, &VFile> = case.files.iter().map(|f| (f.marker, f)).collect();
    for s in &e.searches {
        if dotted(&s.stmt) {
            return "C13/dotted-basename-extension-replaced".into();
        }
    }
    // an import-only file was read although no @import asked for it
    if e.searches.iter().any(|s| s.stmt.rule != Rule::Import) {
        for c in &res.fs_calls {
            let p = model::normalize(&c.path);
            if c.op == "read" && c.hit && model::basename(&p).contains(".import.") && !e.reads.contains(&p) {
                return "C13/use-loads-import-only".into();
            }
        }
    }
    for s in &e.searches {
        if s.stmt.rule != Rule::Import {
            for m in observed_markers {
                if let Some(f) = by_marker.get(m) {
                    if model::basename(&f.path).contains(".import.") && !e.markers.contains(m) {
                        return "C13/use-loads-import-only".into();
                    }
                }
            }
        }
        if model::explicit_ext(&s.stmt.url).is_some() {
            if let Resolution::Found { path, group } = &s.res {
                if group.loc > 0 {
                    return "C13/explicit-ext-ignores-load-paths".into();
                }
                if s.stmt.rule == Rule::Import && model::basename(path).contains(".import.") {
                    return "C13/explicit-ext-import-only-not-found".into();
                }
            }
        }
    }
    generic.to_string()
}

fn outcome_class(e: &Expect) -> String {
    match e.searches.last() {
        None => "no-load".into(),
        Some(s) => match &s.res {
            Resolution::NotFound => "no-match".into(),
            Resolution::Ambiguous(_) => "ambiguous".into(),
            Resolution::Found { path, group } => {
                let b = model::basename(path);
                format!(
                    "found@{}{}{}{}{}",
                    if group.loc == 0 { "importing-dir".to_string() } else { format!("load-path-{}", group.loc) },
                    if group.index_level { ":index" } else { "" },
                    if b.starts_with('_') { ":partial" } else { "" },
                    if group.import_only { ":import-only" } else { "" },
                    if group.css { ":css" } else if b.ends_with(".sass") { ":sass" } else { ":scss" },
                )
            }
        },
    }
}

/// Scenario family "repeat": the same URL text is loaded several times by importers in different
/// directories. Each load is resolved on its own (relative to ITS importing file first, then the load
/// paths): the markers must come out in statement order, one per load, and an unresolvable load is
/// an error. A result remembered per URL text instead of per resolved file shows here.
fn check_repeat(case: &Case, r: &fstree::Repeat, cx: &mut Ctx) -> Verdict {
    cx.class("scenario:repeat-url");
    let dirs = ["proj", "proj/p1", "proj/p2", "lp"];
    let (sub, name) = match r.url.rfind('/') {
        Some(i) => (&r.url[..i + 1], &r.url[i + 1..]),
        None => ("", &r.url[..]),
    };
    let mut files: Vec<(String, String)> = vec![];
    let mut marker_of: BTreeMap<String, u32> = BTreeMap::new();
    for (i, d) in dirs.iter().enumerate() {
        if r.present[i] & 1 == 1 {
            let p = format!("{}/{}{}{}.scss", d, sub, if r.present[i] & 2 == 2 { "_" } else { "" }, name);
            marker_of.insert(p.clone(), 1 + i as u32);
            files.push((p, marker_rule('m', 1 + i as u32, false)));
        }
    }
    let mut entry = String::new();
    let mut froms: Vec<String> = vec![];
    for (i, d) in r.steps.iter().enumerate() {
        if *d == 0 {
            entry.push_str(&format!("@import \"{}\";\n", r.url));
            froms.push(case.entry.clone());
        } else {
            let go = format!("proj/p{}/go{}.scss", d, i);
            entry.push_str(&format!("@import \"p{}/go{}\";\n", d, i));
            files.push((go.clone(), format!("@import \"{}\";\n", r.url)));
            froms.push(go);
        }
    }
    let tree = Tree::new(files.iter().map(|f| f.0.clone()));
    let mut expected: Vec<u32> = vec![];
    let mut expect_error = false;
    for from in &froms {
        match model::resolve(&tree, Rule::Import, &r.url, from, &case.load_paths) {
            Resolution::Found { path, .. } => expected.push(*marker_of.get(&model::normalize(&path)).unwrap_or(&0)),
            Resolution::NotFound => {
                expect_error = true;
                break;
            }
            Resolution::Ambiguous(_) => return Verdict::Discard,
        }
    }
    let distinct: BTreeSet<u32> = expected.iter().cloned().collect();
    cx.class(&format!("repeat:distinct-targets:{}", distinct.len()));
    let mut s = Single::scss("");
    s.entry = Entry::Path(case.entry.clone());
    s.syntax = None;
    s.load_paths = case.load_paths.clone();
    s.files.push((case.entry.clone(), Bytes::Text(entry.clone())));
    for (p, t) in &files {
        s.files.push((p.clone(), Bytes::Text(t.clone())));
    }
    let res = cx.compile(&s);
    if res.outcome.is_abnormal() {
        cx.inconclusive("abnormal outcome (C01's subject)");
        return Verdict::Discard;
    }
    let details = json!({"entry": case.entry, "entry_text": entry, "load_paths": case.load_paths,
        "files": files.iter().map(|(p, t)| json!({"path": p, "text": t})).collect::<Vec<_>>(),
        "expected_markers_in_order": expected, "expect_error": expect_error, "outcome": res.outcome.short()});
    if distinct.len() >= 2 && !expect_error {
        cx.nontrivial(case);
        cx.sample_nontrivial(|| details.clone());
    }
    match &res.outcome {
        Outcome::Css(css) => {
            if expect_error {
                return Verdict::Fail(Failure::new("C13/repeat:unresolvable-load-accepted", "a load with no candidate file compiled (an earlier load of the same URL text resolved elsewhere)", details));
            }
            let (m, _) = markers_in(css);
            if m != expected {
                return Verdict::Fail(Failure::new("C13/repeat:wrong-file-for-repeated-url", format!("markers {:?}, expected {:?}: each load is resolved relative to its own importing file", m, expected), details));
            }
            Verdict::Pass
        }
        Outcome::Error(_) => {
            if expect_error {
                Verdict::Pass
            } else {
                Verdict::Fail(Failure::new("C13/repeat:unexpected-error", "every load has a candidate file, yet the compilation failed", details))
            }
        }
        _ => Verdict::Discard,
    }
}

impl Prop for C13 {
    type Case = Case;
    fn id(&self) -> &'static str {
        "C13"
    }
    fn rule(&self) -> String {
        "case = virtual tree on the in-memory Fs: entry file (proj/src | proj | cwd | proj/src/app; .scss or .sass) with one load (@import 50% / @use 33% / @forward 17%; URL = [sub/ | ../ | ../sub/ | ./ | sub/../] + basename (x, _x, dotted foo.bar / x.y.z) + [.scss | .sass | .css]), 0-3 plain-CSS imports (url(), http(s)://, //, *.css, media/supports modifiers; optionally joined into the same @import rule), 0-2 load paths (incl. aliases such as `.`, `proj/lib/../lib2`, the importing directory); per location each of the 8 priority groups (import-only sass|scss, import-only css, sass|scss, css, and the same four for name/index; files and _partials) is populated with probability 0..10/16 by ONE file, so layouts are unambiguous by construction (re-checked by the model, aliasing included); near-miss files that are candidates of no search (extension-replaced stem, index.scss in the location itself, name.scss.bak, name.scss/index.scss, name/other.scss, ...); in 40% of the cases every .scss/.sass candidate starts with a second load (y, sub/y, ../y, y.scss) whose candidates sit next to that file, next to the entry (trap) and in the load paths; 0-3 decoy files that exist only on the REAL disk in the worker's cwd at candidate paths (also shadowing virtual files). Every file carries a unique marker rule. Non-trivial = the load (or the nested load) has >= 2 existing candidate files of different priority or location, so precedence decides; distinct = distinct cases.".into()
    }
    fn assumptions(&self) -> Vec<String> {
        vec![
            "priority groups as in dart-sass 1.54: for @import `name.import.css` ranks above `name.scss` (the property text only says the import-only variants are preferred)".into(),
            "the candidate set of a search is taken over all locations (probing a later location after a match is not flagged); the location directories and the `name` directory may be tested with is_dir".into(),
            "marker comparison is by set (which files were loaded), the order of the emitted rules is not part of this property".into(),
            "known-finding regions are removed by construction while the EXCLUDE_* / TOLERATE_* switches in gen/fstree.rs and props/c13.rs are set; the exclusions that changed a case are counted in excluded_known".into(),
        ]
    }
    fn strategy(&self, tier: Tier) -> Option<(BoxedStrategy<Case>, u32)> {
        Some((prop_oneof![23 => fstree::strategy(), 2 => fstree::repeat_strategy()].boxed(), tier.pick(30_000, 400_000)))
    }
    fn check(&self, case: &Case, cx: &mut Ctx) -> Verdict {
        if let Some(r) = &case.repeat {
            return check_repeat(case, r, cx);
        }
        let e = expect(case);
        if e.ambiguous {
            cx.class("discard:ambiguous-layout");
            return Verdict::Discard;
        }
        for why in &case.excluded {
            cx.excluded(why);
        }
        let single = build_single(case);
        let res = {
            let _guard = DecoyGuard::create(cx.worker.scratch_dir(), case);
            cx.compile(&single)
        };
        if res.outcome.is_abnormal() {
            cx.inconclusive("abnormal outcome (C01's subject)");
            return Verdict::Discard;
        }

        // ---- evidence: what was generated ----
        let tree = Tree::new(case.files.iter().map(|f| f.path.clone()));
        let oc = outcome_class(&e);
        cx.class(&format!("expect:{}", oc));
        match &case.stmt {
            Some(s) => {
                cx.class(&format!("rule:{:?}", s.rule));
                cx.class(&format!(
                    "url:{}{}{}",
                    if s.url.contains("../") { "dotdot+" } else if s.url.contains('/') { "subdir+" } else { "" },
                    if dotted(s) || model::basename(&s.url).matches('.').count() > 1 { "dotted+" } else { "" },
                    match model::explicit_ext(&s.url) {
                        Some(x) => format!("explicit{}", x),
                        None => "bare".into(),
                    }
                ));
            }
            None => cx.class("rule:none(plain only)"),
        }
        if let Some(s) = e.searches.first() {
            if model::explicit_ext(&s.stmt.url).is_some() {
                cx.class(&format!("explicit-ext:{}", match &s.res {
                    Resolution::Found { group, .. } if group.import_only => "found import-only",
                    Resolution::Found { path, .. } if model::basename(path).starts_with('_') => "found partial",
                    Resolution::Found { .. } => "found literal",
                    _ => "no-match",
                }));
            }
        }
        cx.class(&format!("load-paths:{}", case.load_paths.len()));
        cx.class(&format!("plain-imports:{}", case.plain.len()));
        if is_joined(case) {
            cx.class("joined-import-rule");
        }
        cx.class(&format!("decoys:{}", case.decoys.len()));
        if case.decoys.iter().any(|d| tree.is_file(&d.path)) {
            cx.class("decoy-shadows-virtual-file");
        }
        cx.class(&format!("entry:{}", if case.entry.ends_with(".sass") { "sass" } else { "scss" }));
        if case.files.iter().any(|f| f.fam == 2) {
            cx.class("has-near-miss");
        }
        if e.searches.len() >= 2 {
            cx.class("nested-load-performed");
            let s = &e.searches[1];
            cx.class(&format!("nested:{:?}:{}", s.stmt.rule, match &s.res {
                Resolution::Found { group, .. } => if group.loc == 0 { "found-next-to-importing-file" } else { "found-in-load-path" },
                _ => "no-match",
            }));
        }
        let mut nontrivial = false;
        for s in &e.searches {
            let n = model::existing_candidates(&tree, s.stmt.rule, &s.stmt.url, &s.from_file, &case.load_paths).len();
            if n >= 2 {
                nontrivial = true;
            }
        }
        let sample = || {
            json!({
                "entry": case.entry, "entry_text": entry_text(case), "load_paths": case.load_paths,
                "files": case.files.iter().map(|f| json!({"path": f.path, "text": file_text(f)})).collect::<Vec<_>>(),
                "decoys": case.decoys.iter().map(|d| d.path.clone()).collect::<Vec<_>>(),
                "expected": oc,
                "expected_markers": e.markers,
                "outcome": res.outcome.short(),
            })
        };
        if nontrivial {
            cx.class("nontrivial");
            cx.nontrivial(case);
            cx.sample_nontrivial(sample);
        } else {
            cx.sample(sample);
        }

        let details = |extra: serde_json::Value| {
            json!({
                "entry_text": entry_text(case),
                "files": case.files.iter().map(|f| json!({"path": f.path, "marker": f.marker, "text": file_text(f)})).collect::<Vec<_>>(),
                "load_paths": case.load_paths,
                "expected": {"outcome": oc, "markers": e.markers, "error_at": e.error},
                "observed": res.outcome.short(),
                "fs_calls": res.fs_calls.iter().map(|c| format!("{} {} {}", c.op, c.path, c.hit)).collect::<Vec<_>>(),
                "extra": extra,
            })
        };

        // ---- 1. result: which files were loaded / error at the import site ----
        if let Outcome::Css(css) = &res.outcome {
            let (_, ds) = markers_in(css);
            if !ds.is_empty() {
                return Verdict::Fail(Failure::new(
                    "C13/decoy-loaded",
                    format!("the marker of a file that exists only on the real disk appears in the output: .d{}", ds[0]),
                    details(json!({"decoy_markers": ds})),
                ));
            }
        }
        match (&res.outcome, &e.error) {
            (Outcome::Css(css), None) => {
                let (ms, _) = markers_in(css);
                let got: BTreeSet<u32> = ms.iter().cloned().collect();
                if got != e.markers {
                    let sig = classify(case, &e, &res, &ms, "C13/wrong-file");
                    return Verdict::Fail(Failure::new(
                        sig,
                        format!("loaded files differ: expected markers {:?}, output has {:?}", e.markers, got),
                        details(json!({"observed_markers": ms})),
                    ));
                }
                // ---- 2. plain-CSS imports are emitted as @import rules ----
                let mut emitted = import_rules(css);
                for p in &case.plain {
                    let want = no_ws(tokenize(&p.text));
                    match emitted.iter().position(|r| *r == want) {
                        Some(i) => {
                            emitted.remove(i);
                        }
                        None => {
                            return Verdict::Fail(Failure::new(
                                "C13/plain-import-not-emitted",
                                format!("plain-CSS import `@import {}` is not in the output", p.text),
                                details(json!({"import_rules": import_rules(css).iter().map(|r| crate::oracle::css::render(r)).collect::<Vec<_>>() })),
                            ));
                        }
                    }
                }
                if !emitted.is_empty() {
                    return Verdict::Fail(Failure::new(
                        "C13/unexpected-import-rule",
                        format!("the output has an @import rule that is no plain-CSS import of the input: {}", crate::oracle::css::render(&emitted[0])),
                        details(json!({})),
                    ));
                }
            }
            (Outcome::Css(css), Some((file, _))) => {
                let (ms, _) = markers_in(css);
                let sig = classify(case, &e, &res, &ms, "C13/missing-error");
                return Verdict::Fail(Failure::new(
                    sig,
                    format!("no candidate exists for the load in {}, but the compilation succeeded", file),
                    details(json!({"observed_markers": ms})),
                ));
            }
            (Outcome::Error(err), None) => {
                let sig = classify(case, &e, &res, &[], "C13/unexpected-error");
                return Verdict::Fail(Failure::new(
                    sig,
                    format!("a candidate exists ({}), but the compilation failed: {}", oc, err.message),
                    details(json!({"error": err})),
                ));
            }
            (Outcome::Error(err), Some((file, line))) => {
                // the text of the statement's line
                let text = if model::normalize(&case.entry) == *file {
                    entry_text(case)
                } else {
                    case.files.iter().find(|f| model::normalize(&f.path) == *file).map(file_text).unwrap_or_default()
                };
                let len = text.lines().nth(*line).map(|l| l.chars().count()).unwrap_or(0);
                let ok = err.kind == "parse"
                    && model::normalize(&err.file) == *file
                    && err.begin.line == *line
                    && err.end.line == *line
                    && err.begin.col < len
                    && err.end.col <= len
                    && err.begin.col <= err.end.col;
                if !ok {
                    let sig = classify(case, &e, &res, &[], "C13/error-location");
                    return Verdict::Fail(Failure::new(
                        sig,
                        format!(
                            "the error is not located at the load without match ({} line {}): {} {}:{}:{}-{}:{} {}",
                            file, line, err.kind, err.file, err.begin.line, err.begin.col, err.end.line, err.end.col, err.message
                        ),
                        details(json!({"error": err})),
                    ));
                }
                cx.class(&format!("error-message:{}", err.message));
            }
            _ => {
                cx.inconclusive("unexpected outcome kind");
                return Verdict::Discard;
            }
        }

        // ---- 3. every loaded file was read through the supplied Fs ----
        if e.error.is_none() {
            for p in &e.reads {
                if !res.fs_calls.iter().any(|c| c.op == "read" && c.hit && model::normalize(&c.path) == *p) {
                    return Verdict::Fail(Failure::new(
                        "C13/loaded-without-read",
                        format!("the marker of {} is in the output but the supplied Fs never read it", p),
                        details(json!({})),
                    ));
                }
            }
        }

        // ---- 4. confinement: every Fs call is for the entry or a candidate of a performed search ----
        let mut strict: BTreeSet<String> = BTreeSet::new();
        let mut liberal: BTreeSet<String> = BTreeSet::new();
        let mut malformed: BTreeSet<String> = BTreeSet::new();
        strict.insert(model::normalize(&case.entry));
        for s in &e.searches {
            strict.extend(model::candidate_set(s.stmt.rule, &s.stmt.url, &s.from_file, &case.load_paths, false));
            liberal.extend(model::candidate_set(s.stmt.rule, &s.stmt.url, &s.from_file, &case.load_paths, true));
            malformed.extend(malformed_probe_set(s, &case.load_paths));
        }
        let mut tolerated_malformed = 0;
        let mut tolerated_use_probe = 0;
        let mut deferred: Option<Failure> = None;
        for c in &res.fs_calls {
            let p = model::normalize(&c.path);
            if strict.contains(&p) {
                continue;
            }
            if liberal.contains(&p) {
                if TOLERATE_USE_IMPORT_ONLY_PROBE && !cx.replay && !fstree::lifted("use-probe") {
                    tolerated_use_probe += 1;
                } else if deferred.is_none() {
                    deferred = Some(Failure::new(
                        "C13/fs-probe-import-only-for-use",
                        format!("@use/@forward probes the import-only path {} ({})", c.path, c.op),
                        details(json!({})),
                    ));
                }
                continue;
            }
            if malformed.contains(&p) {
                if TOLERATE_MALFORMED_PROBE && !cx.replay && !fstree::lifted("malformed-probe") {
                    tolerated_malformed += 1;
                } else if deferred.is_none() {
                    deferred = Some(Failure::new(
                        "C13/fs-probe-malformed-import-only",
                        format!("the Fs is asked for the malformed path {} ({}), which is no candidate of the search", c.path, c.op),
                        details(json!({})),
                    ));
                }
                continue;
            }
            let sig = classify(case, &e, &res, &[], "C13/fs-call-outside-candidates");
            return Verdict::Fail(Failure::new(
                sig,
                format!("Fs call {}({}) is for a path that is no candidate of any search of this compilation", c.op, c.path),
                details(json!({"candidate_set": strict})),
            ));
        }
        if tolerated_malformed > 0 {
            cx.excluded("tolerated: malformed import-only probe `x..importscss` (finding #17d)");
        }
        if tolerated_use_probe > 0 {
            cx.excluded("tolerated: @use/@forward probes import-only paths (finding #17b)");
        }
        if let Some(f) = deferred {
            return Verdict::Fail(f);
        }
        Verdict::Pass
    }
    fn extra_evidence(&self, _stats: &Stats) -> serde_json::Value {
        json!({
            "switches": {
                "EXCLUDE_DOTTED_BASENAMES": fstree::EXCLUDE_DOTTED_BASENAMES,
                "EXCLUDE_EXPLICIT_EXT_WITH_LOADPATH": fstree::EXCLUDE_EXPLICIT_EXT_WITH_LOADPATH,
                "EXCLUDE_USE_IMPORT_ONLY": fstree::EXCLUDE_USE_IMPORT_ONLY,
                "EXCLUDE_EXPLICIT_EXT_IMPORT_ONLY": fstree::EXCLUDE_EXPLICIT_EXT_IMPORT_ONLY,
                "TOLERATE_MALFORMED_PROBE": TOLERATE_MALFORMED_PROBE,
                "TOLERATE_USE_IMPORT_ONLY_PROBE": TOLERATE_USE_IMPORT_ONLY_PROBE,
            }
        })
    }
}

pub mod c01;
pub mod c02;

pub mod c01;
pub mod c02;
pub mod c06;
pub mod c13;
pub mod c17;
pub mod c05;

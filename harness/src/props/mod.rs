pub mod c01;

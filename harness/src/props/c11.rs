//! C11 — selector functions are sound with respect to element matching (DESIGN.md §2 C11).

use crate::engine::*;
use crate::oracle::css;
use crate::oracle::dom::*;
use crate::oracle::selector::*;
use crate::props::c01::panic_signature;
use proptest::prelude::*;
use serde::{Deserialize, Serialize};
use serde_json::json;

pub struct C11;

#[derive(Clone, Debug, Serialize, Deserialize)]
pub struct Case {
    pub a: String,
    pub b: String,
    /// extend / replace target (a simple selector in the judged class)
    pub target: String,
    pub seed: u64,
    /// "judged" | "crash-only"
    pub class: String,
}

pub const RANDOM_DOMS: u64 = 3_000;

pub const KF_REPLACE_PANIC: &str = "replace-empty-result-panics";
pub const KF_WEAVE: &str = "unify-weave-breaks-sibling-run";
pub const KF_SKIP: &str = "superselector-combinator-then-skip";

/// the claimed superselector has a `>`/`+`/`~` that is not its last combinator: after it the walk
/// lets the next compound match a later compound of the other selector instead of the adjacent one
fn skip_region(sup: &List) -> bool {
    sup.0.iter().any(|c| {
        let n = c.combs.len();
        n >= 2 && c.combs[..n - 1].iter().any(|k| *k != Comb::Desc)
    })
}

fn active(cx: &Ctx, id: &str) -> bool {
    static K: std::sync::OnceLock<Vec<String>> = std::sync::OnceLock::new();
    !cx.replay
        && K.get_or_init(|| {
            load_known("C11")
                .into_iter()
                .filter(|e| e.status == "known")
                .map(|e| e.id)
                .collect()
        })
        .iter()
        .any(|k| k == id)
}

/// one list has `+` directly followed by another sibling combinator and the other list has `~`
fn weave_region(a: &List, b: &List) -> bool {
    let run = |l: &List| {
        l.0.iter().any(|c| {
            c.combs
                .windows(2)
                .any(|w| w[0] == Comb::Next && matches!(w[1], Comb::Next | Comb::Sib))
        })
    };
    let sib = |l: &List| l.0.iter().any(|c| c.combs.contains(&Comb::Sib));
    (run(a) && sib(b)) || (run(b) && sib(a))
}

fn q(s: &str) -> String {
    format!("\"{}\"", s.replace('\\', "\\\\").replace('"', "\\\""))
}

#[derive(Clone, Copy, Debug, PartialEq, Eq)]
enum Step {
    SupAB,
    SupBA,
    ReflA,
    ReflB,
    Unify,
    Nest,
    NestRule,
    Append,
    AppendRule,
    Extend,
    ExtendRule,
    Replace,
    ParseA,
    ParseB,
    SimpleA,
    RuleA,
    RuleB,
    RuleT,
}

const STEPS: [Step; 18] = [
    Step::SupAB,
    Step::SupBA,
    Step::ReflA,
    Step::ReflB,
    Step::Unify,
    Step::Nest,
    Step::NestRule,
    Step::Append,
    Step::AppendRule,
    Step::Extend,
    Step::ExtendRule,
    Step::Replace,
    Step::ParseA,
    Step::ParseB,
    Step::SimpleA,
    Step::RuleA,
    Step::RuleB,
    Step::RuleT,
];

/// split a selector-list text at top-level commas
fn split_top(s: &str) -> Vec<String> {
    let mut out = vec![];
    let mut depth = 0i32;
    let mut cur = String::new();
    let mut quote: Option<char> = None;
    for c in s.chars() {
        if let Some(qc) = quote {
            cur.push(c);
            if c == qc {
                quote = None;
            }
            continue;
        }
        match c {
            '"' | '\'' => {
                quote = Some(c);
                cur.push(c)
            }
            '(' | '[' => {
                depth += 1;
                cur.push(c)
            }
            ')' | ']' => {
                depth -= 1;
                cur.push(c)
            }
            ',' if depth == 0 => {
                out.push(cur.trim().to_string());
                cur = String::new();
            }
            _ => cur.push(c),
        }
    }
    out.push(cur.trim().to_string());
    out
}

fn source(step: Step, c: &Case) -> String {
    let (a, b, t) = (&c.a, &c.b, &c.target);
    match step {
        Step::SupAB => format!("r{{p:is-superselector({},{})}}", q(a), q(b)),
        Step::SupBA => format!("r{{p:is-superselector({},{})}}", q(b), q(a)),
        Step::ReflA => format!("r{{p:is-superselector({},{})}}", q(a), q(a)),
        Step::ReflB => format!("r{{p:is-superselector({},{})}}", q(b), q(b)),
        Step::Unify => format!("r{{p:selector-unify({},{})}}", q(a), q(b)),
        Step::Nest => format!("r{{p:selector-nest({},{})}}", q(a), q(b)),
        Step::NestRule => format!("{} {{ {} {{ m: 1 }} }}", a, b),
        Step::Append => format!("r{{p:selector-append({},{})}}", q(a), q(b)),
        Step::AppendRule => {
            let parts: Vec<String> = split_top(b).into_iter().map(|p| format!("&{}", p)).collect();
            format!("{} {{ {} {{ m: 1 }} }}", a, parts.join(", "))
        }
        Step::Extend => format!("r{{p:selector-extend({},{},{})}}", q(a), q(t), q(b)),
        Step::ExtendRule => format!("{} {{ m: 1 }}\n{} {{ @extend {}; }}", a, b, t),
        Step::Replace => format!("r{{p:selector-replace({},{},{})}}", q(a), q(t), q(b)),
        Step::ParseA => format!("r{{p:selector-parse({})}}", q(a)),
        Step::ParseB => format!("r{{p:selector-parse({})}}", q(b)),
        Step::SimpleA => format!("r{{p:simple-selectors({})}}", q(a)),
        Step::RuleA => rule_probe(a),
        Step::RuleB => rule_probe(b),
        Step::RuleT => rule_probe(t),
    }
}

/// does the style-rule parser accept the selector? (`&` is only meaningful inside another rule)
fn rule_probe(sel: &str) -> String {
    if sel.contains('&') {
        format!("z {{ {} {{ m: 1 }} }}", sel)
    } else {
        format!("{} {{ m: 1 }}", sel)
    }
}

/// which of the case's selectors a step hands to the selector parser
fn uses(step: Step) -> (bool, bool, bool) {
    match step {
        Step::SupAB | Step::SupBA | Step::Unify | Step::Nest | Step::NestRule | Step::Append | Step::AppendRule => (true, true, false),
        Step::ReflA | Step::ParseA | Step::SimpleA | Step::RuleA => (true, false, false),
        Step::ReflB | Step::ParseB | Step::RuleB => (false, true, false),
        Step::Extend | Step::ExtendRule | Step::Replace => (true, true, true),
        Step::RuleT => (false, false, true),
    }
}

#[derive(Clone, Debug)]
enum Val {
    /// the declaration was printed with this value
    Text(String),
    /// compiled, but no declaration / rule was printed (null, or an invisible rule)
    Nothing,
    Error(String),
    Abnormal,
}

fn value_of(res: &Res, prop: &str) -> Val {
    match &res.outcome {
        Outcome::Css(c) => {
            let rows = css::rows(c);
            match rows.iter().find(|r| r.prop == prop) {
                Some(r) => {
                    if prop == "m" {
                        Val::Text(r.selector.clone())
                    } else {
                        Val::Text(r.value.clone())
                    }
                }
                None => Val::Nothing,
            }
        }
        Outcome::Error(e) => Val::Error(e.message.clone()),
        _ => Val::Abnormal,
    }
}

fn target_under_not(l: &List, t: &Simple) -> bool {
    let mut hit = false;
    l.walk(&mut |s| {
        if let Simple::Sel(n, inner) = s {
            if unvendored(n) == "not" && inner.mentions(t) {
                hit = true;
            }
        }
    });
    hit
}

impl Prop for C11 {
    type Case = Case;
    fn id(&self) -> &'static str {
        "C11"
    }
    fn rule(&self) -> String {
        "pairs (A, B) of selector lists over {* a b c .x .y .z #i #j [p] [q] :hover :focus :nth-child(2n+1) ::before ::after, :not/:is/:where/:matches/:any with list arguments (nesting <= 2); descendant > + ~; <= 3-4 compounds, <= 3 complexes}; B is independent of A (30 %) or derived from A by 1-3 strengthening/weakening edits; plus a target simple for selector-extend/replace. 20 % of the cases are 'crash-only': stranger selectors (leading/trailing combinators, namespaces, attribute operators, :has/:host/::slotted/:nth-child(.. of ..), placeholders) on which every function must return or raise an error once the style-rule parser accepts them. Each function is evaluated in its own compilation; answers are judged on all forests with <= 3 elements (when <= 200 000) plus 3 000 seeded random forests with 4-5 elements. Non-trivial = a combinator or selector pseudo on at least one side and at least one `true` / non-null answer; distinct = distinct (A, B, target).".into()
    }
    fn assumptions(&self) -> Vec<String> {
        vec![
            "selectors are judged on DOM forests of bounded size (exhaustive <= 3 where the label space allows, sampled 4-5)".into(),
            "an element has one type, at most one id and at most one pseudo-element tag; a compound without a pseudo-element matches whatever the tag is (Sass unifies `.x` with `a::after` to `a.x::after`)".into(),
            "the extend/replace relations are judged for a plain simple target and without nested selector pseudos; regions of the known findings of C11 are excluded while listed as known (counted)".into(),
            ":is, :where, :matches and :any all mean 'matches one of the arguments'".into(),
            "selector-replace is compared with selector-extend by matching (replace within extend; extend within replace plus the original complexes that mention the target), not complex by complex: trimming differs legitimately when the replacement itself contains the target; not judged when the target sits under :not()".into(),
        ]
    }
    fn strategy(&self, tier: Tier) -> Option<(BoxedStrategy<Case>, u32)> {
        Some((crate::gen::selpair::pairs().boxed(), tier.pick(12_000, 200_000)))
    }
    fn enumerate(&self, _tier: Tier) -> Vec<Case> {
        crate::gen::selpair::directed()
    }
    fn check(&self, case: &Case, cx: &mut Ctx) -> Verdict {
        let steps: Vec<Single> = STEPS.iter().map(|s| Single::scss(source(*s, case))).collect();
        let res = cx.run_job(&Job {
            steps,
            storm: vec![],
        });
        if res.len() != STEPS.len() {
            cx.inconclusive("short job result");
            return Verdict::Discard;
        }
        let at = |s: Step| STEPS.iter().position(|x| *x == s).unwrap();
        let accepted = |s: Step| res[at(s)].outcome.is_ok();
        let (ra, rb, rt) = (accepted(Step::RuleA), accepted(Step::RuleB), accepted(Step::RuleT));
        cx.class(&format!("class:{}", case.class));
        // ---- no function panics on selectors the style-rule parser accepts
        let mut timeouts = 0;
        for (i, s) in STEPS.iter().enumerate() {
            let (ua, ub, ut) = uses(*s);
            let in_domain = (!ua || ra) && (!ub || rb) && (!ut || rt);
            match &res[i].outcome {
                Outcome::Panic { at, msg } => {
                    if in_domain {
                        if *s == Step::Replace && msg.contains("Option::unwrap()") && at.contains("selector/extend/mod.rs") && active(cx, KF_REPLACE_PANIC) {
                            cx.excluded("known:replace-empty-result-panics (rest of the case is still judged)");
                            continue;
                        }
                        return Verdict::Fail(Failure::new(
                            format!("C11/panic:{:?}:{}", s, panic_signature(at, msg)),
                            format!("{:?} panics at {}: {}", s, at, msg),
                            json!({"source": source(*s, case), "at": at, "msg": msg}),
                        ));
                    }
                    cx.class("panic-outside-domain(rule parser rejects the selector)");
                }
                Outcome::Timeout | Outcome::Crash { .. } | Outcome::NotRun => timeouts += 1,
                _ => {}
            }
        }
        if timeouts > 0 {
            cx.inconclusive("timeout/crash in a step");
            return Verdict::Discard;
        }
        cx.add_evaluations(STEPS.len() as u64 - 1);
        if !(ra && rb) {
            cx.class("rule-parser-rejects-a-side");
        }
        let (la, lb) = match (parse_list(&case.a), parse_list(&case.b)) {
            (Ok(a), Ok(b)) if ra && rb => (a, b),
            _ => {
                cx.class("crash-check-only");
                cx.sample(|| json!({"a": case.a, "b": case.b, "target": case.target, "class": case.class}));
                return Verdict::Pass;
            }
        };
        // ---- read the answers
        let v = |s: Step| value_of(&res[at(s)], if matches!(s, Step::NestRule | Step::AppendRule | Step::ExtendRule | Step::RuleA | Step::RuleB | Step::RuleT) { "m" } else { "p" });
        let parse_val = |x: &Val| -> Option<List> {
            match x {
                Val::Text(t) => parse_list(t).ok(),
                _ => None,
            }
        };
        let details = |extra: serde_json::Value| {
            let mut m = json!({"a": case.a, "b": case.b, "target": case.target});
            if let (Some(o), Some(e)) = (m.as_object_mut(), extra.as_object()) {
                for (k, v) in e {
                    o.insert(k.clone(), v.clone());
                }
            }
            m
        };

        // reflexivity
        for (s, l, txt) in [(Step::ReflA, &la, &case.a), (Step::ReflB, &lb, &case.b)] {
            match v(s) {
                Val::Text(t) if t == "true" => {}
                Val::Text(t) if t == "false" => {
                    let _ = l;
                    return Verdict::Fail(Failure::new(
                        "C11/superselector-not-reflexive",
                        format!("is-superselector({0}, {0}) is false", q(txt)),
                        details(json!({"selector": txt})),
                    ));
                }
                other => cx.class(&format!("refl:{}", short(&other))),
            }
        }

        // nest / append against nested rules (text level, both from grass)
        for (f, r, name) in [(Step::Nest, Step::NestRule, "nest"), (Step::Append, Step::AppendRule, "append")] {
            match (v(f), v(r)) {
                (Val::Text(x), Val::Text(y)) => {
                    if x.contains('%') || y.contains('%') {
                        // rules hide complexes with placeholders, functions print them
                        cx.class(&format!("{}:not-compared(placeholder)", name));
                        continue;
                    }
                    let same = match (parse_list(&x), parse_list(&y)) {
                        (Ok(p), Ok(q)) => p == q,
                        _ => css::canon_selector(&x) == css::canon_selector(&y),
                    };
                    cx.class(&format!("{}:compared", name));
                    if !same {
                        return Verdict::Fail(Failure::new(
                            format!("C11/{}-differs-from-nested-rule", name),
                            format!("selector-{}({}, {}) = `{}` but the nested rule is printed as `{}`", name, q(&case.a), q(&case.b), x, y),
                            details(json!({"function": x, "rule": y, "rule_source": source(r, case)})),
                        ));
                    }
                }
                (x, y) => {
                    if std::env::var("VP_DEBUG").is_ok() && matches!((&x, &y), (Val::Text(_), Val::Nothing)) {
                        eprintln!("VALUE/NOTHING {} a={:?} b={:?} fn={:?}", name, case.a, case.b, x);
                    }
                    cx.class(&format!("{}:{}/{}", name, short(&x), short(&y)))
                }
            }
        }

        // ---- DOM-judged relations
        let target = parse_list(&case.target).ok().and_then(|l| {
            if l.0.len() == 1 && l.0[0].combs.is_empty() && l.0[0].comps[0].0.len() == 1 {
                Some(l.0[0].comps[0].0[0].clone())
            } else {
                None
            }
        });
        let sup_ab = matches!(v(Step::SupAB), Val::Text(t) if t == "true");
        let sup_ba = matches!(v(Step::SupBA), Val::Text(t) if t == "true");
        let unify_v = v(Step::Unify);
        let unify = parse_val(&unify_v);
        let unify_null = matches!(unify_v, Val::Nothing);
        let ext_v = v(Step::Extend);
        let ext = parse_val(&ext_v);
        let ext_rule = parse_val(&v(Step::ExtendRule));
        let rep = parse_val(&v(Step::Replace));
        let parsed_a = parse_val(&v(Step::ParseA));
        let parsed_b = parse_val(&v(Step::ParseB));
        for (name, val, parsed) in [("unify", &unify_v, &unify), ("extend", &ext_v, &ext)] {
            if let (Val::Text(t), None) = (val, parsed) {
                cx.class(&format!("{}:answer-outside-alphabet", name));
                let _ = t;
            }
        }
        cx.class(if sup_ab { "superselector(A,B):true" } else { "superselector(A,B):false" });
        cx.class(if sup_ba { "superselector(B,A):true" } else { "superselector(B,A):false" });
        cx.class(match (&unify, unify_null) {
            (Some(_), _) => "unify:selector",
            (None, true) => "unify:null",
            _ => "unify:other",
        });
        let compound_only = la.compound_only() && lb.compound_only();
        let placeholder = la.has_placeholder() || lb.has_placeholder();
        // extend vs rule: spelling first
        let plain_target = matches!(&target, Some(t) if !matches!(t, Simple::Sel(..) | Simple::Placeholder(_)));
        let mut ext_vs_rule_dom = false;
        match (&ext, &ext_rule) {
            _ if !plain_target => cx.class("extend-vs-rule:not-judged(target is not a plain simple selector)"),
            (Some(x), Some(y)) => {
                if x.complex_set() == y.complex_set() {
                    cx.class("extend-vs-rule:same-set");
                } else {
                    cx.class("extend-vs-rule:spelling-differs");
                    ext_vs_rule_dom = true;
                }
            }
            _ => cx.class("extend-vs-rule:not-comparable"),
        }
        // Sass drops an argument that is itself a selector pseudo of another name when the enclosing
        // pseudo is extended ("not worth the pain" in dart-sass), and whether it counts as extended
        // depends on trimming: the extend relations are judged without nested selector pseudos.
        let flat = la.pseudo_depth() <= 1 && lb.pseudo_depth() <= 1;
        if !flat {
            ext_vs_rule_dom = false;
            cx.class("extend-relations:not-judged(nested selector pseudos)");
        }
        let rep_judged = match (&rep, &ext, &target) {
            (Some(_), Some(_), Some(t)) => plain_target && flat && !((skip_region(&la) || skip_region(&lb)) && active(cx, KF_SKIP)) && !target_under_not(&la, t) && !placeholder && la.0.iter().all(|c| c.count(t) <= 1),
            _ => false,
        };
        if rep_judged {
            cx.class("replace-vs-extend:judged");
        }

        let in_weave = weave_region(&la, &lb);
        // unification returns the more specific side when is_super_selector says so: same walk
        let in_skip = skip_region(&la) || skip_region(&lb);
        let judge_unify = !(in_weave && active(cx, KF_WEAVE)) && !(in_skip && active(cx, KF_SKIP));
        if !judge_unify {
            cx.excluded("known:weave-breaks-sibling-run / combinator-then-skip: unify soundness not judged");
        }
        // trimming after extension asks the same walk whether a generated complex is redundant; in
        // selector-extend nothing is protected by source specificity, under @extend the extender is
        if ext_vs_rule_dom && in_skip && active(cx, KF_SKIP) {
            ext_vs_rule_dom = false;
            cx.excluded("known:superselector-combinator-then-skip: extend-vs-rule not judged");
        }
        let (skip_ab, skip_ba) = (skip_region(&la), skip_region(&lb));
        let judge_ab = !(skip_ab && active(cx, KF_SKIP));
        let judge_ba = !(skip_ba && active(cx, KF_SKIP));
        if (sup_ab && !judge_ab) || (sup_ba && !judge_ba) {
            cx.excluded("known:superselector-combinator-then-skip: a `true` answer not judged");
        }
        let mut f = Features::default();
        f.add_list(&la);
        f.add_list(&lb);
        for l in [&unify, &ext, &ext_rule, &rep, &parsed_a, &parsed_b].into_iter().flatten() {
            f.add_list(l);
        }
        f.normalise();
        if !f.ok() {
            cx.class("discard:too-many-features");
            return Verdict::Discard;
        }
        let comp = |l: &List| compile(l, &f, &[]);
        let ca = comp(&la);
        let cb = comp(&lb);
        let cu = unify.as_ref().map(comp);
        let ce = ext.as_ref().map(comp);
        let cer = ext_rule.as_ref().map(comp);
        let cr = rep.as_ref().map(comp);
        let cpa = parsed_a.as_ref().map(comp);
        let cpb = parsed_b.as_ref().map(comp);
        let orig_with_t = target.as_ref().map(|t| comp(&List(la.0.iter().filter(|c| c.mentions(t)).cloned().collect())));
        let mut lists: Vec<&List> = vec![&la, &lb];
        for l in [&unify, &ext, &rep].into_iter().flatten() {
            lists.push(l);
        }
        let templates = templates_of(&f, &lists);
        let pl = plan(&f, RANDOM_DOMS);
        cx.class(&format!("doms:exhaustive<={}", pl.exhaustive_upto));
        let mut failure: Option<(String, String, serde_json::Value)> = None;
        let mut inter_nonempty = false;
        for_each_dom(&f, &templates, &pl, case.seed, |d| {
            let ma = ca.mask(d, &[]);
            let mb = cb.mask(d, &[]);
            let mut bad: Option<(&str, u8, String)> = None;
            if ma & mb != 0 {
                inter_nonempty = true;
            }
            if sup_ab && judge_ab && mb & !ma != 0 {
                bad = Some((if skip_ab { "combinator-then-skip:superselector-unsound" } else { "superselector-unsound" }, mb & !ma, format!("is-superselector({}, {}) is true but the element is matched by the second and not by the first", q(&case.a), q(&case.b))));
            } else if sup_ba && judge_ba && ma & !mb != 0 {
                bad = Some((if skip_ba { "combinator-then-skip:superselector-unsound" } else { "superselector-unsound" }, ma & !mb, format!("is-superselector({}, {}) is true but the element is matched by the second and not by the first", q(&case.b), q(&case.a))));
            }
            if bad.is_none() {
                if let (Some(cu), true) = (&cu, judge_unify) {
                    let mu = cu.mask(d, &[]);
                    if mu & !(ma & mb) != 0 {
                        bad = Some((if in_weave { "weave-breaks-sibling-run:unify-unsound" } else if in_skip { "combinator-then-skip:unify-unsound" } else { "unify-unsound" }, mu & !(ma & mb), format!("selector-unify({}, {}) = `{}` matches an element that is not matched by both arguments", q(&case.a), q(&case.b), unify.as_ref().unwrap().text())));
                    }
                } else if unify_null && compound_only && !placeholder && ma & mb != 0 {
                    bad = Some(("unify-null-but-intersection-nonempty", ma & mb, format!("selector-unify({}, {}) is null although an element matches both compound selectors", q(&case.a), q(&case.b))));
                }
            }
            if bad.is_none() && ext_vs_rule_dom {
                let (x, y) = (ce.as_ref().unwrap().mask(d, &[]), cer.as_ref().unwrap().mask(d, &[]));
                if x != y {
                    bad = Some((if in_skip { "combinator-then-skip:extend-differs-from-rule" } else { "extend-differs-from-rule" }, x ^ y, format!("selector-extend gives `{}` but `@extend` on the same inputs prints `{}`", ext.as_ref().unwrap().text(), ext_rule.as_ref().unwrap().text())));
                }
            }
            if bad.is_none() && rep_judged {
                let (x, r) = (ce.as_ref().unwrap().mask(d, &[]), cr.as_ref().unwrap().mask(d, &[]));
                let o = orig_with_t.as_ref().unwrap().mask(d, &[]);
                if r & !x != 0 {
                    bad = Some(("replace-not-within-extend", r & !x, format!("selector-replace gives `{}`, which matches an element that selector-extend's `{}` does not", rep.as_ref().unwrap().text(), ext.as_ref().unwrap().text())));
                } else if x & !(r | o) != 0 {
                    bad = Some(("extend-not-within-replace-plus-originals", x & !(r | o), format!("selector-extend gives `{}`; an element it matches is matched neither by selector-replace's `{}` nor by an original complex that mentions the target", ext.as_ref().unwrap().text(), rep.as_ref().unwrap().text())));
                }
            }
            if bad.is_none() {
                for (cp, m, src, out) in [(&cpa, ma, &case.a, &parsed_a), (&cpb, mb, &case.b, &parsed_b)] {
                    if let Some(cp) = cp {
                        let mp = cp.mask(d, &[]);
                        if mp != m {
                            bad = Some(("parse-roundtrip", mp ^ m, format!("selector-parse({}) prints `{}`, which matches different elements", q(src), out.as_ref().unwrap().text())));
                        }
                    }
                }
            }
            if let Some((kind, mask, what)) = bad {
                let e = (0..d.n).find(|i| mask >> i & 1 == 1).unwrap();
                failure = Some((format!("C11/{}", kind), what, json!({"dom": d.describe(&f), "element": e})));
                return false;
            }
            true
        });
        if let Some((sig, what, extra)) = failure {
            return Verdict::Fail(Failure::new(sig, what, details(extra)));
        }
        if unify_null && compound_only {
            cx.class(if inter_nonempty { "unify:null-compound-nonempty(!)" } else { "unify:null-compound-empty-intersection" });
        }
        let interesting = la.has_combinator() || lb.has_combinator() || la.has_selector_pseudo() || lb.has_selector_pseudo();
        let answered = sup_ab || sup_ba || unify.is_some();
        if interesting && answered {
            cx.nontrivial(&(&case.a, &case.b, &case.target));
            cx.sample_nontrivial(|| json!({"a": case.a, "b": case.b, "target": case.target, "superselector(A,B)": sup_ab, "superselector(B,A)": sup_ba, "unify": unify.as_ref().map(|u| u.text()), "extend": ext.as_ref().map(|u| u.text()), "replace": rep.as_ref().map(|u| u.text())}));
        } else {
            cx.sample(|| json!({"a": case.a, "b": case.b, "target": case.target, "superselector(A,B)": sup_ab, "unify": unify.as_ref().map(|u| u.text())}));
        }
        Verdict::Pass
    }
}

fn short(v: &Val) -> &'static str {
    match v {
        Val::Text(_) => "value",
        Val::Nothing => "nothing",
        Val::Error(_) => "error",
        Val::Abnormal => "abnormal",
    }
}

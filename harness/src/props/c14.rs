//! C14 — list, map and string built-ins implement their documented semantics; the `sass:list`,
//! `sass:map` and `sass:string` module functions behave identically to their global aliases.

use crate::engine::*;
use crate::gen::values::{self as V, is_special, Sep, Val};
use crate::oracle::builtins::{self as B, Call, Expect, Func, ALL_FUNCS};
use crate::oracle::css;
use proptest::prelude::*;
use serde::{Deserialize, Serialize};
use serde_json::json;
use std::collections::BTreeMap;

pub struct C14;

#[derive(Clone, Debug, PartialEq, Eq, Hash, Serialize, Deserialize)]
pub enum Law {
    /// length(append(l, x)) == length(l) + 1
    AppendLength { l: Val, x: Val },
    /// nth(set-nth(l, i, x), i) == x          (1 <= |i| <= length(l))
    SetNthNth { l: Val, i: i64, x: Val },
    /// str-slice(s, 1, i) + str-slice(s, i + 1) == s      (0 <= i <= str-length(s))
    SliceConcat { s: Val, i: i64 },
    /// str-length(str-insert(s, t, i)) == str-length(s) + str-length(t)
    InsertLength { s: Val, t: Val, i: i64 },
    /// map-get(map-merge(a, b), k) == if(map-has-key(b, k), map-get(b, k), map-get(a, k))
    MergeGet { a: Val, b: Val, k: Val },
    /// no removed key is among map-keys(map-remove(m, ks...))
    RemoveKeys { m: Val, ks: Vec<Val> },
}

#[derive(Clone, Debug, PartialEq, Eq, Hash, Serialize, Deserialize)]
pub enum Item {
    Call(Call),
    /// a reference-free law, written with global names or with module names
    Law { law: Law, module: bool },
}

#[derive(Clone, Debug, Serialize, Deserialize)]
pub struct Case {
    pub items: Vec<Item>,
}

// ------------------------------------------------------------------------------------------
// generators
// ------------------------------------------------------------------------------------------

fn listish() -> BoxedStrategy<Val> {
    prop_oneof![20 => V::list(2), 2 => V::scalar(), 2 => V::map(1), 1 => Just(Val::Map(vec![]))].boxed()
}
fn mapish() -> BoxedStrategy<Val> {
    prop_oneof![20 => V::map(3), 2 => Just(Val::empty_list()), 1 => Just(Val::Map(vec![]))].boxed()
}

/// index in [-8, 8] with the boundaries of `len` weighted up; 5 % non-integers, 5 % with a unit,
/// 3 % far out of range
fn pick_index(len: usize, sel: u16, kind: u8) -> Val {
    let len = len as i64;
    let cands: Vec<i64> = vec![0, 1, -1, len, -len, len + 1, -len - 1, len - 1, 1 - len, 2, -2];
    let k = if kind % 2 == 0 {
        idx(sel, 17) as i64 - 8
    } else {
        cands[idx(sel, cands.len())].clamp(-8, 8)
    };
    match kind % 40 {
        0 | 1 => Val::Num { milli: k * 1000 + 500, unit: String::new() },
        2 => Val::Num { milli: k * 1000 + 1, unit: String::new() },
        3 | 4 => Val::Num { milli: k * 1000, unit: if kind & 64 == 0 { "px".into() } else { "%".into() } },
        5 => Val::Num { milli: if k < 0 { -1_000_000_000 } else { 1_000_000_000 }, unit: String::new() },
        _ => Val::int(k),
    }
}

fn char_len(v: &Val) -> usize {
    match v {
        Val::Str { text, .. } => text.chars().count(),
        _ => 0,
    }
}

fn substring_of(s: &Val, a: u16, b: u16) -> Val {
    match s {
        Val::Str { text, quoted } => {
            let c: Vec<char> = text.chars().collect();
            if c.is_empty() {
                return Val::Str { text: String::new(), quoted: true };
            }
            let i = idx(a, c.len());
            let n = 1 + idx(b, (c.len() - i).min(3));
            Val::Str { text: c[i..i + n].iter().collect(), quoted: *quoted || true }
        }
        _ => Val::q("a"),
    }
}

/// a key path into `m`: follows existing keys (descending into nested maps) for `depth` steps;
/// `miss` makes the last step (or an inner one) miss
fn key_path(m: &Val, sels: &[u16], miss: u8, fallback: &Val) -> Vec<Val> {
    let mut out = vec![];
    let mut cur = m.clone();
    for (i, s) in sels.iter().enumerate() {
        let last = i + 1 == sels.len();
        let pairs = match &cur {
            Val::Map(p) if !p.is_empty() => p.clone(),
            _ => {
                // the path is longer than the nesting: often stop here
                if i > 0 && (miss as usize + i) % 3 == 1 {
                    break;
                }
                // past a missing / non-map value, continue with keys of the OUTERMOST map (map-valued
                // ones first): an implementation that loses track of where it is would find them
                let top: Vec<&(Val, Val)> = match m {
                    Val::Map(p) => {
                        let maps: Vec<&(Val, Val)> = p.iter().filter(|(_, v)| matches!(v, Val::Map(_))).collect();
                        if maps.is_empty() {
                            p.iter().collect()
                        } else {
                            maps
                        }
                    }
                    _ => vec![],
                };
                if !top.is_empty() && (miss as usize + i) % 2 == 0 {
                    out.push(top[idx(*s, top.len())].0.clone());
                } else {
                    out.push(fallback.clone());
                }
                continue;
            }
        };
        // prefer keys whose value is a map while there are more steps to go
        let cand: Vec<&(Val, Val)> = if !last && miss % 4 != 3 {
            let maps: Vec<&(Val, Val)> = pairs.iter().filter(|(_, v)| matches!(v, Val::Map(_))).collect();
            if maps.is_empty() {
                pairs.iter().collect()
            } else {
                maps
            }
        } else {
            pairs.iter().collect()
        };
        let (k, v) = cand[idx(*s, cand.len())];
        if (last && miss % 5 == 0) || (!last && miss % 11 == 0) {
            out.push(fallback.clone());
            cur = Val::Null;
        } else {
            out.push(k.clone());
            cur = v.clone();
        }
    }
    out
}

fn sep_arg() -> BoxedStrategy<Option<Val>> {
    prop_oneof![
        8 => Just(None),
        3 => Just(Some(Val::u("auto"))),
        4 => Just(Some(Val::u("comma"))),
        4 => Just(Some(Val::u("space"))),
        4 => Just(Some(Val::u("slash"))),
        1 => Just(Some(Val::q("comma"))),
        1 => Just(Some(Val::q("auto"))),
        1 => Just(Some(Val::u("foo"))),
        1 => Just(Some(Val::u("Comma"))),
        1 => Just(Some(Val::Null)),
        1 => Just(Some(Val::int(1))),
    ]
    .boxed()
}

fn bracketed_arg() -> BoxedStrategy<Option<Val>> {
    prop_oneof![
        8 => Just(None),
        2 => Just(Some(Val::u("auto"))),
        3 => Just(Some(Val::Bool(true))),
        3 => Just(Some(Val::Bool(false))),
        1 => Just(Some(Val::Null)),
        1 => Just(Some(Val::int(0))),
        1 => Just(Some(Val::q("auto"))),
        1 => Just(Some(Val::u("no"))),
        1 => Just(Some(Val::empty_list())),
    ]
    .boxed()
}

fn positional(f: Func, pos: Vec<Val>) -> Call {
    Call { f, pos, named: vec![] }
}

/// well-formed calls (out-of-range indices and odd separator arguments included), all positional
/// except where a later optional parameter is given without the earlier one
fn base_call(f: Func) -> BoxedStrategy<Call> {
    match f {
        Func::Length | Func::ListSeparator | Func::IsBracketed => {
            listish().prop_map(move |l| positional(f, vec![l])).boxed()
        }
        Func::Nth => (listish(), any::<u16>(), any::<u8>())
            .prop_map(move |(l, s, k)| {
                let n = pick_index(l.as_list().len(), s, k);
                positional(f, vec![l, n])
            })
            .boxed(),
        Func::SetNth => (listish(), any::<u16>(), any::<u8>(), V::value(1))
            .prop_map(move |(l, s, k, x)| {
                let n = pick_index(l.as_list().len(), s, k);
                positional(f, vec![l, n, x])
            })
            .boxed(),
        Func::Join => (listish(), listish(), sep_arg(), bracketed_arg())
            .prop_map(move |(a, b, s, br)| {
                let mut c = positional(f, vec![a, b]);
                match (s, br) {
                    (None, None) => {}
                    (Some(s), None) => c.pos.push(s),
                    (None, Some(b)) => c.named.push(("bracketed".into(), b)),
                    (Some(s), Some(b)) => {
                        c.pos.push(s);
                        c.pos.push(b);
                    }
                }
                c
            })
            .boxed(),
        Func::Append => (listish(), V::value(1), sep_arg())
            .prop_map(move |(l, x, s)| {
                let mut c = positional(f, vec![l, x]);
                if let Some(s) = s {
                    c.pos.push(s);
                }
                c
            })
            .boxed(),
        Func::Zip => proptest::collection::vec(listish(), 0..=3).prop_map(move |ls| positional(f, ls)).boxed(),
        Func::Index => (listish(), any::<u16>(), any::<u8>(), V::scalar())
            .prop_map(move |(l, s, k, other)| {
                let items = l.as_list();
                let x = if k % 10 < 7 && !items.is_empty() {
                    let e = items[idx(s, items.len())].clone();
                    // the same string with the other kind of quotes is equal
                    match (&e, k % 3) {
                        (Val::Str { text, quoted: false }, 0) => Val::Str { text: text.clone(), quoted: true },
                        _ => e,
                    }
                } else {
                    other
                };
                positional(f, vec![l, x])
            })
            .boxed(),
        Func::MapGet | Func::MapHasKey | Func::MapDeepRemove => (
            mapish(),
            proptest::collection::vec(any::<u16>(), 1..=3),
            any::<u8>(),
            V::key(),
        )
            .prop_map(move |(m, sels, miss, fb)| {
                let mut pos = vec![m.clone()];
                pos.extend(key_path(&m, &sels, miss, &fb));
                positional(f, pos)
            })
            .boxed(),
        Func::MapKeys | Func::MapValues => mapish().prop_map(move |m| positional(f, vec![m])).boxed(),
        Func::MapMerge => prop_oneof![
            3 => (mapish(), mapish()).prop_map(move |(a, b)| positional(f, vec![a, b])),
            2 => (mapish(), proptest::collection::vec(any::<u16>(), 1..=3), any::<u8>(), V::key(), mapish())
                .prop_map(move |(m, sels, miss, fb, m2)| {
                    let mut pos = vec![m.clone()];
                    pos.extend(key_path(&m, &sels, miss, &fb));
                    pos.push(m2);
                    positional(f, pos)
                }),
        ]
        .boxed(),
        Func::MapRemove => (mapish(), proptest::collection::vec((any::<u16>(), any::<u8>(), V::key()), 0..=3))
            .prop_map(move |(m, ks)| {
                let mut pos = vec![m.clone()];
                for (s, miss, fb) in ks {
                    pos.extend(key_path(&m, &[s], miss, &fb));
                }
                positional(f, pos)
            })
            .boxed(),
        Func::MapSet => (
            mapish(),
            proptest::collection::vec(any::<u16>(), 1..=3),
            any::<u8>(),
            V::key(),
            V::value(1),
        )
            .prop_map(move |(m, sels, miss, fb, x)| {
                let mut pos = vec![m.clone()];
                pos.extend(key_path(&m, &sels, miss, &fb));
                pos.push(x);
                positional(f, pos)
            })
            .boxed(),
        Func::MapDeepMerge => (mapish(), mapish()).prop_map(move |(a, b)| positional(f, vec![a, b])).boxed(),
        Func::StrLength | Func::Quote | Func::Unquote | Func::ToUpperCase | Func::ToLowerCase => {
            V::string().prop_map(move |s| positional(f, vec![s])).boxed()
        }
        Func::StrSlice => (V::string(), any::<u16>(), any::<u8>(), any::<u16>(), any::<u8>(), any::<bool>())
            .prop_map(move |(s, a, ka, b, kb, with_end)| {
                let n = char_len(&s);
                let mut pos = vec![s, pick_index(n, a, ka)];
                if with_end {
                    pos.push(pick_index(n, b, kb));
                }
                positional(f, pos)
            })
            .boxed(),
        Func::StrIndex => (V::string(), any::<u16>(), any::<u16>(), any::<u8>(), V::string())
            .prop_map(move |(s, a, b, k, other)| {
                let t = if k % 10 < 7 { substring_of(&s, a, b) } else { other };
                positional(f, vec![s, t])
            })
            .boxed(),
        Func::StrInsert => (V::string(), V::string(), any::<u16>(), any::<u8>())
            .prop_map(move |(s, t, a, k)| {
                let n = char_len(&s);
                positional(f, vec![s, t, pick_index(n, a, k)])
            })
            .boxed(),
        Func::StrSplit => (V::string(), any::<u16>(), any::<u8>(), V::string(), any::<u8>())
            .prop_map(move |(s, a, k, other, lim)| {
                let sep = match k % 10 {
                    0..=5 => substring_of(&s, a, 0),
                    6 => substring_of(&s, a, 40000),
                    7 => Val::q(""),
                    _ => other,
                };
                let mut pos = vec![s, sep];
                match lim % 16 {
                    0..=6 => {}
                    7 => pos.push(Val::Null),
                    8 | 9 => pos.push(Val::int(1)),
                    10 => pos.push(Val::int(2)),
                    11 => pos.push(Val::int(3)),
                    12 => pos.push(Val::int(0)),
                    13 => pos.push(Val::int(-1)),
                    14 => pos.push(Val::Num { milli: 1500, unit: String::new() }),
                    _ => pos.push(Val::Num { milli: 1000, unit: "px".into() }),
                }
                positional(f, pos)
            })
            .boxed(),
    }
}

/// pass the last `k` non-rest positional arguments by name (optionally in reverse order)
fn restyle(mut c: Call, style: u8) -> Call {
    let sigs = c.f.signatures();
    let sig = match sigs.iter().find(|s| c.pos.len() <= s.params.len()) {
        Some(s) => s,
        None => return c, // rest arguments in use: positional only
    };
    let n = c.pos.len();
    let k = match style % 8 {
        0..=3 => 0,
        4 => 1.min(n),
        5 => n,
        6 => n,
        _ => n.saturating_sub(1),
    };
    if k == 0 {
        return c;
    }
    let moved: Vec<Val> = c.pos.split_off(n - k);
    let mut named: Vec<(String, Val)> =
        moved.into_iter().enumerate().map(|(i, v)| (sig.params[n - k + i].0.to_string(), v)).collect();
    named.extend(c.named.drain(..));
    if style % 8 == 6 {
        named.reverse();
    }
    c.named = named;
    c
}

#[derive(Clone, Debug)]
enum Ill {
    Replace(u16, Val),
    DropLast,
    Extra(Val),
    UnknownName,
    Duplicate,
}

fn ill() -> BoxedStrategy<Ill> {
    prop_oneof![
        8 => (any::<u16>(), V::value(1)).prop_map(|(i, v)| Ill::Replace(i, v)),
        2 => Just(Ill::DropLast),
        2 => V::scalar().prop_map(Ill::Extra),
        1 => Just(Ill::UnknownName),
        1 => Just(Ill::Duplicate),
    ]
    .boxed()
}

fn apply_ill(mut c: Call, ill: Ill) -> Call {
    match ill {
        Ill::Replace(i, v) => {
            let n = c.pos.len() + c.named.len();
            if n == 0 {
                c.pos.push(v);
                return c;
            }
            let j = idx(i, n);
            if j < c.pos.len() {
                c.pos[j] = v;
            } else {
                let k = j - c.pos.len();
                c.named[k].1 = v;
            }
        }
        Ill::DropLast => {
            if c.named.pop().is_none() {
                c.pos.pop();
            }
        }
        Ill::Extra(v) => {
            if c.named.is_empty() {
                c.pos.push(v);
            } else {
                c.named.push(("extra".into(), v));
            }
        }
        Ill::UnknownName => c.named.push(("zzz".into(), Val::int(1))),
        Ill::Duplicate => {
            if let (Some(first), Some(sig)) = (c.pos.first().cloned(), c.f.signatures().first().cloned()) {
                if let Some((name, _)) = sig.params.first() {
                    c.named.push((name.to_string(), first));
                }
            }
        }
    }
    c
}

fn call() -> BoxedStrategy<Item> {
    (proptest::sample::select(&ALL_FUNCS[..]), any::<u8>(), any::<u8>())
        .prop_flat_map(|(f, style, illp)| {
            let base = base_call(f).prop_map(move |c| restyle(c, style));
            if illp % 5 == 0 {
                (base, ill()).prop_map(|(c, i)| Item::Call(apply_ill(c, i))).boxed()
            } else {
                base.prop_map(Item::Call).boxed()
            }
        })
        .boxed()
}

fn law() -> BoxedStrategy<Item> {
    let l = prop_oneof![
        (listish(), V::value(1)).prop_map(|(l, x)| Law::AppendLength { l, x }),
        (listish(), any::<u16>(), any::<bool>(), V::value(1)).prop_map(|(l, s, neg, x)| {
            let n = l.as_list().len().max(1);
            let k = 1 + idx(s, n) as i64;
            Law::SetNthNth { l, i: if neg { -k } else { k }, x }
        }),
        (V::string(), any::<u16>()).prop_map(|(s, a)| {
            let n = char_len(&s);
            Law::SliceConcat { i: idx(a, n + 1) as i64, s }
        }),
        (V::string(), V::string(), -10i64..=10).prop_map(|(s, t, i)| Law::InsertLength { s, t, i }),
        (mapish(), mapish(), V::key()).prop_map(|(a, b, k)| Law::MergeGet { a, b, k }),
        (V::map(2), proptest::collection::vec((any::<u16>(), any::<u8>(), V::key()), 1..=3)).prop_map(|(m, ks)| {
            let mut keys = vec![];
            for (s, miss, fb) in ks {
                keys.extend(key_path(&m, &[s], miss, &fb));
            }
            Law::RemoveKeys { m, ks: keys }
        }),
    ];
    (l, any::<bool>()).prop_map(|(law, module)| Item::Law { law, module }).boxed()
}

fn item() -> BoxedStrategy<Item> {
    prop_oneof![9 => call(), 1 => law()].boxed()
}

// ------------------------------------------------------------------------------------------
// printing
// ------------------------------------------------------------------------------------------

fn fname(f: Func, module: bool) -> &'static str {
    if module {
        f.module_name()
    } else {
        f.global_name().unwrap_or(f.module_name())
    }
}

impl Law {
    fn name(&self) -> &'static str {
        match self {
            Law::AppendLength { .. } => "append-length",
            Law::SetNthNth { .. } => "set-nth-nth",
            Law::SliceConcat { .. } => "slice-concat",
            Law::InsertLength { .. } => "insert-length",
            Law::MergeGet { .. } => "merge-get",
            Law::RemoveKeys { .. } => "remove-keys",
        }
    }
    /// None = the stored instance is outside the law's precondition (possible after shrinking)
    fn expr(&self, m: bool) -> Option<(String, &'static str)> {
        Some(match self {
            Law::AppendLength { l, x } => (
                format!(
                    "{len}({app}({l}, {x})) == {len}({l}) + 1",
                    len = fname(Func::Length, m),
                    app = fname(Func::Append, m),
                    l = l.to_scss(),
                    x = x.to_scss()
                ),
                "true",
            ),
            Law::SetNthNth { l, i, x } => {
                let n = l.as_list().len() as i64;
                if *i == 0 || i.abs() > n {
                    return None;
                }
                (
                    format!(
                        "{nth}({set}({l}, {i}, {x}), {i}) == {x}",
                        nth = fname(Func::Nth, m),
                        set = fname(Func::SetNth, m),
                        l = l.to_scss(),
                        i = i,
                        x = x.to_scss()
                    ),
                    "true",
                )
            }
            Law::SliceConcat { s, i } => {
                if !matches!(s, Val::Str { .. }) || *i < 0 || *i > char_len(s) as i64 {
                    return None;
                }
                (
                    format!(
                        "{sl}({s}, 1, {i}) + {sl}({s}, {j}) == {s}",
                        sl = fname(Func::StrSlice, m),
                        s = s.to_scss(),
                        i = i,
                        j = i + 1
                    ),
                    "true",
                )
            }
            Law::InsertLength { s, t, i } => {
                if !matches!(s, Val::Str { .. }) || !matches!(t, Val::Str { .. }) {
                    return None;
                }
                (
                    format!(
                        "{len}({ins}({s}, {t}, {i})) == {len}({s}) + {len}({t})",
                        len = fname(Func::StrLength, m),
                        ins = fname(Func::StrInsert, m),
                        s = s.to_scss(),
                        t = t.to_scss(),
                        i = i
                    ),
                    "true",
                )
            }
            Law::MergeGet { a, b, k } => {
                if a.try_map().is_none() || b.try_map().is_none() || a.is_bracketed() || b.is_bracketed() {
                    return None;
                }
                (
                    format!(
                        "{get}({merge}({a}, {b}), {k}) == if({has}({b}, {k}), {get}({b}, {k}), {get}({a}, {k}))",
                        get = fname(Func::MapGet, m),
                        merge = fname(Func::MapMerge, m),
                        has = fname(Func::MapHasKey, m),
                        a = a.to_scss(),
                        b = b.to_scss(),
                        k = k.to_scss()
                    ),
                    "true",
                )
            }
            Law::RemoveKeys { m: map, ks } => {
                if !matches!(map, Val::Map(_)) || ks.is_empty() {
                    return None;
                }
                let keys: Vec<String> = ks.iter().map(|k| k.to_scss()).collect();
                let removed = format!("{}({}, {})", fname(Func::MapRemove, m), map.to_scss(), keys.join(", "));
                let parts: Vec<String> = keys
                    .iter()
                    .map(|k| format!("{}({}({}), {})", fname(Func::Index, m), fname(Func::MapKeys, m), removed, k))
                    .collect();
                (parts.join(" or "), "null")
            }
        })
    }
}

const HEADER: &str = "@use \"sass:list\";\n@use \"sass:map\";\n@use \"sass:string\";\n";

fn sheet(decls: &[(String, String)]) -> String {
    let mut s = String::from(HEADER);
    s.push_str("a {\n");
    for (n, e) in decls {
        s.push_str(&format!("  {}: inspect({});\n", n, e));
    }
    s.push_str("}\n");
    s
}

/// exact declaration values of the expanded output, by property name (one declaration per line;
/// the generators produce no line breaks)
fn parse_out(css_text: &str) -> BTreeMap<String, String> {
    let mut m = BTreeMap::new();
    for line in css_text.lines() {
        let l = match line.strip_prefix("  ") {
            Some(l) => l,
            None => continue,
        };
        let (name, rest) = match l.split_once(':') {
            Some(x) => x,
            None => continue,
        };
        let ok_name = name.len() >= 2
            && matches!(name.as_bytes()[0], b'p' | b'q' | b'a')
            && name[1..].chars().all(|c| c.is_ascii_digit() || c == 'x');
        if !ok_name || !rest.ends_with(';') {
            continue;
        }
        let v = &rest[..rest.len() - 1];
        let v = v.strip_prefix(' ').unwrap_or(v);
        m.insert(name.to_string(), v.to_string());
    }
    m
}

/// token-level comparison (string contents instead of quote spelling, whitespace runs collapsed)
fn same_modulo_spelling(a: &str, b: &str) -> bool {
    let n = |s: &str| css::squeeze(&css::render(&css::tokenize(s)));
    n(a) == n(b)
}

// ------------------------------------------------------------------------------------------
// non-trivial rule
// ------------------------------------------------------------------------------------------

fn int_of(v: &Val) -> Option<i64> {
    match v {
        Val::Num { milli, .. } if milli % 1000 == 0 => Some(milli / 1000),
        _ => None,
    }
}

fn index_class(k: i64, len: usize) -> Option<&'static str> {
    let len = len as i64;
    if k < 0 {
        Some("nt:negative-index")
    } else if k == 0 || k == len || k == len + 1 {
        Some("nt:boundary-index")
    } else {
        None
    }
}

fn special_near(chars: &[char], pos1: i64) -> bool {
    // 1-based position; looks at the code points on both sides of the cut before `pos1`
    [pos1 - 2, pos1 - 1]
        .iter()
        .any(|&i| i >= 0 && (i as usize) < chars.len() && is_special(chars[i as usize]))
}

fn nontrivial_reasons(c: &Call) -> Vec<&'static str> {
    let mut out = vec![];
    let b = match B::bind(c.f, c) {
        Some(b) => b,
        None => return out,
    };
    let p = &b.params;
    match c.f {
        Func::Nth | Func::SetNth => {
            if let Some(k) = int_of(&p[1]) {
                out.extend(index_class(k, p[0].as_list().len()));
            }
        }
        Func::StrSlice | Func::StrInsert => {
            if let Val::Str { text, .. } = &p[0] {
                let chars: Vec<char> = text.chars().collect();
                let idxs: Vec<&Val> = if c.f == Func::StrSlice { vec![&p[1], &p[2]] } else { vec![&p[2]] };
                for (n, iv) in idxs.iter().enumerate() {
                    if let Some(k) = int_of(iv) {
                        if let Some(cl) = index_class(k, chars.len()) {
                            if !out.contains(&cl) {
                                out.push(cl);
                            }
                        }
                        let pos = if k < 0 { chars.len() as i64 + k + 1 } else { k };
                        // the cut is before `pos` for a start / insert position, after it for an end
                        let cut = if c.f == Func::StrSlice && n == 1 { pos + 1 } else { pos };
                        let cut = if c.f == Func::StrInsert && k < 0 { pos + 1 } else { cut };
                        if special_near(&chars, cut) && !out.contains(&"nt:special-char-at-boundary") {
                            out.push("nt:special-char-at-boundary");
                        }
                    }
                }
            }
        }
        Func::StrIndex => {
            if let (Val::Str { text: s, .. }, Val::Str { text: t, .. }) = (&p[0], &p[1]) {
                if !t.is_empty() {
                    if let Some(bi) = s.find(t.as_str()) {
                        let pre: Vec<char> = s[..bi].chars().collect();
                        let first = t.chars().next().map(is_special).unwrap_or(false);
                        if pre.last().map(|c| is_special(*c)).unwrap_or(false) || first {
                            out.push("nt:special-char-at-boundary");
                        }
                    }
                }
            }
        }
        Func::StrSplit => {
            if let (Val::Str { text: s, .. }, Val::Str { text: t, .. }) = (&p[0], &p[1]) {
                if !t.is_empty() {
                    if let Some(bi) = s.find(t.as_str()) {
                        let pre = s[..bi].chars().last().map(is_special).unwrap_or(false);
                        let post = s[bi + t.len()..].chars().next().map(is_special).unwrap_or(false);
                        let inside = t.chars().any(is_special);
                        if pre || post || inside {
                            out.push("nt:special-char-at-boundary");
                        }
                    }
                }
            }
        }
        Func::StrLength => {
            if let Val::Str { text, .. } = &p[0] {
                if text.chars().any(is_special) {
                    out.push("nt:special-char-at-boundary");
                }
            }
        }
        Func::MapGet | Func::MapHasKey | Func::MapDeepRemove => {
            if !b.rest.is_empty() {
                out.push("nt:nested-keys");
            }
        }
        Func::MapMerge | Func::MapSet => {
            if b.overload == 1 && b.rest.len() >= 3 {
                out.push("nt:nested-keys");
            }
        }
        Func::MapDeepMerge => {
            if let (Val::Map(a), Val::Map(bm)) = (&p[0], &p[1]) {
                let shared = a.iter().any(|(k, v)| {
                    matches!(v, Val::Map(_))
                        && bm.iter().any(|(k2, v2)| k.sass_eq(k2) && matches!(v2, Val::Map(_)))
                });
                if shared {
                    out.push("nt:nested-keys");
                }
            }
        }
        _ => {}
    }
    if matches!(
        c.f,
        Func::Join | Func::Append | Func::Zip | Func::SetNth | Func::Index | Func::Nth | Func::Length | Func::ListSeparator
    ) {
        let mut seps = vec![];
        for a in c.all_args() {
            a.separators(&mut seps);
        }
        if seps.len() >= 2 {
            out.push("nt:mixed-separators");
        }
    }
    out
}

// ------------------------------------------------------------------------------------------
// the check
// ------------------------------------------------------------------------------------------

enum Want {
    /// must compile; `p` row must be one of these texts (empty vec: only "must not fail")
    Texts(Vec<String>),
    /// must fail, in both spellings
    Error,
    /// may fail; if it compiles the `p` row must be one of these (empty: unasserted)
    Maybe(Vec<String>),
}

struct Plan {
    /// name for signatures: function or law
    name: String,
    is_law: bool,
    /// primary expression (global alias where there is one)
    p: String,
    /// module spelling, when the primary one is the global alias
    q: Option<String>,
    args: Vec<(String, Option<String>)>,
    want: Want,
    /// inside the region of a known finding (only judged in replay mode)
    region: Option<&'static str>,
}

/// Regions of confirmed findings (see FINDINGS.md): excluded from the search by construction,
/// judged only when a saved case is replayed.
/// findings repaired in /repo by `fix:` commits: their regions are searched again
pub const REPAIRED_REGIONS: &[&str] = &["map-set-arity", "append-map", "empty-map-separator", "split-empty-separator"];

fn known_region(item: &Item) -> Option<&'static str> {
    match item {
        Item::Law { law: Law::AppendLength { l: Val::Map(_), .. }, .. } => Some("append-map"),
        Item::Law { .. } => None,
        Item::Call(c) => {
            // a name that no overload can accept after the positional arguments
            let names_ok = c.f.signatures().iter().any(|s| {
                c.named.iter().enumerate().all(|(i, (n, _))| {
                    s.params.iter().position(|(pn, _)| pn == n).map_or(false, |k| k >= c.pos.len())
                        && !c.named[..i].iter().any(|(n2, _)| n2 == n)
                })
            });
            if !names_ok {
                return Some("argument-names");
            }
            match c.f {
                Func::MapSet if c.pos.len() + c.named.len() < 3 => Some("map-set-arity"),
                Func::Append => match B::bind(c.f, c) {
                    Some(b) if matches!(&b.params[0], Val::Map(_)) => Some("append-map"),
                    _ => None,
                },
                Func::ListSeparator | Func::Join => match B::bind(c.f, c) {
                    Some(b)
                        if b.params.iter().take(2).any(|v| matches!(v, Val::Map(m) if m.is_empty())) =>
                    {
                        Some("empty-map-separator")
                    }
                    _ => None,
                },
                Func::StrSplit => match B::bind(c.f, c) {
                    Some(b)
                        if matches!(&b.params[1], Val::Str { text, .. } if text.is_empty())
                            && matches!(&b.params[0], Val::Str { text, .. } if !text.is_empty()) =>
                    {
                        Some("split-empty-separator")
                    }
                    _ => None,
                },
                _ => None,
            }
        }
    }
}

fn texts(vs: &[Val]) -> Vec<String> {
    if vs.iter().all(|v| v.inspect_specified()) {
        vs.iter().map(|v| v.inspect()).collect()
    } else {
        vec![]
    }
}

fn plan(item: &Item, cx: &mut Ctx) -> Option<Plan> {
    let region = known_region(item);
    if let Some(r) = region {
        if REPAIRED_REGIONS.contains(&r) {
            cx.class(&format!("region of repaired finding searched: {}", r));
        } else if !cx.replay {
            cx.excluded(&format!("{} (known finding)", r));
            return None;
        }
    }
    match item {
        Item::Law { law, module } => {
            let (expr, want) = law.expr(*module)?;
            cx.class(&format!("law:{}", law.name()));
            Some(Plan {
                name: law.name().to_string(),
                is_law: true,
                p: expr,
                q: None,
                args: vec![],
                want: Want::Texts(vec![want.to_string()]),
                region,
            })
        }
        Item::Call(c) => {
            let e = B::eval(c);
            let want = match &e {
                Expect::Value(v) => {
                    cx.class(if v.inspect_specified() { "expect:value" } else { "expect:value(inspect unasserted)" });
                    Want::Texts(texts(std::slice::from_ref(v)))
                }
                Expect::OneOf(vs) => {
                    cx.class("expect:one-of");
                    Want::Texts(texts(vs))
                }
                Expect::Error => {
                    cx.class("expect:error");
                    Want::Error
                }
                Expect::ErrorOr(v) => {
                    cx.class("expect:error-or-value");
                    Want::Maybe(texts(std::slice::from_ref(v)))
                }
                Expect::Unspecified(why) => {
                    cx.class(&format!("expect:unspecified:{}", why));
                    Want::Maybe(vec![])
                }
            };
            cx.class(&format!("fn:{}", c.f.short()));
            cx.class(match (c.pos.is_empty(), c.named.is_empty()) {
                (_, true) => "pass:positional",
                (true, false) => "pass:named",
                (false, false) => "pass:mixed",
            });
            for a in c.all_args() {
                if let Val::List { items, sep, bracketed } = a {
                    cx.class(&format!(
                        "arg-list:{}{}",
                        sep.name(),
                        if *bracketed { "+bracketed" } else { "" }
                    ));
                    cx.class(&format!("arg-list-len:{}", items.len()));
                }
                if let Val::Str { text, .. } = a {
                    if text.chars().any(V::is_astral) {
                        cx.class("arg-str:astral");
                    }
                    if text.chars().any(V::is_combining) {
                        cx.class("arg-str:combining");
                    }
                    if text.chars().any(|c| V::is_multibyte(c) && !is_special(c)) {
                        cx.class("arg-str:multibyte-bmp");
                    }
                }
                if let Val::Map(m) = a {
                    if m.iter().any(|(_, v)| matches!(v, Val::Map(_))) {
                        cx.class("arg-map:nested");
                    }
                }
            }
            let reasons = nontrivial_reasons(c);
            for r in &reasons {
                cx.class(r);
            }
            if !reasons.is_empty() {
                cx.nontrivial(&c.module_scss());
                cx.sample_nontrivial(|| json!({"call": c.module_scss(), "expect": format!("{:?}", e), "why": reasons}));
            } else {
                cx.sample(|| json!({"call": c.module_scss(), "expect": format!("{:?}", e)}));
            }
            let (p, q) = match c.global_scss() {
                Some(g) => (g, Some(c.module_scss())),
                None => (c.module_scss(), None),
            };
            let args = c
                .all_args()
                .iter()
                .map(|a| (a.to_scss(), if a.inspect_specified() { Some(a.inspect()) } else { None }))
                .collect();
            Some(Plan { name: c.f.short().to_string(), is_law: false, p, q, args, want, region })
        }
    }
}

enum Run {
    Rows(BTreeMap<String, String>),
    Err(String),
    Abnormal,
}

fn run(cx: &mut Ctx, text: String) -> Run {
    let r = cx.compile(&Single::scss(text));
    match r.outcome {
        Outcome::Css(c) => Run::Rows(parse_out(&c)),
        Outcome::Error(e) => Run::Err(e.message),
        _ => Run::Abnormal,
    }
}

fn fail(sig: String, what: String, item: &Item, plan: &Plan, extra: serde_json::Value) -> Verdict {
    let sig = match plan.region {
        Some(r) => format!("known-region/{}/{}", r, sig),
        None => sig,
    };
    Verdict::Fail(Failure::new(
        sig,
        what,
        json!({"expression": plan.p, "module_form": plan.q, "item": item, "more": extra}),
    ))
}

/// judge the rows of item `i` (its declarations are named p<i>, q<i>, a<i>x<j>)
fn judge_rows(i: usize, item: &Item, pl: &Plan, rows: &BTreeMap<String, String>, wanted: &[String]) -> Option<Verdict> {
    if let Some(v) = judge_args_only(i, item, pl, rows) {
        return Some(v);
    }
    let got = rows.get(&format!("p{}", i)).cloned().unwrap_or_default();
    if !wanted.is_empty() && !wanted.iter().any(|w| *w == got) {
        let kind = if pl.is_law {
            "law"
        } else if wanted.iter().any(|w| same_modulo_spelling(w, &got)) {
            "spelling"
        } else {
            "value"
        };
        return Some(fail(
            format!("{}:{}", kind, pl.name),
            format!("inspect({}) = {:?}, expected {:?}", pl.p, got, wanted),
            item,
            pl,
            json!({"observed": got, "expected": wanted}),
        ));
    }
    if let Some(q) = &pl.q {
        let gq = rows.get(&format!("q{}", i)).cloned().unwrap_or_default();
        if gq != got {
            return Some(fail(
                format!("alias:{}", pl.name),
                format!("{} = {:?} but {} = {:?}", pl.p, got, q, gq),
                item,
                pl,
                json!({"global": got, "module": gq}),
            ));
        }
    }
    None
}

fn decls_for(i: usize, pl: &Plan, with_call: bool) -> Vec<(String, String)> {
    let mut d = vec![];
    for (j, (src, _)) in pl.args.iter().enumerate() {
        d.push((format!("a{}x{}", i, j), src.clone()));
    }
    if with_call {
        d.push((format!("p{}", i), pl.p.clone()));
        if let Some(q) = &pl.q {
            d.push((format!("q{}", i), q.clone()));
        }
    }
    d
}

impl Prop for C14 {
    type Case = Case;
    fn id(&self) -> &'static str {
        "C14"
    }
    fn rule(&self) -> String {
        "a case is a batch of 1..=24 items; 90 % are single calls of one of the 27 list/map/string built-ins with arguments from the value generator V (lists of length 0-6 in every separator/bracket combination, maps with nested maps and key paths that mostly follow existing keys, quoted/unquoted strings over ASCII + multi-byte + combining + astral code points, indices in [-8,8] weighted to the boundaries of the argument's length, 5 % non-integers, 5 % with units), passed positionally, by name or mixed; 20 % of the calls are then damaged (argument replaced by a random value, argument dropped/added, unknown or duplicate name); 10 % are instances of the reference-free laws. Every call is evaluated as `inspect(call)` in a declaration, with its global name and its module name, and compared with the reference implementation (value -> exact inspect text; error -> both spellings must fail; undocumented combination -> only alias agreement). A call is non-trivial if it has a negative or boundary index (0, len, len+1), a non-BMP or combining character next to the position used, a key path of length >= 2, or list arguments with two or more different separators; distinct = distinct call text.".into()
    }
    fn assumptions(&self) -> Vec<String> {
        vec![
            "dart-sass 1.54 inspect spelling: `(x,)`/`[x,]` for single-element comma lists, nested lists parenthesised by separator precedence, strings double-quoted unless they contain only double quotes".into(),
            "where the documentation is silent (indices with units, `[]` used as a map, deep-remove along a missing path, deep-merge over nested `()`, str-index of \"\", split of \"\" / with a trailing separator / with an empty separator and a limit, inspect of single-element slash lists) nothing but alias agreement is asserted; counted as expect:unspecified / expect:error-or-value".into(),
            "string.split (added after dart-sass 1.54) is judged by the Sass documentation and specification".into(),
        ]
    }
    fn strategy(&self, tier: Tier) -> Option<(BoxedStrategy<Case>, u32)> {
        let s = proptest::collection::vec(item(), 1..=24).prop_map(|items| Case { items }).boxed();
        // ~12.5 calls per case
        Some((s, tier.pick(8_000, 160_000)))
    }
    fn check(&self, case: &Case, cx: &mut Ctx) -> Verdict {
        let plans: Vec<Option<Plan>> = case.items.iter().map(|it| plan(it, cx)).collect();
        cx.add_evaluations(case.items.len().saturating_sub(1) as u64);

        // ---- one stylesheet with every argument and every call that must succeed ----
        let mut decls = vec![];
        for (i, pl) in plans.iter().enumerate() {
            if let Some(pl) = pl {
                decls.extend(decls_for(i, pl, matches!(pl.want, Want::Texts(_))));
            }
        }
        match run(cx, sheet(&decls)) {
            Run::Abnormal => {
                cx.inconclusive("abnormal-outcome-in-batch");
                return Verdict::Discard;
            }
            Run::Rows(rows) => {
                for (i, pl) in plans.iter().enumerate() {
                    if let Some(pl) = pl {
                        let v = match &pl.want {
                            Want::Texts(t) => judge_rows(i, &case.items[i], pl, &rows, t),
                            _ => judge_args_only(i, &case.items[i], pl, &rows),
                        };
                        if let Some(v) = v {
                            return v;
                        }
                    }
                }
            }
            Run::Err(_) => {
                // find the first item that does not compile on its own
                for (i, pl) in plans.iter().enumerate() {
                    let pl = match pl {
                        Some(p) => p,
                        None => continue,
                    };
                    if !pl.args.is_empty() {
                        match run(cx, sheet(&decls_for(i, pl, false))) {
                            Run::Err(m) => {
                                return fail(
                                    "roundtrip-error".into(),
                                    format!("an argument of {} does not compile: {}", pl.p, m),
                                    &case.items[i],
                                    pl,
                                    json!({"error": m}),
                                )
                            }
                            Run::Abnormal => {
                                cx.inconclusive("abnormal-outcome");
                                return Verdict::Discard;
                            }
                            Run::Rows(_) => {}
                        }
                    }
                    if let Want::Texts(wanted) = &pl.want {
                        match run(cx, sheet(&[(format!("p{}", i), pl.p.clone())])) {
                            Run::Err(m) => {
                                return fail(
                                    format!("unexpected-error:{}", pl.name),
                                    format!("{} fails ({}), expected {:?}", pl.p, m, wanted),
                                    &case.items[i],
                                    pl,
                                    json!({"error": m, "expected": wanted}),
                                )
                            }
                            Run::Abnormal => {
                                cx.inconclusive("abnormal-outcome");
                                return Verdict::Discard;
                            }
                            Run::Rows(_) => {}
                        }
                        if let Some(q) = &pl.q {
                            if let Run::Err(m) = run(cx, sheet(&[(format!("q{}", i), q.clone())])) {
                                return fail(
                                    format!("alias-error:{}", pl.name),
                                    format!("{} compiles but {} fails ({})", pl.p, q, m),
                                    &case.items[i],
                                    pl,
                                    json!({"error": m}),
                                );
                            }
                        }
                    }
                }
                // every item compiles alone but the batch does not: not a property of any call
                cx.inconclusive("batch-fails-items-pass");
                return Verdict::Discard;
            }
        }

        // ---- calls that must or may fail: one compile per spelling, all in one worker job ----
        let mut steps = vec![];
        for (i, pl) in plans.iter().enumerate() {
            if let Some(pl) = pl {
                if matches!(pl.want, Want::Texts(_)) {
                    continue;
                }
                steps.push(Single::scss(sheet(&[(format!("p{}", i), pl.p.clone())])));
                if let Some(q) = &pl.q {
                    steps.push(Single::scss(sheet(&[(format!("q{}", i), q.clone())])));
                }
            }
        }
        let mut results = if steps.is_empty() {
            vec![].into_iter()
        } else {
            cx.run_job(&Job { steps, storm: vec![] }).into_iter()
        };
        let mut next = move || -> Run {
            match results.next().map(|r| r.outcome) {
                Some(Outcome::Css(c)) => Run::Rows(parse_out(&c)),
                Some(Outcome::Error(e)) => Run::Err(e.message),
                _ => Run::Abnormal,
            }
        };
        for (i, pl) in plans.iter().enumerate() {
            let pl = match pl {
                Some(p) => p,
                None => continue,
            };
            let (must_fail, wanted): (bool, &[String]) = match &pl.want {
                Want::Texts(_) => continue,
                Want::Error => (true, &[]),
                Want::Maybe(t) => (false, t),
            };
            let rp = next();
            let rq = pl.q.as_ref().map(|_| next());
            if matches!(rp, Run::Abnormal) || matches!(rq, Some(Run::Abnormal)) {
                cx.inconclusive("abnormal-outcome");
                return Verdict::Discard;
            }
            let item = &case.items[i];
            match (&rp, &rq) {
                (Run::Rows(a), Some(Run::Rows(b))) => {
                    let (ga, gb) = (
                        a.get(&format!("p{}", i)).cloned().unwrap_or_default(),
                        b.get(&format!("q{}", i)).cloned().unwrap_or_default(),
                    );
                    if ga != gb && !must_fail {
                        return fail(
                            format!("alias:{}", pl.name),
                            format!("{} = {:?} but {:?} = {:?}", pl.p, ga, pl.q, gb),
                            item,
                            pl,
                            json!({"global": ga, "module": gb}),
                        );
                    }
                }
                (Run::Rows(_), Some(Run::Err(m))) | (Run::Err(m), Some(Run::Rows(_))) => {
                    return fail(
                        format!("alias-error:{}", pl.name),
                        format!("exactly one of {} / {:?} fails ({})", pl.p, pl.q, m),
                        item,
                        pl,
                        json!({"error": m}),
                    );
                }
                _ => {}
            }
            match &rp {
                Run::Rows(a) => {
                    let got = a.get(&format!("p{}", i)).cloned().unwrap_or_default();
                    if must_fail {
                        return fail(
                            format!("missing-error:{}", pl.name),
                            format!("{} = {:?}, expected an error", pl.p, got),
                            item,
                            pl,
                            json!({"observed": got}),
                        );
                    }
                    cx.class("maybe:accepted");
                    if !wanted.is_empty() && !wanted.iter().any(|w| *w == got) {
                        let kind = if wanted.iter().any(|w| same_modulo_spelling(w, &got)) { "spelling" } else { "value" };
                        return fail(
                            format!("{}:{}", kind, pl.name),
                            format!("inspect({}) = {:?}, expected an error or {:?}", pl.p, got, wanted),
                            item,
                            pl,
                            json!({"observed": got, "expected": wanted}),
                        );
                    }
                }
                Run::Err(_) => {
                    if !must_fail {
                        cx.class("maybe:rejected");
                    }
                }
                Run::Abnormal => {}
            }
        }
        Verdict::Pass
    }
}

/// items whose call is not in the batch still have their argument round trips there
fn judge_args_only(i: usize, item: &Item, pl: &Plan, rows: &BTreeMap<String, String>) -> Option<Verdict> {
    for (j, (src, exp)) in pl.args.iter().enumerate() {
        if let Some(exp) = exp {
            let got = rows.get(&format!("a{}x{}", i, j)).cloned().unwrap_or_default();
            if &got != exp {
                return Some(fail(
                    "roundtrip".into(),
                    format!("inspect({}) = {:?}, reference printer says {:?}", src, got, exp),
                    item,
                    pl,
                    json!({"argument": src, "observed": got, "expected": exp}),
                ));
            }
        }
    }
    None
}

//! C15 — colours keep channels in range and agree across spellings and colour spaces.
//!
//! One case = one stylesheet with many declarations (`a{p:…;p:…}`), compiled once in compressed
//! mode; every declaration has an expectation computed by `crate::oracle::color` (CSS Color 3/4
//! formulas, the independent name table, reference implementations from the Sass docs).

use crate::engine::*;
use crate::oracle::color::*;
use crate::oracle::css;
use proptest::prelude::*;
use serde::{Deserialize, Serialize};
use serde_json::json;

pub struct C15;

/// Finding #26 (`lightness()` of an RGB-defined colour is rounded to a whole percent).
/// `true`  = unrepaired tree: a `lightness()` result that equals the *rounded* CSS value (and the
///           HSL accessor round trip that breaks because of it) is reported under the specific
///           signature `C15/lightness-rounded-to-whole-percent` (listed in known_findings.json);
///           the round trip is additionally checked with the oracle's exact lightness so that
///           hue()/saturation()/hsl() stay covered.
/// `false` = after the repair: no special handling, any deviation is an ordinary violation
///           (`C15/accessor:lightness`, `C15/hsl-roundtrip`).
pub const LIGHTNESS_ROUNDING_KNOWN: bool = false;
pub const SIG_26: &str = "C15/lightness-rounded-to-whole-percent";

/// Finding #30 (found by this check): `mix()` — and `invert()` with a weight, which is defined
/// through mix — returns a colour whose stored channels are not rounded: it prints with integer
/// channels and `red()` etc. are integers, but it compares unequal to the colour with exactly those
/// channels (`mix(#000, #fff) == #808080` is false).
/// `true` = unrepaired: that exact symptom (prints fine, `==` to the colour rebuilt from its own
/// accessors is false) on a mix()/invert($weight) result is reported under `SIG_MIX`;
/// `false` = after the repair: ordinary violation `C15/mix-rebuild:not-equal`.
pub const MIX_UNROUNDED_KNOWN: bool = false;
pub const SIG_MIX: &str = "C15/mix-result-channels-not-rounded";

// ---------------------------------------------------------------------------------------------
// case
// ---------------------------------------------------------------------------------------------

#[derive(Clone, Copy, Debug, Serialize, Deserialize, PartialEq, Eq, Hash)]
pub enum Alpha {
    One,
    /// alpha = k/255, written as the last byte of an 8-digit hex literal
    Hex(u8),
    /// alpha = n/1000 (0..=1000), written as a decimal literal
    Milli(u16),
}

impl Alpha {
    pub fn value(self) -> f64 {
        match self {
            Alpha::One => 1.0,
            Alpha::Hex(k) => k as f64 / 255.0,
            Alpha::Milli(n) => n.min(1000) as f64 / 1000.0,
        }
    }
    /// Sass expression with exactly this value
    pub fn expr(self) -> String {
        match self {
            Alpha::One => "1".into(),
            Alpha::Hex(k) => format!("math.div({},255)", k),
            Alpha::Milli(n) => dec(n.min(1000) as i64 * 10),
        }
    }
    /// usable after a `/` in the space-separated syntaxes (a plain number literal)
    pub fn is_literal(self) -> bool {
        !matches!(self, Alpha::Hex(_))
    }
}

#[derive(Clone, Copy, Debug, Serialize, Deserialize, PartialEq, Eq, Hash)]
pub struct Col {
    pub r: u8,
    pub g: u8,
    pub b: u8,
    pub a: Alpha,
}

impl Col {
    pub fn rgba(&self) -> Rgba {
        Rgba { rgb: [self.r, self.g, self.b], a: self.a.value() }
    }
    pub fn hex6(&self) -> String {
        format!("#{:02x}{:02x}{:02x}", self.r, self.g, self.b)
    }
    /// canonical literal of the colour used as the subject of the laws
    pub fn lit(&self) -> String {
        match self.a {
            Alpha::One => self.hex6(),
            Alpha::Hex(k) => format!("{}{:02x}", self.hex6(), k),
            Alpha::Milli(_) => format!("rgba({},{},{},{})", self.r, self.g, self.b, self.a.expr()),
        }
    }
    pub fn from_u24(i: u32, a: Alpha) -> Col {
        Col { r: (i >> 16) as u8, g: (i >> 8) as u8, b: i as u8, a }
    }
}

/// a generated number in units of 1e-4 (printed as an exact decimal literal)
pub type Fx = i32;

/// decimal literal of n·1e-4 without exponent: `12.5`, `-0.0001`, `3`
pub fn dec(n: i64) -> String {
    let neg = n < 0;
    let m = n.unsigned_abs();
    let int = m / 10000;
    let frac = m % 10000;
    let mut s = if frac == 0 {
        format!("{}", int)
    } else {
        let f = format!("{:04}", frac);
        format!("{}.{}", int, f.trim_end_matches('0'))
    };
    if neg && m != 0 {
        s.insert(0, '-');
    }
    s
}

pub fn fxv(n: Fx) -> f64 {
    n as f64 / 10000.0
}

#[derive(Clone, Copy, Debug, Serialize, Deserialize, PartialEq, Eq, Hash)]
pub struct Arg {
    pub v: Fx,
    pub pct: bool,
}

impl Arg {
    fn text(&self) -> String {
        format!("{}{}", dec(self.v as i64), if self.pct { "%" } else { "" })
    }
}

#[derive(Clone, Debug, Serialize, Deserialize, PartialEq, Eq, Hash)]
pub enum Ctor {
    /// rgb()/rgba(): all three channels unitless (0..255) or all percentages
    Rgb { ch: [Fx; 3], pct: bool, alpha: Option<Arg>, form: u8 },
    /// hsl()/hsla(): hue unitless or deg, s/l percentages
    Hsl { h: Fx, deg: bool, s: Fx, l: Fx, alpha: Option<Arg>, form: u8 },
    /// color.hwb(): w/b percentages within [0,100] (outside is an error: see `ErrCase`)
    Hwb { h: Fx, deg: bool, w: Fx, b: Fx, alpha: Option<Arg>, form: u8 },
}

#[derive(Clone, Copy, Debug, Serialize, Deserialize, PartialEq, Eq, Hash)]
pub enum KwFn {
    Adjust,
    Scale,
    Change,
}

#[derive(Clone, Debug, Serialize, Deserialize, PartialEq, Eq, Hash)]
pub enum Op {
    /// color.adjust / color.scale / color.change (or the global *-color names) with keyword
    /// arguments [red, green, blue, hue, saturation, lightness, whiteness, blackness, alpha]
    Kw { col: Col, f: KwFn, global: bool, kw: [Option<Fx>; 9] },
    /// lighten darken saturate desaturate (amount in percent) adjust-hue (degrees)
    Hsl1 { col: Col, which: u8, amount: Fx },
    /// opacify / fade-in / transparentize / fade-out
    Opacity { col: Col, which: u8, amount: Fx },
    /// mix with an arbitrary weight: range + rebuild law only (0 % / 100 % are checked per colour)
    Mix { a: Col, b: Col, weight: Fx },
    /// invert with a weight
    Invert { col: Col, weight: Fx },
}

/// one real-valued colour written in two colour spaces with exactly equivalent decimal arguments
/// (kind 0: tint  hwb(h x% 0%) = hsl(h 100% (100+x)/2 %); kind 1: shade hwb(h 0% x%) =
/// hsl(h 100% (100-x)/2 %); kind 2: grey hsl(h 0% x%) = hwb(h x% (100-x)%) = rgb(x% x% x%)).
/// `x2` is x in units of 2e-4 percent so that the halves are exact decimals.
#[derive(Clone, Copy, Debug, Serialize, Deserialize, PartialEq, Eq, Hash)]
pub struct Twin {
    pub h: Fx,
    pub x2: i32,
    pub kind: u8,
}

#[derive(Clone, Debug, Serialize, Deserialize, PartialEq, Eq, Hash)]
pub enum Case {
    /// the 148 CSS names against the independent table
    Names,
    /// short-hex colours start..start+count (index = r<<8|g<<4|b nibbles), 3/4/6/8-digit spellings
    ShortHex { start: u16, count: u16 },
    /// all 256 alpha bytes of 8-digit hex and all 16 alpha nibbles of 4-digit hex
    AlphaBytes,
    /// consecutive 24-bit colours: HSL/HWB accessor round trips and accessor values
    Cube { start: u32, count: u32 },
    /// full law set per colour + constructor calls + function calls
    Batch {
        cols: Vec<Col>,
        ctors: Vec<Ctor>,
        ops: Vec<Op>,
        #[serde(default)]
        twins: Vec<Twin>,
        /// one call with an argument just outside its documented range (own compile; must be an error)
        #[serde(default)]
        reject: Option<String>,
    },
    /// an expression the documentation says must be rejected
    Reject { expr: String },
}

// ---------------------------------------------------------------------------------------------
// rows: one declaration each
// ---------------------------------------------------------------------------------------------

#[derive(Clone, Debug)]
struct NumExp {
    v: Option<f64>,
    unit: &'static str,
    /// compare modulo 360
    circular: bool,
    name: &'static str,
    /// value must additionally be an integer
    integer: bool,
    tol: f64,
    /// finding #26: also the value rounded to a whole number is tolerated under SIG_26
    rounded_known: bool,
}

fn num(name: &'static str, v: f64, unit: &'static str) -> NumExp {
    NumExp { v: Some(v), unit, circular: false, name, integer: false, tol: ACC_EPS, rounded_known: false }
}

#[derive(Clone, Debug)]
enum Expect {
    /// `<colour>` accepted by Exp
    Color(Exp),
    /// `<colour> <bool>`: colour accepted by Exp and the boolean is true
    ColorTrue(Exp),
    /// n booleans, all true
    AllTrue(usize),
    /// numbers with units
    Nums(Vec<NumExp>),
    /// n printed colours, textually identical, accepted by Exp
    Same(Exp, usize),
}

/// which element of the batch a row came from (to build a one-element replay case)
#[derive(Clone, Copy, Debug, PartialEq)]
enum Origin {
    None,
    Col(usize),
    Ctor(usize),
    Op(usize),
    Twin(usize),
}

#[derive(Clone, Debug)]
struct Rw {
    origin: Origin,
    expr: String,
    exp: Expect,
    /// name of the law (becomes part of the failure signature)
    law: &'static str,
    /// the hsl round trip through lightness(): a failure here is finding #26 when the const is on
    /// and the colour's lightness is not a whole percent
    via_lightness: Option<Rgba>,
}

fn rw(law: &'static str, expr: String, exp: Expect) -> Rw {
    Rw { origin: Origin::None, expr, exp, law, via_lightness: None }
}

const PRELUDE: &str = "@use \"sass:color\";\n@use \"sass:math\";\n\
@function t($e, $c) { @return $e ($e == $c); }\n\
@function u($e) { @return $e ($e == rgba(red($e), green($e), blue($e), alpha($e)) and lightness($e) >= 0% and lightness($e) <= 100% and saturation($e) >= 0% and saturation($e) <= 100% and lighten($e, 0%) == $e and darken($e, 0%) == $e); }\n";

/// number with up to 12 decimals, no exponent
fn f12(v: f64) -> String {
    let s = format!("{:.12}", v);
    let s = s.trim_end_matches('0').trim_end_matches('.').to_string();
    if s == "-0" || s.is_empty() {
        "0".into()
    } else {
        s
    }
}

fn exact(c: &Col) -> Exp {
    Exp::exact(c.rgba())
}

/// rows for one colour: the complete law set. `other` = partner for mix.
fn rows_for_color(c: &Col, other: &Col, out: &mut Vec<Rw>) {
    let m = c.rgba();
    let l = c.lit();
    let e = exact(c);
    let (h, s, li) = m.hsl();
    let (_, w, k) = m.hwb();
    let hv = h.unwrap_or(0.0);
    let a = c.a;
    let ax = a.expr();
    let hex = c.hex6();
    let (r, g, b) = (c.r, c.g, c.b);

    // channels: integers, alpha in range
    out.push(rw(
        "channels",
        format!("red({l}) green({l}) blue({l}) alpha({l}) opacity({l}) color.red({l}) color.alpha({l})"),
        Expect::Nums(vec![
            NumExp { integer: true, ..num("red", r as f64, "") },
            NumExp { integer: true, ..num("green", g as f64, "") },
            NumExp { integer: true, ..num("blue", b as f64, "") },
            NumExp { tol: ALPHA_EPS, ..num("alpha", m.a, "") },
            NumExp { tol: ALPHA_EPS, ..num("opacity", m.a, "") },
            NumExp { integer: true, ..num("color.red", r as f64, "") },
            NumExp { tol: ALPHA_EPS, ..num("color.alpha", m.a, "") },
        ]),
    ));

    // spellings
    let mut sp: Vec<String> = vec![];
    let hs = format!("{}, {}%, {}%", f12(hv), f12(s), f12(li));
    let hs_sp = format!("{}deg {}% {}%", f12(hv), f12(s), f12(li));
    let wb = format!("{}, {}%, {}%", f12(hv), f12(w), f12(k));
    let wb_sp = format!("{} {}% {}%", f12(hv), f12(w), f12(k));
    let pc = format!(
        "{}% {}% {}%",
        f12(r as f64 / 255.0 * 100.0),
        f12(g as f64 / 255.0 * 100.0),
        f12(b as f64 / 255.0 * 100.0)
    );
    match a {
        Alpha::One => {
            sp.push(hex.clone());
            sp.push(hex.to_ascii_uppercase());
            sp.push(format!("{hex}ff"));
            sp.push(format!("{}FF", hex.to_ascii_uppercase()));
            if m.is_short() {
                sp.push(format!("#{:x}{:x}{:x}", r / 17, g / 17, b / 17));
                sp.push(format!("#{:x}{:x}{:x}f", r / 17, g / 17, b / 17));
            }
            for n in names_of(m.rgb) {
                sp.push(n.to_string());
            }
            sp.push(format!("rgb({r}, {g}, {b})"));
            sp.push(format!("rgb({r} {g} {b})"));
            sp.push(format!("rgba({r}, {g}, {b}, 1)"));
            sp.push(format!("rgb({r} {g} {b} / 1)"));
            sp.push(format!("rgba({hex}, 1)"));
            sp.push(format!("rgb({pc})"));
            sp.push(format!("hsl({hs})"));
            sp.push(format!("hsl({hs_sp})"));
            sp.push(format!("hsla({hs}, 1)"));
            sp.push(format!("color.hwb({wb_sp})"));
            sp.push(format!("color.hwb({wb})"));
        }
        _ => {
            if let Alpha::Hex(kk) = a {
                sp.push(format!("{hex}{:02x}", kk));
                sp.push(format!("{}{:02X}", hex.to_ascii_uppercase(), kk));
                if m.is_short() && kk % 17 == 0 {
                    sp.push(format!("#{:x}{:x}{:x}{:x}", r / 17, g / 17, b / 17, kk / 17));
                }
            }
            sp.push(format!("rgba({r}, {g}, {b}, {ax})"));
            sp.push(format!("rgb({r}, {g}, {b}, {ax})"));
            sp.push(format!("rgba({hex}, {ax})"));
            sp.push(format!("hsla({hs}, {ax})"));
            sp.push(format!("hsl({hs}, {ax})"));
            sp.push(format!("color.hwb({wb}, {ax})"));
            if a.is_literal() {
                sp.push(format!("rgb({r} {g} {b} / {ax})"));
                sp.push(format!("rgba({pc} / {ax})"));
                sp.push(format!("hsl({hs_sp} / {ax})"));
                sp.push(format!("color.hwb({wb_sp} / {ax})"));
            }
        }
    }
    let n = sp.len();
    out.push(rw("spellings-print", sp.join(" "), Expect::Same(e, n)));
    out.push(rw(
        "spellings-equal",
        sp.iter().map(|x| format!("({} == {})", x, l)).collect::<Vec<_>>().join(" "),
        Expect::AllTrue(n),
    ));

    // accessors vs the CSS formulas
    let mut acc = vec![];
    if let Some(hh) = h {
        acc.push(NumExp { circular: true, ..num("hue", hh, "deg") });
    } else {
        // achromatic: hue is powerless in CSS; only demand a number of degrees
        acc.push(NumExp { v: None, ..num("hue", 0.0, "deg") });
    }
    acc.push(num("saturation", s, "%"));
    acc.push(NumExp { rounded_known: true, ..num("lightness", li, "%") });
    acc.push(num("whiteness", w, "%"));
    acc.push(num("blackness", k, "%"));
    out.push(rw(
        "accessor",
        format!("hue({l}) saturation({l}) lightness({l}) color.whiteness({l}) color.blackness({l})"),
        Expect::Nums(acc),
    ));

    // round trips through the accessors
    let mut rt = rw(
        "hsl-roundtrip",
        format!("t(hsla(hue({l}), saturation({l}), lightness({l}), alpha({l})), {l})"),
        Expect::ColorTrue(e),
    );
    rt.via_lightness = Some(m);
    out.push(rt);
    if LIGHTNESS_ROUNDING_KNOWN {
        out.push(rw(
            "hsl-roundtrip-exact-lightness",
            format!("t(hsla(hue({l}), saturation({l}), {}%, alpha({l})), {l})", f12(li)),
            Expect::ColorTrue(e),
        ));
    }
    out.push(rw(
        "hwb-roundtrip",
        format!("t(color.hwb(hue({l}), color.whiteness({l}), color.blackness({l}), alpha({l})), {l})"),
        Expect::ColorTrue(e),
    ));

    // identities
    for (law, ex) in [
        ("invert-twice", format!("invert(invert({l}))")),
        ("invert-twice", format!("color.invert(color.invert({l}, 100%), 100%)")),
        ("complement-twice", format!("complement(complement({l}))")),
        ("lighten-0", format!("lighten({l}, 0%)")),
        ("darken-0", format!("darken({l}, 0%)")),
        ("saturate-0", format!("saturate({l}, 0%)")),
        ("desaturate-0", format!("desaturate({l}, 0%)")),
        ("adjust-hue-0", format!("adjust-hue({l}, 0deg)")),
        ("adjust-hue-0", format!("adjust-hue({l}, 0)")),
        ("adjust-hue-360", format!("adjust-hue({l}, 360deg)")),
        ("invert-weight-0", format!("invert({l}, 0%)")),
        ("opacify-0", format!("opacify({l}, 0)")),
        ("transparentize-0", format!("transparentize({l}, 0)")),
        ("adjust-color-none", format!("adjust-color({l})")),
        ("scale-color-0", format!("scale-color({l}, $lightness: 0%, $saturation: 0%)")),
        ("change-color-same", format!("change-color({l}, $red: {r}, $green: {g}, $blue: {b})")),
    ] {
        out.push(rw(law, format!("t({ex}, {l})"), Expect::ColorTrue(e)));
    }
    // invert once: channels 255-c, alpha kept
    out.push(rw(
        "invert",
        format!("u(invert({l}))"),
        Expect::ColorTrue(Exp::exact(Rgba { rgb: [255 - r, 255 - g, 255 - b], a: m.a })),
    ));

    // mix with weight 0 / 100
    let ol = other.lit();
    out.push(rw("mix-0", format!("t(mix({l}, {ol}, 0%), {ol})"), Expect::ColorTrue(exact(other))));
    out.push(rw("mix-100", format!("t(mix({l}, {ol}, 100%), {l})"), Expect::ColorTrue(e)));

    // opacify / transparentize clamp: amounts that stay inside, hit and cross the bound
    let av = m.a;
    for (i, amt) in [1000i64, 5000, 10000].iter().enumerate() {
        let x = *amt as f64 / 10000.0;
        let f_in = if i % 2 == 0 { "opacify" } else { "fade-in" };
        let f_out = if i % 2 == 0 { "transparentize" } else { "fade-out" };
        out.push(rw(
            "opacify-clamp",
            format!("u({f_in}({l}, {}))", dec(*amt)),
            Expect::ColorTrue(Exp::exact(Rgba { rgb: m.rgb, a: clamp(av + x, 0.0, 1.0) })),
        ));
        out.push(rw(
            "transparentize-clamp",
            format!("u({f_out}({l}, {}))", dec(*amt)),
            Expect::ColorTrue(Exp::exact(Rgba { rgb: m.rgb, a: clamp(av - x, 0.0, 1.0) })),
        ));
    }
}

fn alpha_text(a: &Option<Arg>) -> (String, f64) {
    match a {
        None => ("1".into(), 1.0),
        Some(x) => {
            let v = if x.pct { fxv(x.v) / 100.0 } else { fxv(x.v) };
            (x.text(), clamp(v, 0.0, 1.0))
        }
    }
}

fn rows_for_ctor(c: &Ctor, out: &mut Vec<Rw>) {
    match c {
        Ctor::Rgb { ch, pct, alpha, form } => {
            let t: Vec<String> = ch.iter().map(|v| Arg { v: *v, pct: *pct }.text()).collect();
            let (at, av) = alpha_text(alpha);
            let expr = match (alpha.is_some(), form % 4) {
                (false, 0) => format!("rgb({}, {}, {})", t[0], t[1], t[2]),
                (false, 1) => format!("rgb({} {} {})", t[0], t[1], t[2]),
                (false, 2) => format!("rgba({}, {}, {})", t[0], t[1], t[2]),
                (false, _) => format!("rgba({} {} {})", t[0], t[1], t[2]),
                (true, 0) => format!("rgba({}, {}, {}, {})", t[0], t[1], t[2], at),
                (true, 1) => format!("rgb({} {} {} / {})", t[0], t[1], t[2], at),
                (true, 2) => format!("rgb({}, {}, {}, {})", t[0], t[1], t[2], at),
                (true, _) => format!("rgba({} {} {} / {})", t[0], t[1], t[2], at),
            };
            let real: Vec<f64> = ch
                .iter()
                .map(|v| if *pct { clamp(fxv(*v), 0.0, 100.0) * 255.0 / 100.0 } else { clamp(fxv(*v), 0.0, 255.0) })
                .collect();
            out.push(rw(
                "ctor-rgb",
                format!("u({})", expr),
                Expect::ColorTrue(Exp::from_255([real[0], real[1], real[2]], av)),
            ));
        }
        Ctor::Hsl { h, deg, s, l, alpha, form } => {
            let ht = format!("{}{}", dec(*h as i64), if *deg { "deg" } else { "" });
            let (st, lt) = (format!("{}%", dec(*s as i64)), format!("{}%", dec(*l as i64)));
            let (at, av) = alpha_text(alpha);
            let expr = match (alpha.is_some(), form % 4) {
                (false, 0) => format!("hsl({}, {}, {})", ht, st, lt),
                (false, 1) => format!("hsl({} {} {})", ht, st, lt),
                (false, 2) => format!("hsla({}, {}, {})", ht, st, lt),
                (false, _) => format!("hsla({} {} {})", ht, st, lt),
                (true, 0) => format!("hsla({}, {}, {}, {})", ht, st, lt, at),
                (true, 1) => format!("hsl({} {} {} / {})", ht, st, lt, at),
                (true, 2) => format!("hsl({}, {}, {}, {})", ht, st, lt, at),
                (true, _) => format!("hsla({} {} {} / {})", ht, st, lt, at),
            };
            let u = hsl_to_rgb(fxv(*h), clamp(fxv(*s), 0.0, 100.0), clamp(fxv(*l), 0.0, 100.0));
            out.push(rw("ctor-hsl", format!("u({})", expr), Expect::ColorTrue(Exp::from_unit(u, av))));
        }
        Ctor::Hwb { h, deg, w, b, alpha, form } => {
            let ht = format!("{}{}", dec(*h as i64), if *deg { "deg" } else { "" });
            let (wt, bt) = (format!("{}%", dec(*w as i64)), format!("{}%", dec(*b as i64)));
            let (at, av) = alpha_text(alpha);
            let expr = match (alpha.is_some(), form % 2) {
                (false, 0) => format!("color.hwb({} {} {})", ht, wt, bt),
                (false, _) => format!("color.hwb({}, {}, {})", ht, wt, bt),
                (true, 0) => format!("color.hwb({} {} {} / {})", ht, wt, bt, at),
                (true, _) => format!("color.hwb({}, {}, {}, {})", ht, wt, bt, at),
            };
            let u = hwb_to_rgb(fxv(*h), clamp(fxv(*w), 0.0, 100.0), clamp(fxv(*b), 0.0, 100.0));
            out.push(rw("ctor-hwb", format!("u({})", expr), Expect::ColorTrue(Exp::from_unit(u, av))));
        }
    }
}

fn rows_for_twin(t: &Twin, out: &mut Vec<Rw>) {
    let x = (t.x2.clamp(0, 500_000) as i64) * 2; // 1e-4 units, even
    let h = dec(t.h as i64);
    let (sp, u): (Vec<String>, [f64; 3]) = match t.kind % 3 {
        0 => {
            let l = (1_000_000 + x) / 2;
            (
                vec![
                    format!("color.hwb({h} {}% 0%)", dec(x)),
                    format!("hsl({h}, 100%, {}%)", dec(l)),
                    format!("color.hwb({h}deg, {}%, 0%)", dec(x)),
                    format!("hsl({h}deg 100% {}%)", dec(l)),
                ],
                hwb_to_rgb(fxv(t.h), x as f64 / 10000.0, 0.0),
            )
        }
        1 => {
            let l = (1_000_000 - x) / 2;
            (
                vec![
                    format!("color.hwb({h} 0% {}%)", dec(x)),
                    format!("hsl({h}, 100%, {}%)", dec(l)),
                    format!("color.hwb({h}deg, 0%, {}%)", dec(x)),
                    format!("hsl({h}deg 100% {}%)", dec(l)),
                ],
                hwb_to_rgb(fxv(t.h), 0.0, x as f64 / 10000.0),
            )
        }
        _ => {
            let g = x as f64 / 10000.0 / 100.0;
            (
                vec![
                    format!("hsl({h}, 0%, {}%)", dec(x)),
                    format!("color.hwb({h} {}% {}%)", dec(x), dec(1_000_000 - x)),
                    format!("rgb({0}%, {0}%, {0}%)", dec(x)),
                    format!("rgb({0}% {0}% {0}%)", dec(x)),
                ],
                [g, g, g],
            )
        }
    };
    let e = Exp::from_unit(u, 1.0);
    let n = sp.len();
    out.push(rw("twin-print", sp.join(" "), Expect::Same(e, n)));
    out.push(rw(
        "twin-equal",
        sp.iter().map(|a| format!("({} == {})", a, sp[0])).collect::<Vec<_>>().join(" "),
        Expect::AllTrue(n),
    ));
}

pub const KW_NAMES: [&str; 9] = ["red", "green", "blue", "hue", "saturation", "lightness", "whiteness", "blackness", "alpha"];

fn kw_text(f: KwFn, kw: &[Option<Fx>; 9]) -> String {
    let mut parts = vec![];
    for (i, v) in kw.iter().enumerate() {
        if let Some(v) = v {
            let unit = match (f, i) {
                (KwFn::Scale, _) => "%",
                (_, 0..=2) | (_, 8) => "",
                (_, 3) => "deg",
                _ => "%",
            };
            parts.push(format!("${}: {}{}", KW_NAMES[i], dec(*v as i64), unit));
        }
    }
    parts.join(", ")
}

fn kw_model(f: KwFn, kw: &[Option<Fx>; 9]) -> Kw {
    let g = |i: usize| kw[i].map(fxv);
    let mut k = Kw {
        red: g(0),
        green: g(1),
        blue: g(2),
        hue: g(3),
        saturation: g(4),
        lightness: g(5),
        whiteness: g(6),
        blackness: g(7),
        alpha: g(8),
    };
    if f == KwFn::Scale {
        // alpha is a percentage of the 0..1 scale: handled by scale_value with max 1
        k.alpha = g(8);
    }
    k
}

/// legal ranges from the documentation (inclusive), in natural units
fn kw_in_range(f: KwFn, i: usize, v: f64) -> bool {
    match f {
        KwFn::Scale => i != 3 && (-100.0..=100.0).contains(&v),
        KwFn::Adjust => match i {
            0..=2 => (-255.0..=255.0).contains(&v),
            3 => true,
            8 => (-1.0..=1.0).contains(&v),
            _ => (-100.0..=100.0).contains(&v),
        },
        KwFn::Change => match i {
            0..=2 => (0.0..=255.0).contains(&v),
            3 => true,
            8 => (0.0..=1.0).contains(&v),
            _ => (0.0..=100.0).contains(&v),
        },
    }
}

/// Some(expression, expectation) if the call is legal per the documentation; None otherwise
fn op_expr(op: &Op) -> (String, Option<(Exp, &'static str)>) {
    match op {
        Op::Kw { col, f, global, kw } => {
            let name = match (f, global) {
                (KwFn::Adjust, true) => "adjust-color",
                (KwFn::Scale, true) => "scale-color",
                (KwFn::Change, true) => "change-color",
                (KwFn::Adjust, false) => "color.adjust",
                (KwFn::Scale, false) => "color.scale",
                (KwFn::Change, false) => "color.change",
            };
            let args = kw_text(*f, kw);
            let expr = if args.is_empty() {
                format!("{}({})", name, col.lit())
            } else {
                format!("{}({}, {})", name, col.lit(), args)
            };
            let legal = kw.iter().enumerate().all(|(i, v)| v.map(|v| kw_in_range(*f, i, fxv(v))).unwrap_or(true));
            let k = kw_model(*f, kw);
            let r = match f {
                KwFn::Adjust => ref_adjust(col.rgba(), &k),
                KwFn::Scale => ref_scale(col.rgba(), &k),
                KwFn::Change => ref_change(col.rgba(), &k),
            };
            let law = match f {
                KwFn::Adjust => "adjust-color",
                KwFn::Scale => "scale-color",
                KwFn::Change => "change-color",
            };
            (expr, if legal { r.map(|r| (r.exp(), law)) } else { None })
        }
        Op::Hsl1 { col, which, amount } => {
            let (name, law, unit): (&str, &'static str, &str) = match which % 5 {
                0 => ("lighten", "lighten", "%"),
                1 => ("darken", "darken", "%"),
                2 => ("saturate", "saturate", "%"),
                3 => ("desaturate", "desaturate", "%"),
                _ => ("adjust-hue", "adjust-hue", "deg"),
            };
            let x = fxv(*amount);
            let expr = format!("{}({}, {}{})", name, col.lit(), dec(*amount as i64), unit);
            let mut k = Kw::default();
            match which % 5 {
                0 => k.lightness = Some(x),
                1 => k.lightness = Some(-x),
                2 => k.saturation = Some(x),
                3 => k.saturation = Some(-x),
                _ => k.hue = Some(x),
            }
            let legal = which % 5 == 4 || (0.0..=100.0).contains(&x);
            let r = ref_adjust(col.rgba(), &k);
            (expr, if legal { r.map(|r| (r.exp(), law)) } else { None })
        }
        Op::Opacity { col, which, amount } => {
            let (name, sign, law): (&str, f64, &'static str) = match which % 4 {
                0 => ("opacify", 1.0, "opacify-clamp"),
                1 => ("fade-in", 1.0, "opacify-clamp"),
                2 => ("transparentize", -1.0, "transparentize-clamp"),
                _ => ("fade-out", -1.0, "transparentize-clamp"),
            };
            let x = fxv(*amount);
            let expr = format!("{}({}, {})", name, col.lit(), dec(*amount as i64));
            let m = col.rgba();
            let legal = (0.0..=1.0).contains(&x);
            let e = Exp::exact(Rgba { rgb: m.rgb, a: clamp(m.a + sign * x, 0.0, 1.0) });
            (expr, if legal { Some((e, law)) } else { None })
        }
        Op::Mix { .. } | Op::Invert { .. } => unreachable!(),
    }
}

fn rows_for_op(op: &Op, out: &mut Vec<Rw>) -> bool {
    match op {
        Op::Mix { a, b, weight } => {
            let x = fxv(*weight);
            if !(0.0..=100.0).contains(&x) {
                return false;
            }
            // only what the property states for arbitrary weights: a colour value with integer
            // channels in range that equals the colour rebuilt from its accessors
            out.push(rw(
                "mix-rebuild",
                format!("u(mix({}, {}, {}%))", a.lit(), b.lit(), dec(*weight as i64)),
                Expect::ColorTrue(any_color()),
            ));
            true
        }
        Op::Invert { col, weight } => {
            let x = fxv(*weight);
            if !(0.0..=100.0).contains(&x) {
                return false;
            }
            out.push(rw(
                "invert-rebuild",
                format!("u(invert({}, {}%))", col.lit(), dec(*weight as i64)),
                Expect::ColorTrue(any_color()),
            ));
            true
        }
        _ => {
            let (expr, e) = op_expr(op);
            match e {
                Some((e, law)) => {
                    out.push(rw(law, format!("u({})", expr), Expect::ColorTrue(e)));
                    true
                }
                None => false,
            }
        }
    }
}

/// expectation that accepts every well-formed colour (alpha NaN = do not compare)
fn any_color() -> Exp {
    Exp {
        ch: [Chan { lo: 0, hi: 255, real: f64::NAN }; 3],
        a: f64::NAN,
    }
}

fn is_any(e: &Exp) -> bool {
    e.a.is_nan()
}

fn sheet(rows: &[Rw]) -> String {
    let mut s = String::with_capacity(rows.len() * 64 + 256);
    s.push_str(PRELUDE);
    s.push_str("a {\n");
    for r in rows {
        s.push_str("p: ");
        s.push_str(&r.expr);
        s.push_str(";\n");
    }
    s.push_str("}\n");
    s
}

fn minimal_input(expr: &str) -> String {
    format!("{}a {{ p: {} }}", PRELUDE, expr)
}

struct Fail {
    sig: String,
    what: String,
    details: serde_json::Value,
    known: bool,
}

fn accept_color(e: &Exp, c: &Rgba) -> bool {
    if is_any(e) {
        true
    } else {
        e.accepts(c)
    }
}

/// judge one printed value against its row
fn judge_row(r: &Rw, value: &str, ex12: &mut u64) -> Option<Fail> {
    let fail = |kind: &str, what: String, known: bool| {
        let sig = if known { SIG_26.to_string() } else { format!("C15/{}:{}", r.law, kind) };
        Some(Fail {
            sig,
            what: format!("{}: {} — `{}` printed `{}`", r.law, what, r.expr, value),
            details: json!({"law": r.law, "expression": r.expr, "printed": value, "minimal_input": minimal_input(&r.expr), "compile": "compressed"}),
            known,
        })
    };
    let parts = split_list(value);
    match &r.exp {
        Expect::Color(e) | Expect::ColorTrue(e) => {
            let want_bool = matches!(r.exp, Expect::ColorTrue(_));
            if parts.len() != if want_bool { 2 } else { 1 } {
                return fail("shape", "unexpected value shape".into(), false);
            }
            let c = match parse_color(&parts[0]) {
                Ok(c) => c,
                Err(ParseErr::OutOfRange(t)) => return fail("range", format!("channel not an integer in range: {}", t), false),
                Err(ParseErr::NotAColor(t)) => return fail("not-a-color", format!("not a colour: {}", t), false),
            };
            let ok_color = accept_color(e, &c);
            let ok_bool = !want_bool || parts[1] == "true";
            if ok_color && ok_bool {
                return None;
            }
            // finding #26: the round trip through lightness() of an RGB-defined colour
            if LIGHTNESS_ROUNDING_KNOWN {
                if let Some(m) = r.via_lightness {
                    let (h, s, l) = m.hsl();
                    if (l - l.round()).abs() > ACC_EPS {
                        let alt = Exp::from_unit(hsl_to_rgb(h.unwrap_or(0.0), s, l.round()), m.a);
                        if alt.accepts(&c) {
                            return fail("known", format!("expected {}, got the colour of the whole-percent lightness {}%", e.describe(), l.round()), true);
                        }
                    }
                }
            }
            if !ok_color {
                fail("value", format!("expected {}", e.describe()), false)
            } else if MIX_UNROUNDED_KNOWN && (r.law == "mix-rebuild" || r.law == "invert-rebuild") {
                let mut f = fail("known", "prints with integer channels but is not `==` to the colour rebuilt from red()/green()/blue()/alpha()".into(), true);
                if let Some(f) = f.as_mut() {
                    f.sig = SIG_MIX.to_string();
                }
                f
            } else {
                fail("not-equal", "prints as the expected colour but `==` is false".into(), false)
            }
        }
        Expect::AllTrue(n) => {
            if parts.len() != *n {
                return fail("shape", format!("expected {} booleans", n), false);
            }
            match parts.iter().position(|p| p != "true") {
                None => None,
                Some(i) => fail("false", format!("comparison #{} is {}", i, parts[i]), false),
            }
        }
        Expect::Same(e, n) => {
            if parts.len() != *n {
                return fail("shape", format!("expected {} colours", n), false);
            }
            if let Some(i) = parts.iter().position(|p| *p != parts[0]) {
                return fail("differ", format!("spelling #{} prints `{}` but #0 prints `{}`", i, parts[i], parts[0]), false);
            }
            match parse_color(&parts[0]) {
                Ok(c) if accept_color(e, &c) => None,
                Ok(_) => fail("value", format!("expected {}", e.describe()), false),
                Err(_) => fail("not-a-color", "not a colour".into(), false),
            }
        }
        Expect::Nums(ns) => {
            if parts.len() != ns.len() {
                return fail("shape", format!("expected {} numbers", ns.len()), false);
            }
            let mut known_hit = None;
            for (p, ne) in parts.iter().zip(ns) {
                let (v, unit) = match parse_dimension(p) {
                    Some(x) => x,
                    None => return fail(ne.name, format!("{} is not a number: {}", ne.name, p), false),
                };
                if unit != ne.unit {
                    return fail(ne.name, format!("{} has unit `{}`, expected `{}`", ne.name, unit, ne.unit), false);
                }
                if !v.is_finite() {
                    return fail(ne.name, format!("{} is not finite", ne.name), false);
                }
                if ne.integer && v.fract() != 0.0 {
                    return fail(ne.name, format!("{} = {} is not an integer", ne.name, v), false);
                }
                if let Some(ev) = ne.v {
                    let d = if ne.circular { hue_distance(v, ev) } else { (v - ev).abs() };
                    if d > ne.tol && in_finding12_region(ev) && v == 0.0 {
                        *ex12 += 1;
                        continue;
                    }
                    if d > ne.tol {
                        if LIGHTNESS_ROUNDING_KNOWN && ne.rounded_known && (v - ev.round()).abs() <= ne.tol {
                            known_hit = Some((ne.name, v, ev));
                            continue;
                        }
                        return fail(ne.name, format!("{} = {} but the CSS formula gives {}", ne.name, v, ev), false);
                    }
                } else if ne.unit == "deg" && !(0.0..=360.0).contains(&v) {
                    return fail(ne.name, format!("{} = {} outside [0,360]", ne.name, v), false);
                }
            }
            if let Some((name, v, ev)) = known_hit {
                return fail("known", format!("{} = {} is the CSS value {} rounded to a whole percent", name, v, ev), true);
            }
            None
        }
    }
}

/// the sheets are large and the machine is shared: a watchdog expiry (10 s) is retried once with
/// a 90 s limit before the case is given up as inconclusive
fn compile_retry(single: &Single, cx: &mut Ctx) -> Res {
    let res = cx.compile(single);
    if matches!(res.outcome, Outcome::Timeout) {
        cx.class("retry-after-timeout");
        return cx.worker.one_timeout(single, std::time::Duration::from_secs(90));
    }
    res
}

/// DESIGN §4 #12 (a C07 finding): in compressed mode a number in [0.99999999995, 1) is printed as
/// `0` instead of `1`. An accessor whose CSS value lies in that region (or is 1 within float noise)
/// and that prints as 0 is not judged (counted under excluded_known).
pub const EXCL_12: &str = "accessor value in [0.99999999995,1) printed as 0 in compressed mode (known finding #12, C07)";
fn in_finding12_region(v: f64) -> bool {
    // the oracle's own value may be 1 or 1+ulp where grass computes 1-ulp: the region is closed
    // at 1 with the usual float slack
    let a = v.abs();
    a <= 1.0 + 1e-9 && a >= 0.99999999995
}

fn unexpected(res: &Res, cx: &mut Ctx, what: &str) -> Option<Verdict> {
    match &res.outcome {
        Outcome::Css(_) => None,
        Outcome::Timeout | Outcome::NotRun | Outcome::Crash { .. } | Outcome::Panic { .. } | Outcome::Parsed => {
            cx.inconclusive(&format!("{}:{}", what, res.outcome.short().split_whitespace().next().unwrap_or("")));
            Some(Verdict::Discard)
        }
        Outcome::Error(_) => None,
    }
}

/// compile the rows in one sheet and judge them; an error is attributed to its row by line number
fn run_rows(rows: &[Rw], cx: &mut Ctx, minimal: &dyn Fn(Origin) -> Option<Case>) -> Verdict {
    let with_min = |mut details: serde_json::Value, o: Origin| {
        if let Some(c) = minimal(o) {
            details["replay_case"] = serde_json::to_value(&c).unwrap_or(serde_json::Value::Null);
        }
        details
    };
    if rows.is_empty() {
        return Verdict::Discard;
    }
    let text = sheet(rows);
    let mut single = Single::scss(text).compressed();
    single.quiet = true;
    let res = compile_retry(&single, cx);
    if let Some(v) = unexpected(&res, cx, "batch") {
        return v;
    }
    cx.add_evaluations(rows.len() as u64 - 1);
    for r in rows {
        cx.class(&format!("law:{}", r.law));
    }
    let css_text = match &res.outcome {
        Outcome::Css(c) => c,
        Outcome::Error(e) => {
            // PRELUDE has 4 lines + `a {`: row i is on 0-based line 5 + i
            let line = e.begin.line;
            let row = if line >= 5 && line - 5 < rows.len() { Some(&rows[line - 5]) } else { None };
            let (law, expr) = row.map(|r| (r.law, r.expr.clone())).unwrap_or(("?", String::new()));
            return Verdict::Fail(Failure::new(
                format!("C15/{}:error", law),
                format!("{}: a legal call is rejected: `{}`: {}", law, expr, e.message),
                with_min(json!({"law": law, "expression": expr, "error": e.display, "minimal_input": minimal_input(&expr)}), row.map(|r| r.origin).unwrap_or(Origin::None)),
            ));
        }
        _ => unreachable!(),
    };
    let out = css::rows(css_text);
    if out.len() != rows.len() {
        return Verdict::Fail(Failure::new(
            "C15/harness:row-count",
            format!("{} declarations expected, {} printed", rows.len(), out.len()),
            json!({"css": css_text.chars().take(2000).collect::<String>()}),
        ));
    }
    let mut known: Option<(Fail, Origin)> = None;
    let mut ex12 = 0u64;
    for (r, o) in rows.iter().zip(&out) {
        if let Some(f) = judge_row(r, &o.value, &mut ex12) {
            if f.known {
                cx.class(if f.sig == SIG_26 { "finding26-row" } else { "finding-mix-row" });
                if known.is_none() {
                    known = Some((f, r.origin));
                }
            } else {
                return Verdict::Fail(Failure::new(f.sig, f.what, with_min(f.details, r.origin)));
            }
        }
    }
    for _ in 0..ex12 {
        cx.excluded(EXCL_12);
    }
    match known {
        Some((f, o)) => Verdict::Fail(Failure::new(f.sig, f.what, with_min(f.details, o))),
        None => Verdict::Pass,
    }
}


// ---------------------------------------------------------------------------------------------
// enumerated sub-spaces
// ---------------------------------------------------------------------------------------------

fn ints(names: [&'static str; 3], c: [u8; 3], alpha_name: &'static str, a: f64) -> Expect {
    Expect::Nums(vec![
        NumExp { integer: true, ..num(names[0], c[0] as f64, "") },
        NumExp { integer: true, ..num(names[1], c[1] as f64, "") },
        NumExp { integer: true, ..num(names[2], c[2] as f64, "") },
        NumExp { tol: ALPHA_EPS, ..num(alpha_name, a, "") },
    ])
}

fn rows_names() -> Vec<Rw> {
    let mut out = vec![];
    for (name, c) in named_table() {
        let m = Rgba { rgb: *c, a: 1.0 };
        let hex = m.hex6();
        let f = format!("rgb({}, {}, {})", c[0], c[1], c[2]);
        out.push(rw(
            "name-table",
            format!("red({name}) green({name}) blue({name}) alpha({name})"),
            ints(["red(name)", "green(name)", "blue(name)"], *c, "alpha(name)", 1.0),
        ));
        out.push(rw("name-print", format!("{name} {hex} {f}"), Expect::Same(Exp::exact(m), 3)));
        out.push(rw(
            "name-equal",
            format!("({name} == {hex}) ({hex} == {name}) ({name} == {f})"),
            Expect::AllTrue(3),
        ));
    }
    out
}

fn short_hex_alpha_nibble(i: u16) -> u8 {
    let (r, g, b) = ((i >> 8) & 15, (i >> 4) & 15, i & 15);
    ((r * 7 + g * 3 + b * 5 + 1) & 15) as u8
}

fn rows_short_hex(start: u16, count: u16) -> Vec<Rw> {
    let mut out = vec![];
    for i in start..start.saturating_add(count).min(4096) {
        let (r, g, b) = (((i >> 8) & 15) as u8, ((i >> 4) & 15) as u8, (i & 15) as u8);
        let m = Rgba { rgb: [r * 17, g * 17, b * 17], a: 1.0 };
        let s3 = format!("#{:x}{:x}{:x}", r, g, b);
        let s4 = format!("{s3}f");
        let s6 = m.hex6();
        let s8 = format!("{s6}ff");
        let up = s3.to_ascii_uppercase();
        let f = format!("rgb({}, {}, {})", m.rgb[0], m.rgb[1], m.rgb[2]);
        out.push(rw("shorthex-print", format!("{s3} {s4} {s6} {s8} {up} {f}"), Expect::Same(Exp::exact(m), 6)));
        out.push(rw(
            "shorthex-equal",
            format!("({s3} == {s6}) ({s4} == {s6}) ({s8} == {s3}) ({up} == {s3}) ({s3} == {f})"),
            Expect::AllTrue(5),
        ));
        out.push(rw(
            "shorthex-channels",
            format!("red({s3}) green({s3}) blue({s3}) alpha({s3})"),
            ints(["red", "green", "blue"], m.rgb, "alpha", 1.0),
        ));
        let an = short_hex_alpha_nibble(i);
        let ma = Rgba { rgb: m.rgb, a: (an * 17) as f64 / 255.0 };
        let a4 = format!("{s3}{:x}", an);
        let a8 = format!("{s6}{:x}{:x}", an, an);
        let fa = format!("rgba({}, {}, {}, math.div({}, 255))", m.rgb[0], m.rgb[1], m.rgb[2], an as u32 * 17);
        out.push(rw("shorthex-alpha-print", format!("{a4} {a8} {fa}"), Expect::Same(Exp::exact(ma), 3)));
        out.push(rw("shorthex-alpha-equal", format!("({a4} == {a8}) ({a4} == {fa}) ({fa} == {a8})"), Expect::AllTrue(3)));
        out.push(rw(
            "shorthex-alpha-channels",
            format!("red({a4}) green({a4}) blue({a4}) alpha({a4})"),
            ints(["red", "green", "blue"], m.rgb, "alpha", ma.a),
        ));
    }
    out
}

fn rows_alpha_bytes() -> Vec<Rw> {
    let mut out = vec![];
    for k in 0..=255u32 {
        let c = [(k * 7 % 256) as u8, (255 - k) as u8, (k ^ 0x5a) as u8];
        let m = Rgba { rgb: c, a: k as f64 / 255.0 };
        let h8 = format!("{}{:02x}", m.hex6(), k);
        let f = format!("rgba({}, {}, {}, math.div({}, 255))", c[0], c[1], c[2], k);
        out.push(rw("hex8-alpha-print", format!("{h8} {f}"), Expect::Same(Exp::exact(m), 2)));
        out.push(rw("hex8-alpha-equal", format!("({h8} == {f}) ({f} == {h8})"), Expect::AllTrue(2)));
        out.push(rw(
            "hex8-alpha-channels",
            format!("red({h8}) green({h8}) blue({h8}) alpha({h8})"),
            ints(["red", "green", "blue"], c, "alpha", m.a),
        ));
    }
    for n in 0..16u32 {
        let m = Rgba { rgb: [0x11 * (n as u8), 0xaa, 0x33], a: (n * 17) as f64 / 255.0 };
        let h4 = format!("#{:x}a3{:x}", n, n);
        let f = format!("rgba({}, 170, 51, math.div({}, 255))", m.rgb[0], n * 17);
        out.push(rw("hex4-alpha-print", format!("{h4} {f}"), Expect::Same(Exp::exact(m), 2)));
        out.push(rw("hex4-alpha-equal", format!("({h4} == {f})"), Expect::AllTrue(1)));
    }
    out
}

// ---------------------------------------------------------------------------------------------
// the exhaustive cube: compact sheet, one declaration per colour
// ---------------------------------------------------------------------------------------------

fn cube_prelude() -> String {
    let mut s = String::from("@use \"sass:color\";\n");
    if LIGHTNESS_ROUNDING_KNOWN {
        s.push_str(
            "@function f($c, $l) {\n\
             $h: hue($c); $s: saturation($c); $x: hsl($h, $s, lightness($c)); $y: hsl($h, $s, $l);\n\
             $w: color.whiteness($c); $k: color.blackness($c); $z: color.hwb($h, $w, $k);\n\
             @return $x ($x == $c) $y ($y == $c) $z ($z == $c) $h $s lightness($c) $w $k; }\n",
        );
    } else {
        s.push_str(
            "@function f($c) {\n\
             $h: hue($c); $s: saturation($c); $l: lightness($c); $x: hsl($h, $s, $l);\n\
             $w: color.whiteness($c); $k: color.blackness($c); $z: color.hwb($h, $w, $k);\n\
             @return $x ($x == $c) $z ($z == $c) $h $s $l $w $k; }\n",
        );
    }
    s
}

fn cube_sheet(start: u32, count: u32) -> String {
    let mut s = cube_prelude();
    s.reserve(count as usize * 40);
    s.push_str("a {\n");
    for i in start..start + count {
        let c = Col::from_u24(i, Alpha::One);
        if LIGHTNESS_ROUNDING_KNOWN {
            let (_, _, l) = c.rgba().hsl();
            s.push_str(&format!("p: f({}, {}%);\n", c.hex6(), f12(l)));
        } else {
            s.push_str(&format!("p: f({});\n", c.hex6()));
        }
    }
    s.push_str("}\n");
    s
}

fn cube_minimal(c: &Col) -> String {
    format!("{}a {{\n{}}}", cube_prelude(), {
        if LIGHTNESS_ROUNDING_KNOWN {
            let (_, _, l) = c.rgba().hsl();
            format!("p: f({}, {}%);\n", c.hex6(), f12(l))
        } else {
            format!("p: f({});\n", c.hex6())
        }
    })
}

/// judge one cube row; returns (failure, is-known)
fn judge_cube(c: &Col, value: &str, ex12: &mut u64) -> Option<Fail> {
    let m = c.rgba();
    let e = Exp::exact(m);
    let (h, s, l) = m.hsl();
    let (_, w, k) = m.hwb();
    let parts = split_list(value);
    let mk = |law: &str, kind: &str, what: String, known: bool| {
        Some(Fail {
            sig: if known { SIG_26.to_string() } else { format!("C15/{}:{}", law, kind) },
            what: format!("{}: {} for {} (row `{}`)", law, what, c.hex6(), value),
            details: json!({"law": law, "color": c.hex6(), "printed": value, "minimal_input": cube_minimal(c),
                "row_format": "hsl-roundtrip == [hsl-roundtrip-exact-lightness ==] hwb-roundtrip == hue saturation lightness whiteness blackness",
                "replay_case": Case::Cube { start: (c.r as u32) << 16 | (c.g as u32) << 8 | c.b as u32, count: 1 }}),
            known,
        })
    };
    let n_expected = if LIGHTNESS_ROUNDING_KNOWN { 11 } else { 9 };
    if parts.len() != n_expected {
        return mk("cube", "shape", format!("expected {} items", n_expected), false);
    }
    let mut known: Option<Fail> = None;
    let mut idx = 0;
    let mut trips: Vec<(&str, bool)> = vec![("hsl-roundtrip", true)];
    if LIGHTNESS_ROUNDING_KNOWN {
        trips.push(("hsl-roundtrip-exact-lightness", false));
    }
    trips.push(("hwb-roundtrip", false));
    for (law, via_l) in trips {
        let col = parse_color(&parts[idx]);
        let eq = parts[idx + 1] == "true";
        idx += 2;
        let col = match col {
            Ok(c) => c,
            Err(_) => return mk(law, "not-a-color", "not a colour with integer channels".into(), false),
        };
        if e.accepts(&col) && eq {
            continue;
        }
        if LIGHTNESS_ROUNDING_KNOWN && via_l && (l - l.round()).abs() > ACC_EPS {
            let alt = Exp::from_unit(hsl_to_rgb(h.unwrap_or(0.0), s, l.round()), 1.0);
            if alt.accepts(&col) {
                if known.is_none() {
                    known = mk(law, "known", format!("got {} = the colour of the whole-percent lightness {}%", parts[idx - 2], l.round()), true);
                }
                continue;
            }
        }
        if !e.accepts(&col) {
            return mk(law, "value", format!("got {}", parts[idx - 2]), false);
        }
        return mk(law, "not-equal", "prints as the colour but `==` is false".into(), false);
    }
    let exp: [(&str, Option<f64>, &str, bool); 5] = [
        ("hue", h, "deg", true),
        ("saturation", Some(s), "%", false),
        ("lightness", Some(l), "%", false),
        ("whiteness", Some(w), "%", false),
        ("blackness", Some(k), "%", false),
    ];
    for (j, (name, ev, unit, circ)) in exp.iter().enumerate() {
        let p = &parts[idx + j];
        let (v, u) = match parse_dimension(p) {
            Some(x) => x,
            None => return mk("accessor", name, format!("{} is not a number: {}", name, p), false),
        };
        if u != *unit || !v.is_finite() {
            return mk("accessor", name, format!("{} = {} has the wrong unit or is not finite", name, p), false);
        }
        match ev {
            None => {
                if !(0.0..=360.0).contains(&v) {
                    return mk("accessor", name, format!("{} = {} outside [0,360]", name, v), false);
                }
            }
            Some(ev) => {
                let d = if *circ { hue_distance(v, *ev) } else { (v - ev).abs() };
                if d > ACC_EPS && in_finding12_region(*ev) && v == 0.0 {
                    *ex12 += 1;
                    continue;
                }
                if d > ACC_EPS {
                    if LIGHTNESS_ROUNDING_KNOWN && *name == "lightness" && (v - ev.round()).abs() <= ACC_EPS {
                        if known.is_none() {
                            known = mk("accessor", "known", format!("lightness = {} is the CSS value {} rounded to a whole percent", v, ev), true);
                        }
                        continue;
                    }
                    return mk("accessor", name, format!("{} = {} but the CSS formula gives {}", name, v, ev), false);
                }
            }
        }
    }
    known
}

fn check_cube(start: u32, count: u32, cx: &mut Ctx) -> Verdict {
    let count = count.min((1u32 << 24).saturating_sub(start));
    if count == 0 {
        return Verdict::Discard;
    }
    let mut single = Single::scss(cube_sheet(start, count)).compressed();
    single.quiet = true;
    let res = compile_retry(&single, cx);
    if let Some(v) = unexpected(&res, cx, "cube") {
        return v;
    }
    cx.add_evaluations(count as u64 - 1);
    cx.class_n("cube-colour", count as u64);
    let css_text = match &res.outcome {
        Outcome::Css(c) => c,
        Outcome::Error(e) => {
            return Verdict::Fail(Failure::new(
                "C15/cube:error",
                format!("accessor round trip rejected: {}", e.message),
                json!({"error": e.display, "start": start, "count": count}),
            ))
        }
        _ => unreachable!(),
    };
    let values = cube_values(css_text);
    if values.len() != count as usize {
        return Verdict::Fail(Failure::new(
            "C15/harness:row-count",
            format!("{} declarations expected, {} printed", count, values.len()),
            json!({"css": css_text.chars().take(2000).collect::<String>()}),
        ));
    }
    let mut known: Option<Fail> = None;
    let mut n_known = 0u64;
    let mut ex12 = 0u64;
    for (j, v) in values.iter().enumerate() {
        let c = Col::from_u24(start + j as u32, Alpha::One);
        if let Some(f) = judge_cube(&c, v, &mut ex12) {
            if f.known {
                n_known += 1;
                if known.is_none() {
                    known = Some(f);
                }
            } else {
                return Verdict::Fail(Failure::new(f.sig, f.what, f.details));
            }
        }
    }
    cx.class_n("finding26-row", n_known);
    for _ in 0..ex12 {
        cx.excluded(EXCL_12);
    }
    match known {
        Some(f) => Verdict::Fail(Failure::new(f.sig, f.what, f.details)),
        None => Verdict::Pass,
    }
}

/// declaration values of the cube sheet. Small sheets go through the shared CSS parser; the
/// 2 048-row sheets of the exhaustive tier are split directly (`a{p:v;p:v}` in compressed mode,
/// values contain neither `;` nor `{}`), and the first and last rows are cross-checked against
/// the shared parser's reading of a prefix to keep the two readers in agreement.
fn cube_values(css_text: &str) -> Vec<String> {
    if css_text.len() < 16_384 {
        return css::rows(css_text).into_iter().map(|r| r.value).collect();
    }
    let t = css_text.trim();
    let body = match t.strip_prefix("a{").and_then(|x| x.strip_suffix('}')) {
        Some(b) => b,
        None => return css::rows(css_text).into_iter().map(|r| r.value).collect(),
    };
    let mut out = Vec::with_capacity(2100);
    for d in body.split(';') {
        let d = d.trim();
        if d.is_empty() {
            continue;
        }
        match d.strip_prefix("p:") {
            Some(v) => out.push(v.trim().to_string()),
            None => return css::rows(css_text).into_iter().map(|r| r.value).collect(),
        }
    }
    out
}

// ---------------------------------------------------------------------------------------------
// calls the documentation says are errors
// ---------------------------------------------------------------------------------------------

fn reject_list() -> Vec<String> {
    let cols = ["#123456", "#fedcba80", "rgba(0,0,0,0)", "white"];
    let mut v = vec![];
    for (i, c) in cols.iter().enumerate() {
        let d = ["0.0001", "1", "0.5", "10"][i];
        for f in ["lighten", "darken", "saturate", "desaturate"] {
            v.push(format!("{f}({c}, {}%)", add_dec("100", d)));
            v.push(format!("{f}({c}, -{d}%)"));
        }
        for f in ["opacify", "transparentize", "fade-in", "fade-out"] {
            v.push(format!("{f}({c}, {})", add_dec("1", d)));
            v.push(format!("{f}({c}, -{d})"));
        }
        v.push(format!("mix({c}, #abcdef, {}%)", add_dec("100", d)));
        v.push(format!("mix({c}, #abcdef, -{d}%)"));
        v.push(format!("invert({c}, {}%)", add_dec("100", d)));
        v.push(format!("invert({c}, -{d}%)"));
        for k in ["red", "green", "blue"] {
            v.push(format!("color.adjust({c}, ${k}: {})", add_dec("255", d)));
            v.push(format!("adjust-color({c}, ${k}: -{})", add_dec("255", d)));
            v.push(format!("color.change({c}, ${k}: {})", add_dec("255", d)));
            v.push(format!("change-color({c}, ${k}: -{d})"));
        }
        for k in ["saturation", "lightness", "whiteness", "blackness"] {
            v.push(format!("color.adjust({c}, ${k}: {}%)", add_dec("100", d)));
            v.push(format!("adjust-color({c}, ${k}: -{}%)", add_dec("100", d)));
            v.push(format!("color.change({c}, ${k}: {}%)", add_dec("100", d)));
            v.push(format!("change-color({c}, ${k}: -{d}%)"));
        }
        for k in ["red", "green", "blue", "saturation", "lightness", "whiteness", "blackness", "alpha"] {
            v.push(format!("color.scale({c}, ${k}: {}%)", add_dec("100", d)));
            v.push(format!("scale-color({c}, ${k}: -{}%)", add_dec("100", d)));
        }
        v.push(format!("color.adjust({c}, $alpha: {})", add_dec("1", d)));
        v.push(format!("color.adjust({c}, $alpha: -{})", add_dec("1", d)));
        v.push(format!("color.change({c}, $alpha: {})", add_dec("1", d)));
        v.push(format!("color.change({c}, $alpha: -{d})"));
        v.push(format!("color.hwb(120 {}% 0%)", add_dec("100", d)));
        v.push(format!("color.hwb(120 0% -{d}%)"));
        // mixing colour spaces
        for f in ["color.adjust", "color.change", "adjust-color", "change-color"] {
            v.push(format!("{f}({c}, $red: 1, $hue: 1deg)"));
            v.push(format!("{f}({c}, $blue: 1, $lightness: 1%)"));
            v.push(format!("{f}({c}, $saturation: 1%, $whiteness: 1%)"));
            v.push(format!("{f}({c}, $green: 1, $blackness: 1%)"));
        }
        v.push(format!("color.scale({c}, $red: 1%, $lightness: 1%)"));
        v.push(format!("color.scale({c}, $saturation: 1%, $blackness: 1%)"));
        v.push(format!("color.scale({c}, $hue: 1%)"));
    }
    v
}

/// "100" + "0.5" → "100.5" (both plain decimals, second < 1 or an integer)
fn add_dec(a: &str, b: &str) -> String {
    let x: f64 = a.parse::<f64>().unwrap() + b.parse::<f64>().unwrap();
    let s = format!("{:.4}", x);
    s.trim_end_matches('0').trim_end_matches('.').to_string()
}

fn check_reject(expr: &str, cx: &mut Ctx) -> Verdict {
    let mut single = Single::scss(format!("@use \"sass:color\";\na {{ p: {} }}", expr)).compressed();
    single.quiet = true;
    let res = compile_retry(&single, cx);
    if let Some(v) = unexpected(&res, cx, "reject") {
        return v;
    }
    let fname = expr.split('(').next().unwrap_or("?");
    cx.class(&format!("reject:{}", fname));
    match &res.outcome {
        Outcome::Error(_) => Verdict::Pass,
        Outcome::Css(c) => {
            // still a colour value? then at least its channels must be in range; but the call is
            // documented to be an error
            Verdict::Fail(Failure::new(
                format!("C15/reject:{}", fname),
                format!("`{}` is documented to be an error but compiles to `{}`", expr, c.trim()),
                json!({"expression": expr, "css": c}),
            ))
        }
        _ => unreachable!(),
    }
}

// ---------------------------------------------------------------------------------------------
// generators
// ---------------------------------------------------------------------------------------------

fn chan() -> impl Strategy<Value = u8> {
    prop_oneof![
        6 => any::<u8>(),
        1 => prop::sample::select(vec![0u8, 1, 2, 127, 128, 253, 254, 255]),
        1 => (0u8..16).prop_map(|n| n * 17),
    ]
}

fn alpha() -> impl Strategy<Value = Alpha> {
    prop_oneof![
        3 => Just(Alpha::One),
        2 => any::<u8>().prop_map(Alpha::Hex),
        2 => (0u16..=1000).prop_map(Alpha::Milli),
        1 => prop::sample::select(vec![Alpha::Milli(0), Alpha::Milli(500), Alpha::Milli(1000), Alpha::Hex(0), Alpha::Hex(1), Alpha::Hex(254), Alpha::Hex(255)]),
    ]
}

fn col() -> impl Strategy<Value = Col> {
    (chan(), chan(), chan(), alpha()).prop_map(|(r, g, b, a)| Col { r, g, b, a })
}

/// number in [lo, hi] (natural units) at 1e-4 resolution: integers, multiples of 5, halves,
/// just below / above a half, the bounds, arbitrary
fn fx(lo: i32, hi: i32) -> BoxedStrategy<Fx> {
    let span = (hi - lo).max(1);
    let c = move |v: i64| -> Fx { v.clamp(lo as i64 * 10000, hi as i64 * 10000) as Fx };
    prop_oneof![
        3 => (0..=span).prop_map(move |k| c((lo + k) as i64 * 10000)),
        2 => (0..=span / 5).prop_map(move |k| c((lo - lo.rem_euclid(5) + 5 * k) as i64 * 10000)),
        2 => (0..span).prop_map(move |k| c((lo + k) as i64 * 10000 + 5000)),
        1 => (0..span).prop_map(move |k| c((lo + k) as i64 * 10000 + 4999)),
        1 => (0..span).prop_map(move |k| c((lo + k) as i64 * 10000 + 5001)),
        1 => prop::sample::select(vec![lo as i64 * 10000, hi as i64 * 10000, lo as i64 * 10000 + 1, hi as i64 * 10000 - 1]).prop_map(move |v| c(v)),
        3 => (lo as i64 * 10000..=hi as i64 * 10000).prop_map(move |v| c(v)),
    ]
    .boxed()
}

fn alpha_arg() -> impl Strategy<Value = Option<Arg>> {
    prop_oneof![
        2 => Just(None),
        3 => fx_alpha().prop_map(|v| Some(Arg { v, pct: false })),
        1 => fx(-10, 110).prop_map(|v| Some(Arg { v, pct: true })),
    ]
}

/// alpha literal in [-0.2, 1.2]
fn fx_alpha() -> impl Strategy<Value = Fx> {
    prop_oneof![
        3 => (-2000i32..=12000),
        2 => prop::sample::select(vec![0, 10000, 5000, 2500, 1, 9999, -1, 10001, 12000, -2000]),
        1 => (0i32..=10).prop_map(|k| k * 1000),
    ]
}

fn ctor() -> impl Strategy<Value = Ctor> {
    prop_oneof![
        3 => (fx(-20, 275), fx(-20, 275), fx(-20, 275), alpha_arg(), any::<u8>())
            .prop_map(|(a, b, c, alpha, form)| Ctor::Rgb { ch: [a, b, c], pct: false, alpha, form }),
        2 => (fx(-10, 110), fx(-10, 110), fx(-10, 110), alpha_arg(), any::<u8>())
            .prop_map(|(a, b, c, alpha, form)| Ctor::Rgb { ch: [a, b, c], pct: true, alpha, form }),
        4 => (fx(-400, 800), any::<bool>(), fx(-20, 120), fx(-20, 120), alpha_arg(), any::<u8>())
            .prop_map(|(h, deg, s, l, alpha, form)| Ctor::Hsl { h, deg, s, l, alpha, form }),
        3 => (fx(-400, 800), any::<bool>(), fx(0, 100), fx(0, 100), alpha_arg(), any::<u8>())
            .prop_map(|(h, deg, w, b, alpha, form)| Ctor::Hwb { h, deg, w, b, alpha, form }),
    ]
}

fn opt(s: BoxedStrategy<Fx>, p_some: u32) -> BoxedStrategy<Option<Fx>> {
    prop_oneof![
        (10 - p_some) => Just(None),
        p_some => s.prop_map(Some),
    ]
    .boxed()
}

/// keyword arguments inside their documented ranges, one colour space per call
fn kw_args(f: KwFn) -> BoxedStrategy<[Option<Fx>; 9]> {
    let (rgb, hue, pct, al): (BoxedStrategy<Fx>, BoxedStrategy<Fx>, BoxedStrategy<Fx>, BoxedStrategy<Fx>) = match f {
        KwFn::Adjust => (fx(-255, 255), fx(-400, 400), fx(-100, 100), (-10000i32..=10000).boxed()),
        KwFn::Scale => (fx(-100, 100), Just(0).boxed(), fx(-100, 100), fx(-100, 100)),
        KwFn::Change => (fx(0, 255), fx(-400, 800), fx(0, 100), (0i32..=10000).boxed()),
    };
    let has_hue = f != KwFn::Scale;
    let alpha = opt(al, 3);
    let space_rgb = (opt(rgb.clone(), 6), opt(rgb.clone(), 6), opt(rgb, 6), alpha.clone())
        .prop_map(|(r, g, b, a)| [r, g, b, None, None, None, None, None, a]);
    let hsl_hue = if has_hue { opt(hue.clone(), 5) } else { Just(None).boxed() };
    let hwb_hue = if has_hue { opt(hue, 4) } else { Just(None).boxed() };
    let space_hsl = (hsl_hue, opt(pct.clone(), 6), opt(pct.clone(), 6), alpha.clone())
        .prop_map(|(h, s, l, a)| [None, None, None, h, s, l, None, None, a]);
    let space_hwb = (hwb_hue, opt(pct.clone(), 7), opt(pct, 7), alpha)
        .prop_map(|(h, w, b, a)| {
            // hue alone selects HSL; keep at least one HWB argument so the class is what it says
            let w = if w.is_none() && b.is_none() { Some(0) } else { w };
            [None, None, None, h, None, None, w, b, a]
        });
    prop_oneof![3 => space_rgb, 4 => space_hsl, 3 => space_hwb].boxed()
}

fn op() -> impl Strategy<Value = Op> {
    let kwf = prop_oneof![Just(KwFn::Adjust), Just(KwFn::Scale), Just(KwFn::Change)];
    prop_oneof![
        6 => (col(), kwf.prop_flat_map(|f| (Just(f), kw_args(f))), any::<bool>())
            .prop_map(|(col, (f, kw), global)| Op::Kw { col, f, global, kw }),
        2 => (col(), 0u8..5, fx(0, 100)).prop_map(|(col, which, amount)| Op::Hsl1 { col, which, amount }),
        1 => (col(), fx(-400, 400)).prop_map(|(col, amount)| Op::Hsl1 { col, which: 4, amount }),
        2 => (col(), 0u8..4, 0i32..=10000).prop_map(|(col, which, amount)| Op::Opacity { col, which, amount }),
        2 => (col(), col(), fx(0, 100)).prop_map(|(a, b, weight)| Op::Mix { a, b, weight }),
        1 => (col(), fx(0, 100)).prop_map(|(col, weight)| Op::Invert { col, weight }),
    ]
}

/// a call with exactly one argument slightly outside its documented range
fn reject_expr() -> impl Strategy<Value = String> {
    let over = |hi: i64| (1i64..=50000).prop_map(move |d| hi * 10000 + d);
    let under = |lo: i64| (1i64..=50000).prop_map(move |d| lo * 10000 - d);
    let kwcall = (col(), 0usize..3, 0usize..9, any::<bool>(), 1i64..=50000, any::<bool>()).prop_filter_map(
        "hue has no range",
        |(c, fi, ki, hi_side, d, global)| {
            let f = [KwFn::Adjust, KwFn::Scale, KwFn::Change][fi];
            if ki == 3 {
                return None;
            }
            let (lo, hi, unit): (i64, i64, &str) = match (f, ki) {
                (KwFn::Scale, _) => (-100, 100, "%"),
                (KwFn::Adjust, 0..=2) => (-255, 255, ""),
                (KwFn::Adjust, 8) => (-1, 1, ""),
                (KwFn::Adjust, _) => (-100, 100, "%"),
                (KwFn::Change, 0..=2) => (0, 255, ""),
                (KwFn::Change, 8) => (0, 1, ""),
                (KwFn::Change, _) => (0, 100, "%"),
            };
            let v = if hi_side { hi * 10000 + d } else { lo * 10000 - d };
            let name = match (f, global) {
                (KwFn::Adjust, true) => "adjust-color",
                (KwFn::Scale, true) => "scale-color",
                (KwFn::Change, true) => "change-color",
                (KwFn::Adjust, false) => "color.adjust",
                (KwFn::Scale, false) => "color.scale",
                (KwFn::Change, false) => "color.change",
            };
            Some(format!("{}({}, ${}: {}{})", name, c.lit(), KW_NAMES[ki], dec(v), unit))
        },
    );
    let simple = (col(), 0usize..10, any::<bool>(), 1i64..=50000).prop_map(move |(c, fi, hi_side, d)| {
        let names = ["lighten", "darken", "saturate", "desaturate", "opacify", "transparentize", "fade-in", "fade-out", "invert", "mix"];
        let f = names[fi];
        let (hi, unit) = if (4..8).contains(&fi) { (1i64, "") } else { (100i64, "%") };
        let v = if hi_side { hi * 10000 + d } else { -d };
        if f == "mix" {
            format!("mix({}, #abcdef, {}{})", c.lit(), dec(v), unit)
        } else {
            format!("{}({}, {}{})", f, c.lit(), dec(v), unit)
        }
    });
    let hwb = (fx(-400, 800), prop_oneof![over(100), under(0)], fx(0, 100), any::<bool>()).prop_map(|(h, bad, ok, first)| {
        if first {
            format!("color.hwb({} {}% {}%)", dec(h as i64), dec(bad), dec(ok as i64))
        } else {
            format!("color.hwb({}, {}%, {}%)", dec(h as i64), dec(ok as i64), dec(bad))
        }
    });
    prop_oneof![5 => kwcall, 4 => simple, 1 => hwb]
}

fn twin() -> impl Strategy<Value = Twin> {
    let h = prop_oneof![
        3 => (-12i32..=24).prop_map(|k| k * 30 * 10000),
        2 => (-24i32..=48).prop_map(|k| k * 15 * 10000),
        2 => (-360i32..=720).prop_map(|k| k * 10000),
        1 => (-3_600_000i32..=7_200_000),
    ];
    // x in percent = x2 * 2e-4: multiples of 10, 5, 1, 0.5, 0.1 and arbitrary
    let x2 = prop_oneof![
        3 => (0i32..=10).prop_map(|k| k * 50_000),
        2 => (0i32..=20).prop_map(|k| k * 25_000),
        2 => (0i32..=100).prop_map(|k| k * 5_000),
        2 => (0i32..=200).prop_map(|k| k * 2_500),
        2 => (0i32..=1000).prop_map(|k| k * 500),
        1 => (0i32..=500_000),
    ];
    (h, x2, 0u8..3).prop_map(|(h, x2, kind)| Twin { h, x2, kind })
}

pub const BATCH_TWINS: usize = 30;
pub const BATCH_COLS: usize = 25;
pub const BATCH_CTORS: usize = 20;
pub const BATCH_OPS: usize = 30;

fn lattice() -> Vec<Case> {
    // 17^3 lattice: channel values 0,16,...,240 and 255 (so that both ends of the cube are present)
    let axis: Vec<u8> = (0..17).map(|i| if i == 16 { 255 } else { (i * 16) as u8 }).collect();
    let mut cols = vec![];
    let mut n = 0u32;
    for &r in &axis {
        for &g in &axis {
            for &b in &axis {
                // deterministic alpha variety over the lattice
                let a = match n % 4 {
                    0 | 1 => Alpha::One,
                    2 => Alpha::Hex((n.wrapping_mul(2654435761) >> 24) as u8),
                    _ => Alpha::Milli(((n.wrapping_mul(40503) >> 3) % 1001) as u16),
                };
                cols.push(Col { r, g, b, a });
                n += 1;
            }
        }
    }
    cols.chunks(64).map(|c| Case::Batch { cols: c.to_vec(), ctors: vec![], ops: vec![], twins: vec![], reject: None }).collect()
}

fn cols_ref(c: &Case) -> &[Col] {
    match c {
        Case::Batch { cols, .. } => cols,
        _ => &[],
    }
}

pub const CUBE_CHUNK: u32 = 2048;

impl Prop for C15 {
    type Case = Case;
    fn id(&self) -> &'static str {
        "C15"
    }
    fn rule(&self) -> String {
        format!("Enumerated (complete): the 148 CSS names against /verif/data/css_named_colors.txt; all 4 096 short-hex colours in 3/4/6/8-digit and upper-case spellings (+ one alpha nibble each); all 256 alpha bytes / 16 alpha nibbles; a 17^3 RGB lattice (with alpha variety) under the full law set; ~{} calls documented to be errors; thorough: all 2^24 opaque RGB colours ({} per compile) under the HSL/HWB accessor round trips and accessor formulas. Generated: batches of {} random RGB x alpha colours (full law set: channels, 12-18 spellings print identically in compressed mode and are ==, accessors vs CSS formulas within 1e-6, hsl/hwb round trips, invert/complement twice, *-by-0 identities, mix 0/100, opacify/transparentize clamp) + {} constructor calls (rgb/rgba/hsl/hsla/color.hwb, all argument syntaxes, arguments in and slightly outside the legal ranges) + {} function calls (adjust/scale/change-color vs reference implementations, lighten..adjust-hue, opacify.., mix/invert with weights: rebuild law), + {} pairs of exactly equivalent hsl()/color.hwb()/rgb(%) spellings of tints, shades and greys (must print identically and be ==, also at .5 ties) + one call with one argument just outside its documented range (own compile; must be rejected). Channels at a .5 boundary (|frac-0.5| <= 1e-9) may round either way. Non-trivial = named or short-hex colour entries, and every call whose real-valued result has a channel within 1e-6 of a .5 rounding boundary (key = colour / expression); near ties (<= 1e-3, checked strictly) are counted separately in the class histogram.", reject_list().len(), CUBE_CHUNK, BATCH_COLS, BATCH_CTORS, BATCH_OPS, BATCH_TWINS)
    }
    fn assumptions(&self) -> Vec<String> {
        vec![
            "CSS Color 4 sample code (rgbToHsl, hslToRgb, hwbToRgb, rgbToHwb) evaluated in f64 is within 1e-9 of the real value on the 0..255 scale".into(),
            "a channel whose real value is within 1e-9 of a .5 boundary may be rounded either way (dart-sass uses fuzzy rounding); the hue of an achromatic colour is unconstrained (powerless in CSS)".into(),
            "color.adjust/scale/change, lighten/darken/saturate/desaturate/adjust-hue, opacify/transparentize follow the Sass documentation (https://sass-lang.com/documentation/modules/color) incl. its argument ranges; out-of-range arguments are errors".into(),
            format!("LIGHTNESS_ROUNDING_KNOWN = {}: finding #26 is reported under the signature {}", LIGHTNESS_ROUNDING_KNOWN, SIG_26),
        ]
    }
    fn strategy(&self, tier: Tier) -> Option<(BoxedStrategy<Case>, u32)> {
        let batch = (
            proptest::collection::vec(col(), BATCH_COLS),
            proptest::collection::vec(ctor(), BATCH_CTORS),
            proptest::collection::vec(op(), BATCH_OPS),
            proptest::collection::vec(twin(), BATCH_TWINS),
            reject_expr(),
        )
            .prop_map(|(cols, ctors, ops, twins, r)| Case::Batch { cols, ctors, ops, twins, reject: Some(r) })
            // a batch is ~1 500 declarations; the failure itself names the offending declaration and
            // carries a one-element `replay_case`, so proptest shrinking (thousands of compiles) is off
            .no_shrink();
        // quick: 800 batches = 20 000 random colours exactly; thorough: 4 000 batches = 100 000
        Some((batch.boxed(), tier.pick(800, 4000)))
    }
    fn enumerate(&self, tier: Tier) -> Vec<Case> {
        let mut v = vec![Case::Names, Case::AlphaBytes];
        for i in 0..32u16 {
            v.push(Case::ShortHex { start: i * 128, count: 128 });
        }
        v.extend(lattice());
        for e in reject_list() {
            v.push(Case::Reject { expr: e });
        }
        // VP_C15_NO_CUBE=1 (builder aid): run the thorough tier's generated part without the 8 192
        // enumerated cube chunks, e.g. to try further seeds quickly (the cube is seed-independent)
        if tier == Tier::Thorough && std::env::var("VP_C15_NO_CUBE").is_err() {
            let mut s = 0u32;
            while s < (1 << 24) {
                v.push(Case::Cube { start: s, count: CUBE_CHUNK });
                s += CUBE_CHUNK;
            }
        }
        v
    }
    fn check(&self, case: &Case, cx: &mut Ctx) -> Verdict {
        match case {
            Case::Names => {
                cx.class("case:names");
                for (n, _) in named_table() {
                    cx.nontrivial(&("name", n));
                }
                run_rows(&rows_names(), cx, &|_| None)
            }
            Case::AlphaBytes => {
                cx.class("case:alpha-bytes");
                run_rows(&rows_alpha_bytes(), cx, &|_| None)
            }
            Case::ShortHex { start, count } => {
                cx.class("case:short-hex");
                for i in *start..start.saturating_add(*count).min(4096) {
                    cx.nontrivial(&("short", i));
                }
                {
                    let st = *start;
                    // rows come in groups of 6 per colour
                    let rows = rows_short_hex(*start, *count);
                    let mut rows = rows;
                    for (i, r) in rows.iter_mut().enumerate() {
                        r.origin = Origin::Col(i / 6);
                    }
                    run_rows(&rows, cx, &|o| match o {
                        Origin::Col(i) => Some(Case::ShortHex { start: st + i as u16, count: 1 }),
                        _ => None,
                    })
                }
            }
            Case::Cube { start, count } => {
                cx.class("case:cube");
                check_cube(*start, *count, cx)
            }
            Case::Reject { expr } => {
                cx.class("case:reject");
                check_reject(expr, cx)
            }
            Case::Batch { cols, ctors, ops, twins, reject } => {
                let (ctors_ref, ops_ref, twins_ref) = (ctors, ops, twins);
                cx.class("case:batch");
                if let Some(expr) = reject {
                    match check_reject(expr, cx) {
                        Verdict::Fail(mut f) => {
                            f.details["replay_case"] = serde_json::to_value(&Case::Reject { expr: expr.clone() }).unwrap_or_default();
                            return Verdict::Fail(f);
                        }
                        _ => cx.add_evaluations(1),
                    }
                }
                let mut rows = vec![];
                for (i, c) in cols.iter().enumerate() {
                    let other = &cols[(i + 1) % cols.len()];
                    let k = rows.len();
                    rows_for_color(c, other, &mut rows);
                    for r in &mut rows[k..] {
                        r.origin = Origin::Col(i);
                    }
                    let m = c.rgba();
                    cx.class(match c.a {
                        Alpha::One => "colour:opaque",
                        Alpha::Hex(_) => "colour:alpha-hex",
                        Alpha::Milli(_) => "colour:alpha-decimal",
                    });
                    if m.is_short() {
                        cx.class("colour:short-hex");
                        cx.nontrivial(&("col", c));
                    }
                    if !names_of(m.rgb).is_empty() {
                        cx.class("colour:named");
                        cx.nontrivial(&("col", c));
                    }
                    if m.hsl().0.is_none() {
                        cx.class("colour:achromatic");
                    }
                }
                let n0 = rows.len();
                for (i, c) in ctors.iter().enumerate() {
                    let k = rows.len();
                    rows_for_ctor(c, &mut rows);
                    for r in &mut rows[k..] {
                        r.origin = Origin::Ctor(i);
                    }
                    cx.class(match c {
                        Ctor::Rgb { pct: false, .. } => "ctor:rgb-unitless",
                        Ctor::Rgb { pct: true, .. } => "ctor:rgb-percent",
                        Ctor::Hsl { .. } => "ctor:hsl",
                        Ctor::Hwb { .. } => "ctor:hwb",
                    });
                }
                for (i, o) in ops.iter().enumerate() {
                    let k = rows.len();
                    if !rows_for_op(o, &mut rows) {
                        cx.class("op:skipped-illegal-or-conflict");
                    }
                    for r in &mut rows[k..] {
                        r.origin = Origin::Op(i);
                    }
                    cx.class(match o {
                        Op::Kw { f: KwFn::Adjust, .. } => "op:adjust",
                        Op::Kw { f: KwFn::Scale, .. } => "op:scale",
                        Op::Kw { f: KwFn::Change, .. } => "op:change",
                        Op::Hsl1 { .. } => "op:lighten..adjust-hue",
                        Op::Opacity { .. } => "op:opacity",
                        Op::Mix { .. } => "op:mix",
                        Op::Invert { .. } => "op:invert-weight",
                    });
                }
                for (i, t) in twins.iter().enumerate() {
                    let k = rows.len();
                    rows_for_twin(t, &mut rows);
                    for r in &mut rows[k..] {
                        r.origin = Origin::Twin(i);
                    }
                    cx.class(["twin:tint", "twin:shade", "twin:grey"][(t.kind % 3) as usize]);
                }
                for r in &rows[n0..] {
                    if let Expect::ColorTrue(e) | Expect::Color(e) | Expect::Same(e, _) = &r.exp {
                        if is_any(e) {
                            continue;
                        }
                        let d = e.min_tie_distance();
                        if e.has_tie() {
                            cx.class("result:tie(both roundings accepted)");
                        } else if d <= 1e-3 {
                            cx.class("result:near-tie<=1e-3(strict)");
                        }
                        if d <= 1e-6 {
                            cx.nontrivial(&("expr", &r.expr));
                            cx.sample_nontrivial(|| json!({"expression": r.expr, "expected": e.describe(), "real_channels": [e.ch[0].real, e.ch[1].real, e.ch[2].real]}));
                        }
                        if e.ch.iter().any(|c| c.real <= 0.0 || c.real >= 255.0) {
                            cx.class("result:clamped-channel");
                        }
                    }
                }
                cx.sample(|| json!({"first_rows": rows.iter().take(3).map(|r| r.expr.clone()).collect::<Vec<_>>()}));
                run_rows(&rows, cx, &|o| {
                    let e = || Case::Batch { cols: vec![], ctors: vec![], ops: vec![], twins: vec![], reject: None };
                    match (o, e()) {
                        (Origin::Col(i), Case::Batch { mut cols, ctors, ops, twins: tw, .. }) => {
                            cols.push(cols_ref(case)[i]);
                            let n = cols_ref(case).len();
                            if n > 1 {
                                cols.push(cols_ref(case)[(i + 1) % n]);
                            }
                            Some(Case::Batch { cols, ctors, ops, twins: tw, reject: None })
                        }
                        (Origin::Ctor(i), Case::Batch { cols, mut ctors, ops, twins: tw, .. }) => {
                            ctors.push(ctors_ref[i].clone());
                            Some(Case::Batch { cols, ctors, ops, twins: tw, reject: None })
                        }
                        (Origin::Op(i), Case::Batch { cols, ctors, mut ops, twins: tw, .. }) => {
                            ops.push(ops_ref[i].clone());
                            Some(Case::Batch { cols, ctors, ops, twins: tw, reject: None })
                        }
                        (Origin::Twin(i), Case::Batch { cols, ctors, ops, twins: mut tw, .. }) => {
                            tw.push(twins_ref[i]);
                            Some(Case::Batch { cols, ctors, ops, twins: tw, reject: None })
                        }
                        _ => None,
                    }
                })
            }
        }
    }
}

//! C07 — numbers are IEEE doubles with Sass rounding, modulo, comparison and printing rules.
//!
//! A case is one batch of several hundred items compiled in one stylesheet, in both output styles.
//! The oracle is a model evaluator over f64 (`eval`) that tracks an absolute error bound for
//! operations whose result the property does not fix to the last bit (sass:math functions: 1e-9
//! relative; literals with an exponent: 3 ulp), and the exact-decimal judge of `oracle::decimal`.

use crate::engine::*;
use crate::oracle::decimal::{self as dec, TieKind};
use proptest::prelude::*;
use serde::{Deserialize, Serialize};
use serde_json::json;

pub struct C07;

#[derive(Clone, Debug, Serialize, Deserialize, Hash, PartialEq)]
pub enum E {
    /// literal, verbatim source text
    L(String),
    /// "+", "-", "*", "%", "div" (= math.div)
    B(String, Box<E>, Box<E>),
    /// sass:math function
    F(String, Vec<E>),
}

#[derive(Clone, Debug, Serialize, Deserialize, Hash, PartialEq)]
pub enum Kind {
    /// print the value
    P(E),
    /// comparison: "==", "!=", "<", "<=", ">", ">="
    C(String, E, E),
    /// integer check that must be satisfied: "nth" (nth(10 20 30 40 50, x)) or "for" (@for 1 through x)
    I(String, E),
}

#[derive(Clone, Debug, Serialize, Deserialize, Hash, PartialEq)]
pub struct Item {
    pub tag: String,
    pub k: Kind,
}

#[derive(Clone, Debug, Serialize, Deserialize)]
pub struct Case {
    pub items: Vec<Item>,
    /// integer checks that must be rejected (Kind::I only), one compilation each
    #[serde(default)]
    pub errs: Vec<Item>,
}

// ------------------------------------------------------------------------------------------
// rendering to SCSS

fn is_inverse_trig(n: &str) -> bool {
    matches!(n, "asin" | "acos" | "atan" | "atan2")
}

pub fn render(e: &E, root: bool) -> String {
    match e {
        E::L(t) => {
            if root || !t.starts_with('-') {
                t.clone()
            } else {
                format!("({})", t)
            }
        }
        E::B(op, a, b) => {
            let (a, b) = (render(a, false), render(b, false));
            if op == "div" {
                format!("math.div({}, {})", a, b)
            } else {
                format!("({} {} {})", a, op, b)
            }
        }
        E::F(n, args) => {
            let a: Vec<String> = args.iter().map(|x| render(x, false)).collect();
            let call = format!("math.{}({})", n, a.join(", "));
            if is_inverse_trig(n) {
                // these return degrees; strip the unit (division by 1deg is exact)
                format!("math.div({}, 1deg)", call)
            } else {
                call
            }
        }
    }
}

fn render_item(i: usize, it: &Item) -> String {
    match &it.k {
        Kind::P(e) => format!("p{}:{}", i, render(e, true)),
        Kind::C(op, a, b) => format!("p{}:{} {} {}", i, render(a, false), op, render(b, false)),
        Kind::I(how, e) => {
            if how == "nth" {
                format!("p{}:nth(10 20 30 40 50, {})", i, render(e, false))
            } else {
                format!("p{}:f({})", i, render(e, false))
            }
        }
    }
}

const PRELUDE: &str = "@use \"sass:math\";\n@function f($x){$r:0;@for $i from 1 through $x{$r:$r+1}@return $r}\n";

/// nth() with an index that is fuzzily equal to, but as a double greater than, the list length:
/// grass rejects it (confirmed finding); such items are compiled on their own so that the rest of
/// the batch is still judged.
fn is_solo(it: &Item) -> bool {
    if let Kind::I(how, e) = &it.k {
        if how == "nth" {
            let m = eval(e);
            return m.known() && m.v > 5.0;
        }
    }
    false
}

pub fn stylesheet(items: &[Item]) -> String {
    stylesheet_with(items, false)
}

fn stylesheet_with(items: &[Item], skip_solo: bool) -> String {
    let mut s = String::from(PRELUDE);
    s.push_str("a{");
    for (i, it) in items.iter().enumerate() {
        if skip_solo && (is_solo(it) || item_may_error(it)) {
            continue;
        }
        s.push_str(&render_item(i, it));
        s.push_str(";\n");
    }
    s.push_str("}\n");
    s
}

/// `a{p0:v;p1:v}` / expanded equivalent -> values by index. The values contain no ';', '{' or '}'.
fn split_values(css: &str, n: usize) -> Vec<Option<String>> {
    let mut out = vec![None; n];
    let body = match (css.find('{'), css.rfind('}')) {
        (Some(a), Some(b)) if a < b => &css[a + 1..b],
        _ => return out,
    };
    for d in body.split(';') {
        if let Some((name, value)) = d.split_once(':') {
            let name = name.trim();
            if let Some(ix) = name.strip_prefix('p').and_then(|x| x.parse::<usize>().ok()) {
                if ix < n {
                    out[ix] = Some(value.trim().to_string());
                }
            }
        }
    }
    out
}

// ------------------------------------------------------------------------------------------
// the model

#[derive(Clone, Copy, Debug)]
pub struct M {
    pub v: f64,
    /// absolute error bound; 0 = the double is fixed exactly; NaN = the model does not know
    pub e: f64,
    /// second acceptable exact value (round/ceil/floor inside the tolerance neighbourhood)
    pub alt: Option<f64>,
    /// an infinity whose sign depends on the sign of a zero divisor
    pub sign_any: bool,
    pub ops: u32,
}

impl M {
    fn exact(v: f64, ops: u32) -> M {
        M { v, e: 0.0, alt: None, sign_any: false, ops }
    }
    fn unknown(ops: u32) -> M {
        M { v: f64::NAN, e: f64::NAN, alt: None, sign_any: false, ops }
    }
    pub fn known(&self) -> bool {
        !self.e.is_nan()
    }
    fn plain(&self) -> bool {
        self.known() && self.alt.is_none() && !self.sign_any
    }
    fn exactly(&self) -> bool {
        self.plain() && self.e == 0.0
    }
}

fn dart_mod(a: f64, b: f64) -> f64 {
    let r = a % b; // fmod: exact
    if r == 0.0 {
        0.0
    } else if r < 0.0 {
        if b < 0.0 {
            r - b
        } else {
            r + b
        }
    } else {
        r
    }
}

/// Sass modulo: the result takes the sign of the divisor; x % 0 = NaN
pub fn sass_mod(a: f64, b: f64) -> f64 {
    if b > 0.0 {
        dart_mod(a, b)
    } else if b == 0.0 {
        f64::NAN
    } else {
        let r = dart_mod(a, -b);
        if r == 0.0 {
            0.0
        } else {
            r + b
        }
    }
}

const REL_FN: f64 = 1e-9;
const NEIGHBOURHOOD: f64 = 1e-9;

pub fn eval(e: &E) -> M {
    match e {
        E::L(t) => match dec::nearest_f64(t) {
            None => M::unknown(0),
            Some(v) => {
                if t.contains(|c| c == 'e' || c == 'E') {
                    // mantissa * 10^exp computed in floating point is an accepted reading
                    M { v, e: 3.0 * dec::ulp(v), alt: None, sign_any: false, ops: 0 }
                } else {
                    M::exact(v, 0)
                }
            }
        },
        E::B(op, a, b) => {
            // only a literal, unsigned zero divisor fixes the sign of the resulting infinity: a computed
            // zero may be -0 in one implementation and +0 (integer-backed, or normalised) in another
            let literal_divisor = matches!(&**b, E::L(t) if !t.starts_with('-'));
            let (a, b) = (eval(a), eval(b));
            let ops = a.ops + b.ops + 1;
            if !a.plain() || !b.plain() {
                return M::unknown(ops);
            }
            let inexact = a.e > 0.0 || b.e > 0.0;
            match op.as_str() {
                "+" | "-" | "*" => {
                    let v = match op.as_str() {
                        "+" => a.v + b.v,
                        "-" => a.v - b.v,
                        _ => a.v * b.v,
                    };
                    if !inexact {
                        return M::exact(v, ops);
                    }
                    if !v.is_finite() || !a.v.is_finite() || !b.v.is_finite() {
                        return M::unknown(ops);
                    }
                    let e = if op == "*" {
                        a.v.abs() * b.e + b.v.abs() * a.e + a.e * b.e
                    } else {
                        a.e + b.e
                    };
                    M { v, e: e * 1.0001 + 2.0 * dec::ulp(v), alt: None, sign_any: false, ops }
                }
                "div" => {
                    if b.v == 0.0 {
                        if inexact {
                            return M::unknown(ops);
                        }
                        let v = a.v / b.v;
                        let mut m = M::exact(v, ops);
                        // a negative zero divisor: integer-backed implementations have no -0
                        if v.is_infinite() && (b.v.is_sign_negative() || !literal_divisor) {
                            m.sign_any = true;
                        }
                        return m;
                    }
                    let v = a.v / b.v;
                    if !inexact {
                        return M::exact(v, ops);
                    }
                    if !v.is_finite() || b.e >= b.v.abs() / 2.0 {
                        return M::unknown(ops);
                    }
                    let e = (a.e + v.abs() * b.e) / (b.v.abs() - b.e);
                    M { v, e: e * 1.0001 + 2.0 * dec::ulp(v), alt: None, sign_any: false, ops }
                }
                "%" => {
                    if inexact || a.v.is_infinite() || b.v.is_infinite() {
                        return M::unknown(ops);
                    }
                    M::exact(sass_mod(a.v, b.v), ops)
                }
                _ => M::unknown(ops),
            }
        }
        E::F(name, args) => {
            let ms: Vec<M> = args.iter().map(eval).collect();
            let ops = ms.iter().map(|m| m.ops).sum::<u32>() + 1;
            if ms.iter().any(|m| !m.plain()) || ms.is_empty() {
                return M::unknown(ops);
            }
            let a = ms[0];
            match name.as_str() {
                "abs" => M { v: a.v.abs(), e: a.e, alt: None, sign_any: false, ops },
                "round" | "ceil" | "floor" => {
                    if !a.v.is_finite() {
                        return M::unknown(ops);
                    }
                    if a.v.abs() >= 4503599627370496.0 {
                        return if a.e == 0.0 { M::exact(a.v, ops) } else { M::unknown(ops) };
                    }
                    if a.e > 0.25 {
                        return M::unknown(ops);
                    }
                    let fl = a.v.floor();
                    if name == "round" {
                        let d = ((a.v - fl) - 0.5).abs();
                        if d > NEIGHBOURHOOD + a.e {
                            M::exact(if a.v - fl < 0.5 { fl } else { fl + 1.0 }, ops)
                        } else {
                            M { v: fl, e: 0.0, alt: Some(fl + 1.0), sign_any: false, ops }
                        }
                    } else {
                        let n = a.v.round();
                        let d = (a.v - n).abs();
                        if a.e == 0.0 && d == 0.0 {
                            M::exact(n, ops)
                        } else if d > NEIGHBOURHOOD + a.e {
                            M::exact(if name == "ceil" { a.v.ceil() } else { fl }, ops)
                        } else if name == "ceil" {
                            M { v: n, e: 0.0, alt: Some(n + 1.0), sign_any: false, ops }
                        } else {
                            M { v: n - 1.0, e: 0.0, alt: Some(n), sign_any: false, ops }
                        }
                    }
                }
                _ => {
                    // real-valued functions: arguments must be exactly known
                    if ms.iter().any(|m| !m.exactly()) {
                        return M::unknown(ops);
                    }
                    // an argument within the 1e-11 tolerance of an integer (0, 1, -1 in particular) may be
                    // taken as that integer (dart-sass 1.54 does so for several functions): no claim
                    if ms.iter().any(|m| m.v.is_finite() && m.v != m.v.round() && (m.v - m.v.round()).abs() < 1.1 * EPS) {
                        return M::unknown(ops);
                    }
                    // the sign of a zero is not fixed by the property (integer-backed numbers have no -0,
                    // modulo may or may not normalise it): atan2 and pow(0, negative) depend on it
                    if (name == "atan2" || name == "pow") && ms.iter().any(|m| m.v == 0.0) {
                        return M::unknown(ops);
                    }
                    let x = a.v;
                    let deg = 180.0 / std::f64::consts::PI;
                    let v = match (name.as_str(), ms.len()) {
                        ("sqrt", 1) => x.sqrt(),
                        ("sin", 1) => x.sin(),
                        ("cos", 1) => x.cos(),
                        ("tan", 1) => x.tan(),
                        ("asin", 1) => x.asin() * deg,
                        ("acos", 1) => x.acos() * deg,
                        ("atan", 1) => x.atan() * deg,
                        ("log", 1) => x.ln(),
                        ("log", 2) => x.ln() / ms[1].v.ln(),
                        ("pow", 2) => x.powf(ms[1].v),
                        ("atan2", 2) => x.atan2(ms[1].v) * deg,
                        ("hypot", 2) => x.hypot(ms[1].v),
                        _ => return M::unknown(ops),
                    };
                    if !x.is_finite() || ms.iter().any(|m| !m.v.is_finite()) {
                        return M::unknown(ops);
                    }
                    if v.is_nan() || v.is_infinite() {
                        // log(0), sqrt(-1), pow overflow, ...
                        if name == "pow" || (name == "log" && ms.len() == 2) {
                            // overflow thresholds / 0-division inside log-with-base are not fixed to the bit
                            return M::unknown(ops);
                        }
                        return M::exact(v, ops);
                    }
                    if v.abs() > 1e300 {
                        return M::unknown(ops);
                    }
                    // sin/cos/tan of huge arguments depend on the argument reduction; the real-valued
                    // function is what the property names, and libm is correct there; keep it.
                    M { v, e: v.abs() * REL_FN + f64::MIN_POSITIVE, alt: None, sign_any: false, ops }
                }
            }
        }
    }
}

/// round/ceil/floor of a non-finite number is an error in Sass ("Infinity or NaN toInt"); an item
/// that may contain one is kept out of the batch.
fn may_error(e: &E) -> bool {
    match e {
        E::L(_) => false,
        E::B(_, a, b) => may_error(a) || may_error(b),
        E::F(n, args) => {
            if args.iter().any(may_error) {
                return true;
            }
            if matches!(n.as_str(), "round" | "ceil" | "floor") {
                let m = eval(&args[0]);
                return !m.plain() || !m.v.is_finite();
            }
            false
        }
    }
}

fn item_may_error(it: &Item) -> bool {
    match &it.k {
        Kind::P(e) => may_error(e),
        Kind::C(_, a, b) => may_error(a) || may_error(b),
        Kind::I(_, e) => may_error(e),
    }
}

// ------------------------------------------------------------------------------------------
// judging

#[derive(Clone, Debug, PartialEq)]
enum Zone {
    Equal,
    Different,
    Either,
}

const EPS: f64 = 1e-11;

fn cmp_zone(a: &M, b: &M) -> Zone {
    let d = (a.v - b.v).abs();
    let err = a.e + b.e;
    if a.v == b.v && err == 0.0 {
        return Zone::Equal;
    }
    if d - err > EPS * (1.0 + 1e-6) {
        return Zone::Different;
    }
    if d + err < EPS * (1.0 - 1e-6) {
        // same 1e-11 bucket, robustly?
        let (ra, rb) = (a.v * 1e11, b.v * 1e11);
        if ra.abs() < 1e15 && rb.abs() < 1e15 {
            let m = |r: f64, e: f64| 1e-3 + e * 1e11 + r.abs() * 4e-16;
            let near_half = |r: f64, e: f64| ((r - r.floor()) - 0.5).abs() < m(r, e);
            if !near_half(ra, a.e) && !near_half(rb, b.e) && ra.round() == rb.round() {
                return Zone::Equal;
            }
        }
    }
    Zone::Either
}

fn root_kind(e: &E) -> String {
    match e {
        E::L(t) => {
            if t.contains(|c| c == 'e' || c == 'E') {
                "literal-exp".into()
            } else {
                "literal".into()
            }
        }
        E::B(op, _, _) => format!("op{}", op),
        E::F(n, _) => format!("fn-{}", n),
    }
}

pub const SIG_F12: &str = "C07/print-compressed-zero-just-below-one";
pub const SIG_ORD: &str = "C07/ordering-not-fuzzy";
pub const SIG_NTH: &str = "C07/int-check:nth:index-just-above-length-rejected";
/// signatures of confirmed findings: reported only when nothing else fails in the same batch
const LOW_PRIORITY: [&str; 3] = [SIG_F12, SIG_ORD, SIG_NTH];

struct Judge<'a> {
    cx: &'a mut Ctx,
    fails: Vec<Failure>,
}

impl<'a> Judge<'a> {
    fn fail(&mut self, sig: String, what: String, details: serde_json::Value) {
        self.fails.push(Failure::new(sig, what, details));
    }

    fn print_item(&mut self, it: &Item, e: &E, m: &M, text: &str, style: Style) {
        let compressed = style == Style::Compressed;
        let st = if compressed { "compressed" } else { "expanded" };
        let src = render(e, true);
        if m.v.is_nan() && m.e == 0.0 {
            self.cx.class("P:expect-NaN");
            if !text.to_ascii_lowercase().contains("nan") {
                self.fail(
                    format!("C07/value:{}:expected-NaN", root_kind(e)),
                    format!("`{}` must be NaN, printed `{}`", src, text),
                    json!({"source": src, "observed": text, "style": st}),
                );
            }
            return;
        }
        if m.v.is_infinite() {
            self.cx.class("P:expect-Infinity");
            let lower = text.to_ascii_lowercase();
            let sign_ok = m.sign_any || (lower.starts_with('-') == (m.v < 0.0));
            if !lower.contains("infinity") || !sign_ok {
                self.fail(
                    format!("C07/value:{}:expected-Infinity", root_kind(e)),
                    format!("`{}` must be {}Infinity, printed `{}`", src, if m.v < 0.0 { "-" } else { "" }, text),
                    json!({"source": src, "observed": text, "style": st}),
                );
            }
            return;
        }
        let (lo, hi) = (m.v - m.e, m.v + m.e);
        if lo.abs().max(hi.abs()) >= 9.2e18 {
            // beyond the quantified magnitudes (and beyond what dart-sass 1.54 prints faithfully):
            // only the notation is judged
            self.cx.class("P:beyond-2^63:notation-only");
            if let Err(why) = dec::parse_printed(text, compressed) {
                self.fail(
                    format!("C07/print:{}:notation:{}", st, why),
                    format!("`{}` printed `{}`: {}", src, text, why),
                    json!({"source": src, "observed": text, "style": st}),
                );
            }
            return;
        }
        let j = dec::judge_printed(text, lo, hi, compressed);
        match j.tie {
            TieKind::Exact => self.cx.class("P:tie-exact(either-neighbour)"),
            TieKind::Indistinguishable => self.cx.class("P:tie-indistinguishable(either-neighbour)"),
            TieKind::None => {}
        }
        let mut ok = j.ok;
        if !ok {
            if let Some(alt) = m.alt {
                ok = dec::judge_printed(text, alt, alt, compressed).ok;
            }
        }
        if ok {
            return;
        }
        let expected = dec::reference_text(m.v, compressed);
        // finding #12: a value in [1 - 5e-11, 1) rounds up to 1 but compressed output prints 0
        let mag = m.v.abs();
        if compressed && mag < 1.0 && mag >= 1.0 - 6e-11 && (text == "0" || text == "-0") && (expected == "1" || expected == "-1") {
            self.fail(
                SIG_F12.to_string(),
                format!("`{}` (= {}) printed `{}` in compressed mode, expected `{}`", src, dec::Dec::from_f64(m.v).to_plain(), text, expected),
                json!({"source": src, "observed": text, "expected": expected, "style": st}),
            );
            return;
        }
        let syntactic = dec::parse_printed(text, compressed).is_err();
        let sig = if syntactic {
            format!("C07/print:{}:notation:{}", st, j.reason)
        } else if m.e == 0.0 {
            format!("C07/print:{}:wrong-digits:{}", st, root_kind(e))
        } else {
            format!("C07/value:{}:outside-tolerance", root_kind(e))
        };
        self.fail(
            sig,
            format!("`{}` printed `{}` ({}), expected `{}`: {}", src, text, st, expected, j.reason),
            json!({
                "tag": it.tag, "source": src, "observed": text, "expected": expected, "style": st,
                "model_value_exact": dec::Dec::from_f64(m.v).to_plain(), "model_error_bound": m.e, "alt": m.alt,
            }),
        );
    }

    fn cmp_item(&mut self, op: &str, a: &E, b: &E, ma: &M, mb: &M, text: &str, style: Style) {
        let zone = cmp_zone(ma, mb);
        if style == Style::Expanded {
            self.cx.class(&format!("C:zone-{:?}", zone));
        }
        let src = format!("{} {} {}", render(a, false), op, render(b, false));
        let obs = match text {
            "true" => true,
            "false" => false,
            _ => {
                self.fail(
                    "C07/cmp:not-a-boolean".into(),
                    format!("`{}` printed `{}`", src, text),
                    json!({"source": src, "observed": text}),
                );
                return;
            }
        };
        let exp = match zone {
            Zone::Either => return,
            Zone::Equal => matches!(op, "==" | "<=" | ">="),
            Zone::Different => match op {
                "==" => false,
                "!=" => true,
                "<" => ma.v < mb.v,
                "<=" => ma.v <= mb.v,
                ">" => ma.v > mb.v,
                _ => ma.v >= mb.v,
            },
        };
        if obs == exp {
            return;
        }
        let ordering = matches!(op, "<" | "<=" | ">" | ">=");
        let strict = match op {
            "<" => ma.v < mb.v,
            "<=" => ma.v <= mb.v,
            ">" => ma.v > mb.v,
            ">=" => ma.v >= mb.v,
            _ => false,
        };
        let sig = if ordering && zone == Zone::Equal && obs == strict {
            SIG_ORD.to_string()
        } else {
            format!("C07/cmp:{}:{:?}", op, zone)
        };
        self.fail(
            sig,
            format!("`{}` is {}, expected {} (|a-b| = {:e}, zone {:?})", src, obs, exp, (ma.v - mb.v).abs(), zone),
            json!({"source": src, "observed": obs, "expected": exp, "a": dec::Dec::from_f64(ma.v).to_plain(), "b": dec::Dec::from_f64(mb.v).to_plain()}),
        );
    }
}

fn near(x: f64, grid_offset: f64) -> bool {
    // within 1e-9 of n + grid_offset for some integer n
    let y = x - grid_offset;
    (y - y.round()).abs() < 1e-9
}

fn nontrivial_value(m: &M) -> bool {
    if !m.known() {
        return false;
    }
    if m.ops >= 3 {
        return true;
    }
    if !m.v.is_finite() {
        return false;
    }
    let a = m.v.abs();
    (a != 0.0 && !(1e-6..=1e12).contains(&a)) || (a < 4e15 && (near(m.v, 0.0) && m.v != m.v.round() || near(m.v, 0.5))) || (a < 9e18 && dec::needs_rounding(m.v))
}

/// integer the value must be accepted as, if the integer check must succeed
fn must_be_int(m: &M) -> Option<i64> {
    if !m.plain() || !m.v.is_finite() {
        return None;
    }
    let n = m.v.round();
    // inside the tolerance and inside the integer's own 1e-11 bucket (both dart-sass definitions agree)
    if (m.v - n).abs() + m.e < 0.49 * EPS && (1.0..=5.0).contains(&n) {
        Some(n as i64)
    } else {
        None
    }
}

fn must_not_be_int(m: &M) -> bool {
    m.plain() && m.v.is_finite() && (m.v - m.v.round()).abs() - m.e > NEIGHBOURHOOD
}

// ------------------------------------------------------------------------------------------
// generators

fn digits(n: usize) -> BoxedStrategy<String> {
    proptest::collection::vec(0u8..10, n..=n)
        .prop_map(|v| v.into_iter().map(|d| (b'0' + d) as char).collect())
        .boxed()
}

/// value in units of 1e-14 -> literal text
fn fixed14(n: i128) -> String {
    let neg = n < 0;
    let a = n.unsigned_abs();
    let ip = a / 100_000_000_000_000;
    let fp = a % 100_000_000_000_000;
    let mut s = String::new();
    if neg {
        s.push('-');
    }
    s.push_str(&ip.to_string());
    if fp != 0 {
        let f = format!("{:014}", fp);
        s.push('.');
        s.push_str(f.trim_end_matches('0'));
    }
    s
}

const U14: i128 = 100_000_000_000_000;

fn int_part() -> BoxedStrategy<u64> {
    prop_oneof![
        4 => Just(0u64),
        2 => 0u64..10,
        2 => 0u64..1000,
        1 => 0u64..1_000_000,
        1 => 1_000_000u64..1_000_000_000_000,
    ]
    .boxed()
}

/// literals dense near integers, x.5, the 10th-digit rounding boundary and just below 1
fn lit_boundary() -> BoxedStrategy<String> {
    let frac10 = prop_oneof![
        3 => Just("0000000000".to_string()),
        3 => Just("9999999999".to_string()),
        2 => Just("5000000000".to_string()),
        2 => Just("4999999999".to_string()),
        1 => Just("0000000001".to_string()),
        1 => Just("9999999998".to_string()),
        4 => digits(10),
        2 => (digits(3), 0usize..8).prop_map(|(d, z)| format!("{}{}{}", "0".repeat(z.min(7)), d, "0".repeat(7 - z.min(7)))),
    ];
    let tail = prop_oneof![
        3 => Just("".to_string()),
        3 => Just("5".to_string()),
        1 => Just("4".to_string()),
        1 => Just("6".to_string()),
        2 => Just("49".to_string()),
        2 => Just("51".to_string()),
        2 => Just("4999".to_string()),
        2 => Just("5001".to_string()),
        2 => Just("4999999".to_string()),
        2 => Just("5000001".to_string()),
        1 => Just("499999999999999".to_string()),
        1 => Just("500000000000001".to_string()),
        1 => Just("05".to_string()),
        1 => Just("95".to_string()),
        1 => Just("99".to_string()),
        1 => Just("01".to_string()),
        1 => Just("1".to_string()),
        1 => Just("9".to_string()),
        3 => (1usize..9).prop_flat_map(digits),
    ];
    (any::<bool>(), int_part(), frac10, tail, 0u8..8)
        .prop_map(|(neg, ip, f, t, form)| {
            let mut frac = format!("{}{}", f, t);
            if form != 0 {
                // most of the time without trailing zeros; sometimes keep them (`0.50`)
                frac = frac.trim_end_matches('0').to_string();
            }
            let mut s = String::new();
            if neg {
                s.push('-');
            }
            if ip == 0 && form == 1 && !frac.is_empty() {
                // `.5`
            } else {
                s.push_str(&ip.to_string());
            }
            if !frac.is_empty() {
                s.push('.');
                s.push_str(&frac);
            }
            s
        })
        .boxed()
}

/// mantissa of 1..17 significant digits times 10^k, k in -12..=18, plain or with an exponent
fn lit_magnitude() -> BoxedStrategy<String> {
    ((1usize..18).prop_flat_map(digits), 1u8..10, -12i32..=18, any::<bool>(), 0u8..6)
        .prop_map(|(rest, first, k, neg, form)| {
            // value = first.rest * 10^k
            let mant = format!("{}{}", first, &rest[..rest.len() - 1]);
            let mant_t = mant.trim_end_matches('0');
            let mant_t = if mant_t.is_empty() { "0" } else { mant_t };
            let sign = if neg { "-" } else { "" };
            match form {
                0 => {
                    // d.ddd e k
                    let (h, t) = mant_t.split_at(1);
                    let e = if k >= 0 && rest.len() % 2 == 0 { format!("e+{}", k) } else { format!("e{}", k) };
                    if t.is_empty() {
                        format!("{}{}{}", sign, h, e)
                    } else {
                        format!("{}{}.{}{}", sign, h, t, e)
                    }
                }
                1 => {
                    // integer mantissa with exponent: ddddd E (k - len + 1)
                    format!("{}{}E{}", sign, mant_t, k - (mant_t.len() as i32 - 1))
                }
                _ => {
                    // plain decimal
                    let point = k + 1; // digits before the decimal point
                    let s = if point <= 0 {
                        format!("0.{}{}", "0".repeat((-point) as usize), mant_t)
                    } else if (point as usize) >= mant_t.len() {
                        format!("{}{}", mant_t, "0".repeat(point as usize - mant_t.len()))
                    } else {
                        format!("{}.{}", &mant_t[..point as usize], &mant_t[point as usize..])
                    };
                    format!("{}{}", sign, s)
                }
            }
        })
        .boxed()
}

fn lit_simple() -> BoxedStrategy<String> {
    const POOL: [&str; 40] = [
        "0", "1", "2", "3", "7", "10", "100", "0.1", "0.2", "0.3", "0.7", "1.5", "2.5", "0.5", "-1", "-2", "-3", "-7", "-0.1", "-0.5", "-1.5", "-2.5",
        "1e-11", "1e-10", "1e10", "3.3", "0.01", "1000000", "9", "6", "0.25", "1e-12", "0.9999999999", "0.99999999999", "1.00000000001", "12.5", "-0.3", "1e15",
        "4.35", "-0.0",
    ];
    prop_oneof![
        6 => any::<u16>().prop_map(|i| POOL[idx(i, POOL.len())].to_string()),
        2 => (-1000i32..1000).prop_map(|n| n.to_string()),
        2 => (-100000i32..100000, 1u32..5).prop_map(|(n, d)| {
            let p = 10i32.pow(d);
            let s = if n < 0 { "-" } else { "" };
            let a = n.abs();
            let f = format!("{:0w$}", a % p, w = d as usize);
            format!("{}{}.{}", s, a / p, f)
        }),
    ]
    .boxed()
}

fn leaf() -> BoxedStrategy<E> {
    prop_oneof![
        5 => lit_simple(),
        3 => lit_boundary(),
        2 => lit_magnitude(),
    ]
    .prop_map(E::L)
    .boxed()
}

fn chain() -> BoxedStrategy<E> {
    leaf()
        .prop_recursive(3, 12, 2, |inner| {
            let bin = (any::<u16>(), inner.clone(), inner.clone()).prop_map(|(o, a, b)| {
                const OPS: [&str; 10] = ["+", "-", "*", "%", "div", "+", "-", "*", "%", "div"];
                E::B(OPS[idx(o, OPS.len())].to_string(), Box::new(a), Box::new(b))
            });
            let f1 = (any::<u16>(), inner.clone()).prop_map(|(o, a)| {
                const FS: [&str; 13] = ["sqrt", "sin", "cos", "tan", "asin", "acos", "atan", "log", "abs", "round", "ceil", "floor", "abs"];
                E::F(FS[idx(o, FS.len())].to_string(), vec![a])
            });
            let f2 = (any::<u16>(), inner.clone(), inner).prop_map(|(o, a, b)| {
                const FS: [&str; 4] = ["pow", "log", "atan2", "hypot"];
                E::F(FS[idx(o, FS.len())].to_string(), vec![a, b])
            });
            prop_oneof![6 => bin, 3 => f1, 1 => f2]
        })
        .boxed()
}

/// functions of "nice" arguments so that the function results themselves are in the domain
fn fn_call() -> BoxedStrategy<E> {
    let unit = (-1_000_000i32..=1_000_000).prop_map(|n| fixed14(n as i128 * (U14 / 1_000_000)));
    let small = (-200_000i32..=200_000).prop_map(|n| fixed14(n as i128 * (U14 / 10_000)));
    let pos = prop_oneof![(1i64..2_000_000).prop_map(|n| fixed14(n as i128 * (U14 / 1000))), lit_magnitude().prop_map(|s| s.trim_start_matches('-').to_string())];
    prop_oneof![
        2 => (prop_oneof![Just("asin"), Just("acos")], unit).prop_map(|(f, x)| E::F(f.into(), vec![E::L(x)])),
        3 => (prop_oneof![Just("sin"), Just("cos"), Just("tan"), Just("atan")], small.clone()).prop_map(|(f, x)| E::F(f.into(), vec![E::L(x)])),
        3 => (prop_oneof![Just("sqrt"), Just("log")], pos.clone()).prop_map(|(f, x)| E::F(f.into(), vec![E::L(x)])),
        1 => (prop_oneof![Just("sqrt"), Just("log")], small.clone()).prop_map(|(f, x)| E::F(f.into(), vec![E::L(x)])),
        2 => (pos.clone(), small.clone()).prop_map(|(x, y)| E::F("pow".into(), vec![E::L(x), E::L(y)])),
        1 => (small.clone(), -8i32..9).prop_map(|(x, y)| E::F("pow".into(), vec![E::L(x), E::L(y.to_string())])),
        1 => (pos.clone(), pos).prop_map(|(x, y)| E::F("log".into(), vec![E::L(x), E::L(y)])),
        1 => (small.clone(), small.clone()).prop_map(|(x, y)| E::F("atan2".into(), vec![E::L(x), E::L(y)])),
        1 => (small.clone(), small).prop_map(|(x, y)| E::F("hypot".into(), vec![E::L(x), E::L(y)])),
    ]
    .boxed()
}

/// a % b and math.div over operands of both signs, incl. zero divisors and exact multiples
fn mod_div() -> BoxedStrategy<E> {
    let operand = prop_oneof![
        4 => (-3000i32..3000).prop_map(|n| fixed14(n as i128 * (U14 / 100))),
        2 => (-30i32..30).prop_map(|n| n.to_string()),
        1 => Just("0".to_string()),
        1 => lit_boundary(),
        1 => lit_magnitude(),
    ];
    (operand.clone(), operand, 0u8..4)
        .prop_map(|(a, b, o)| E::B(if o == 0 { "div".into() } else { "%".into() }, Box::new(E::L(a)), Box::new(E::L(b))))
        .boxed()
}

const DELTAS: [i128; 24] = [
    0, 1, 10, 50, 99, 100, 400, 499, 500, 501, 900, 990, 999, 1000, 1001, 1010, 1100, 1500, 2000, 5000, 9000, 10_000, 100_000, 10_000_000,
];

/// pair (x, x + delta) with delta around 1e-11 (units 1e-14), for comparisons
fn cmp_pair() -> BoxedStrategy<Item> {
    let base = prop_oneof![
        3 => (0i128..10, 0i128..U14).prop_map(|(i, f)| i * U14 + f),
        2 => (0i128..1000).prop_map(|i| i * U14),
        2 => (0i128..1000, 0i128..100_000).prop_map(|(i, f)| i * U14 + f * (U14 / 100_000)),
        1 => (0i128..100_000_000, 0i128..U14).prop_map(|(i, f)| i * U14 + f),
        // bucket edges: x.xxxxxxxxxx d 5 000 with the 11th digit free
        2 => (0i128..10, 0i128..100_000_000_000i128).prop_map(|(i, f)| i * U14 + f * 1000 + 500),
    ];
    (base, any::<u16>(), any::<bool>(), any::<bool>(), any::<u16>(), any::<bool>())
        .prop_map(|(b, d, dneg, neg, op, swap)| {
            const OPS: [&str; 6] = ["==", "!=", "<", "<=", ">", ">="];
            let delta = DELTAS[idx(d, DELTAS.len())] * if dneg { -1 } else { 1 };
            let (mut x, mut y) = (b, b + delta);
            if neg {
                x = -x;
                y = -y;
            }
            if swap {
                std::mem::swap(&mut x, &mut y);
            }
            Item {
                tag: "cmp-pair".into(),
                k: Kind::C(OPS[idx(op, OPS.len())].to_string(), E::L(fixed14(x)), E::L(fixed14(y))),
            }
        })
        .boxed()
}

fn cmp_chain() -> BoxedStrategy<Item> {
    (chain(), chain(), any::<u16>())
        .prop_map(|(a, b, op)| {
            const OPS: [&str; 6] = ["==", "!=", "<", "<=", ">", ">="];
            Item { tag: "cmp-chain".into(), k: Kind::C(OPS[idx(op, OPS.len())].to_string(), a, b) }
        })
        .boxed()
}

const RDELTAS: [i128; 16] = [
    0, 1, 10, 100, 900, 1100, 10_000, 50_000, 200_000, 1_000_000, 1_000_000_000, 10_000_000_000_000, 40_000_000_000_000, 49_999_999_999_999, 49_999_999_999_000,
    49_999_900_000_000,
];

/// round/ceil/floor of k, k + 0.5 displaced by a small amount
fn rounding_item() -> BoxedStrategy<Item> {
    (-50i128..50, any::<bool>(), any::<u16>(), any::<bool>(), any::<u16>())
        .prop_map(|(k, half, d, dneg, f)| {
            const FS: [&str; 3] = ["round", "ceil", "floor"];
            let delta = RDELTAS[idx(d, RDELTAS.len())] * if dneg { -1 } else { 1 };
            let x = k * U14 + if half { U14 / 2 } else { 0 } + delta;
            Item { tag: "rounding".into(), k: Kind::P(E::F(FS[idx(f, FS.len())].to_string(), vec![E::L(fixed14(x))])) }
        })
        .boxed()
}

fn int_ok_item() -> BoxedStrategy<Item> {
    let lit = (1i128..=5, any::<u16>(), any::<bool>()).prop_map(|(k, d, dneg)| {
        const DS: [i128; 7] = [0, 1, 10, 100, 300, 450, 480];
        let delta = DS[idx(d, DS.len())] * if dneg { -1 } else { 1 };
        E::L(fixed14(k * U14 + delta))
    });
    let expr = any::<u16>().prop_map(|i| {
        let l = |s: &str| Box::new(E::L(s.to_string()));
        let pool = [
            E::B("*".into(), l("0.1"), l("30")),
            E::B("div".into(), l("6"), l("2")),
            E::B("+".into(), l("1.5"), l("1.5")),
            E::B("*".into(), E::B("div".into(), l("1"), l("3")).into(), l("3")),
            E::B("+".into(), l("0.1"), l("0.9")),
            E::B("-".into(), l("4.35"), l("0.35")),
            // 4.35 * 100 = 434.99999999999994; / 145 = 2.9999999999999996
            E::B("div".into(), E::B("*".into(), l("4.35"), l("100")).into(), l("145")),
            E::F("sqrt".into(), vec![E::L("16".into())]),
        ];
        pool[idx(i, pool.len())].clone()
    });
    (prop_oneof![3 => lit, 1 => expr], any::<bool>())
        .prop_map(|(e, nth)| Item { tag: "int-check-ok".into(), k: Kind::I(if nth { "nth".into() } else { "for".into() }, e) })
        .boxed()
}

fn int_err_item() -> BoxedStrategy<Item> {
    (1i128..=5, any::<u16>(), any::<bool>(), any::<bool>())
        .prop_map(|(k, d, dneg, nth)| {
            const DS: [i128; 8] = [200_000, 1_000_000, 10_000_000, 1_000_000_000, 10_000_000_000_000, 30_000_000_000_000, 49_000_000_000_000, 50_000_000_000_000];
            let delta = DS[idx(d, DS.len())] * if dneg { -1 } else { 1 };
            Item { tag: "int-check-err".into(), k: Kind::I(if nth { "nth".into() } else { "for".into() }, E::L(fixed14(k * U14 + delta))) }
        })
        .boxed()
}

fn item() -> BoxedStrategy<Item> {
    let p = |tag: &'static str, s: BoxedStrategy<E>| s.prop_map(move |e| Item { tag: tag.into(), k: Kind::P(e) }).boxed();
    prop_oneof![
        28 => p("lit-boundary", lit_boundary().prop_map(E::L).boxed()),
        10 => p("lit-magnitude", lit_magnitude().prop_map(E::L).boxed()),
        20 => p("chain", chain()),
        8 => p("fn", fn_call()),
        8 => p("mod-div", mod_div()),
        12 => cmp_pair(),
        4 => cmp_chain(),
        7 => rounding_item(),
        3 => int_ok_item(),
    ]
    .boxed()
}

pub const BATCH: usize = 500;

impl Prop for C07 {
    type Case = Case;
    fn id(&self) -> &'static str {
        "C07"
    }
    fn rule(&self) -> String {
        "a case is a batch of 1..500 items compiled once per output style (plus <=2 integer checks that must be rejected, one compile each). Items: printing of literals dense near integers / x.5 / the 10th-digit rounding boundary / just below 1 (lit-boundary), literals of 1..17 significant digits at magnitudes 1e-12..1e18 plain or with exponent (lit-magnitude), chains of + - * % math.div and sass:math functions up to depth 3 (chain), sass:math functions on in-domain arguments (fn), % and math.div incl. zero divisors (mod-div), comparisons of pairs differing by 0..1e-7 around the 1e-11 tolerance (cmp-pair) and of chains (cmp-chain), round/ceil/floor near integers and half-integers (rounding), nth/@for integer checks within 4.9e-12 of an integer (int-check). An evaluated item is non-trivial if its value needs rounding at the 10th fractional digit, or lies within 1e-9 of an integer (without being one) or of a half-integer, or has |x| outside [1e-6, 1e12], or is produced by >= 3 operations; a comparison if its operands differ by less than 1e-9 (but are not identical) or involve >= 3 operations; every integer check. Distinct = distinct item.".into()
    }
    fn assumptions(&self) -> Vec<String> {
        vec![
            "a decimal literal without exponent denotes the nearest double; a literal with an exponent may be off by 3 ulp (mantissa times power of ten computed in floating point)".into(),
            "in compressed mode the leading zero of |x| < 1 may be present or absent (the property text does not fix it); in expanded mode it must be present".into(),
            "where the half-way decimal between two 10-digit neighbours is exactly the value, or reads back as the same double, either neighbour is accepted".into(),
            "round/ceil/floor are exact outside a 1e-9 neighbourhood of their boundary, either neighbour inside; comparisons: |a-b| < 1e-11 and same 1e-11 bucket = equal, |a-b| > 1e-11 = different, otherwise either".into(),
            "sass:math functions are compared with the platform libm within 1e-9 relative; printing of |x| >= 9.2e18 is judged for notation only; NaN/Infinity must print as text containing nan/infinity".into(),
            "an infinity obtained by dividing by a negative zero may have either sign".into(),
        ]
    }
    fn strategy(&self, tier: Tier) -> Option<(BoxedStrategy<Case>, u32)> {
        // 1..=500 items (250 on average): a failing batch shrinks by losing its irrelevant items
        let items = proptest::collection::vec(item(), 1..=BATCH);
        let s = (items, proptest::collection::vec(int_err_item(), 0..3)).prop_map(|(items, errs)| Case { items, errs }).boxed();
        Some((s, tier.pick(2_400, 32_000)))
    }
    fn check(&self, case: &Case, cx: &mut Ctx) -> Verdict {
        let n = case.items.len();
        let text = stylesheet_with(&case.items, true);
        let job = Job { steps: vec![Single::scss(text.clone()), Single::scss(text.clone()).compressed()], storm: vec![] };
        let res = cx.run_job(&job);
        let mut outs = vec![];
        for (r, st) in res.iter().zip([Style::Expanded, Style::Compressed]) {
            match &r.outcome {
                Outcome::Css(c) => outs.push((st, split_values(c, n))),
                Outcome::Error(e) => {
                    return Verdict::Fail(Failure::new(
                        "C07/batch-error",
                        format!("a batch of items that must all evaluate fails to compile: {}", e.message),
                        json!({"message": e.message, "style": format!("{:?}", st)}),
                    ));
                }
                _ => {
                    cx.inconclusive("abnormal-outcome");
                    return Verdict::Discard;
                }
            }
        }
        cx.add_evaluations(n.saturating_sub(1) as u64);
        let mut j = Judge { cx, fails: vec![] };
        for (i, it) in case.items.iter().enumerate() {
            j.cx.class(&format!("item:{}", it.tag));
            if item_may_error(it) {
                j.cx.class("skipped:rounding-of-possibly-non-finite-value-is-an-error");
                continue;
            }
            match &it.k {
                Kind::P(e) => {
                    let m = eval(e);
                    if !m.known() {
                        j.cx.class("P:model-unknown(skipped)");
                        continue;
                    }
                    if m.e > 0.0 {
                        j.cx.class("P:with-tolerance");
                    } else if m.alt.is_some() {
                        j.cx.class("P:rounding-either-neighbour");
                    } else {
                        j.cx.class("P:exact");
                    }
                    if m.v.is_finite() && m.v.abs() < 1.0 && m.v.abs() >= 1.0 - 6e-11 {
                        j.cx.class("P:just-below-one");
                    }
                    if nontrivial_value(&m) {
                        j.cx.nontrivial(it);
                        j.cx.sample_nontrivial(|| json!({"item": render_item(i, it), "expected_expanded": if m.v.is_finite() && m.v.abs() < 9e18 { dec::reference_text(m.v, false) } else { format!("{}", m.v) }, "tolerance": m.e}));
                    } else {
                        j.cx.sample(|| json!({"item": render_item(i, it)}));
                    }
                    for (st, vals) in &outs {
                        match &vals[i] {
                            Some(t) => j.print_item(it, e, &m, t, *st),
                            None => j.fail("C07/missing-declaration".into(), format!("no output for `{}`", render_item(i, it)), json!({})),
                        }
                    }
                }
                Kind::C(op, a, b) => {
                    let (ma, mb) = (eval(a), eval(b));
                    if !ma.plain() || !mb.plain() || !ma.v.is_finite() || !mb.v.is_finite() {
                        j.cx.class("C:model-unknown-or-nonfinite(skipped)");
                        continue;
                    }
                    let d = (ma.v - mb.v).abs();
                    if (d < 1e-9 && d > 0.0) || ma.ops + mb.ops >= 3 {
                        j.cx.nontrivial(it);
                    }
                    for (st, vals) in &outs {
                        match &vals[i] {
                            Some(t) => j.cmp_item(op, a, b, &ma, &mb, t, *st),
                            None => j.fail("C07/missing-declaration".into(), format!("no output for `{}`", render_item(i, it)), json!({})),
                        }
                    }
                }
                Kind::I(how, e) => {
                    let m = eval(e);
                    match must_be_int(&m) {
                        None => {
                            j.cx.class("I:outside-must-accept-zone(skipped)");
                        }
                        Some(k) => {
                            j.cx.nontrivial(it);
                            j.cx.class(&format!("I:{}:must-accept", how));
                            let exp = if how == "nth" { (k * 10).to_string() } else { k.to_string() };
                            if is_solo(it) {
                                j.cx.class("I:nth:index-just-above-length(solo)");
                                let r = j.cx.compile(&Single::scss(stylesheet(std::slice::from_ref(it))));
                                match &r.outcome {
                                    Outcome::Css(c) => {
                                        let t = split_values(c, 1)[0].clone().unwrap_or_default();
                                        if t != exp {
                                            j.fail(format!("C07/int-check:{}:wrong-result", how), format!("`{}` gives `{}`, expected `{}`", render_item(0, it), t, exp), json!({}));
                                        }
                                    }
                                    Outcome::Error(er) => j.fail(
                                        SIG_NTH.to_string(),
                                        format!("`{}` is rejected ({}) although the index equals 5 within 1e-11", render_item(0, it), er.message),
                                        json!({"message": er.message}),
                                    ),
                                    _ => j.cx.inconclusive("abnormal-outcome"),
                                }
                                continue;
                            }
                            for (st, vals) in &outs {
                                let t = vals[i].clone().unwrap_or_default();
                                if t != exp {
                                    j.fail(
                                        format!("C07/int-check:{}:wrong-result", how),
                                        format!("`{}` gives `{}`, expected `{}`", render_item(i, it), t, exp),
                                        json!({"style": format!("{:?}", st)}),
                                    );
                                }
                            }
                        }
                    }
                }
            }
        }
        let Judge { cx, mut fails } = j;
        // integer checks that must be rejected
        for it in &case.errs {
            if let Kind::I(how, e) = &it.k {
                let m = eval(e);
                if !must_not_be_int(&m) {
                    cx.class("I:outside-must-reject-zone(skipped)");
                    continue;
                }
                cx.class(&format!("I:{}:must-reject", how));
                cx.nontrivial(it);
                cx.add_evaluations(1);
                let r = cx.compile(&Single::scss(stylesheet(std::slice::from_ref(it))));
                match &r.outcome {
                    Outcome::Error(_) => {}
                    Outcome::Css(c) => fails.push(Failure::new(
                        format!("C07/int-check:{}:accepted-non-integer", how),
                        format!("`{}` is accepted although the value is more than 1e-9 away from an integer", render_item(0, it)),
                        json!({"css": c}),
                    )),
                    _ => cx.inconclusive("abnormal-outcome"),
                }
            }
        }
        if fails.is_empty() {
            return Verdict::Pass;
        }
        let pos = fails.iter().position(|f| !LOW_PRIORITY.contains(&f.signature.as_str())).unwrap_or(0);
        Verdict::Fail(fails.swap_remove(pos))
    }
}

#[cfg(test)]
mod tests {
    use super::*;
    #[test]
    fn modulo() {
        assert_eq!(sass_mod(7.0, -3.0), -2.0);
        assert_eq!(sass_mod(-7.0, 3.0), 2.0);
        assert_eq!(sass_mod(7.5, -2.0), -0.5);
        assert_eq!(sass_mod(6.0, -3.0), 0.0);
        assert!(sass_mod(1.0, 0.0).is_nan());
    }
    #[test]
    fn fixed() {
        assert_eq!(fixed14(U14), "1");
        assert_eq!(fixed14(-U14 / 2), "-0.5");
        assert_eq!(fixed14(U14 + 1), "1.00000000000001");
    }
}

//! C02 — a result is a pure function of source, options and visible files: independent of what was
//! compiled before on the same thread, of repetition in fresh processes, and of concurrent
//! compilations on other threads. unique-id() results are distinct valid identifiers.

use crate::corpus::corpus;
use crate::engine::*;
use proptest::prelude::*;
use serde::{Deserialize, Serialize};
use serde_json::json;
use std::collections::{BTreeMap, HashSet};
use std::sync::OnceLock;

pub struct C02;

#[derive(Clone, Debug, Serialize, Deserialize)]
pub enum Case {
    Purity {
        kind: String,
        observed: Single,
        history: Vec<Single>,
        /// how many fresh worker processes repeat the observed compilation
        fresh_procs: u8,
        /// number of concurrent noise threads (0 = none)
        storm: u8,
    },
    UniqueId {
        n: u16,
        compressed: bool,
    },
}

fn eligible() -> &'static Vec<usize> {
    static E: OnceLock<Vec<usize>> = OnceLock::new();
    E.get_or_init(|| {
        corpus()
            .iter()
            .enumerate()
            .filter(|(_, e)| !e.uses_random() && crate::gen::text::bracket_depth(&e.input) < 60)
            .map(|(i, _)| i)
            .collect()
    })
}

/// the text of the entry and of every file of the in-memory file system
fn all_text(s: &Single) -> String {
    let mut t = match &s.entry {
        Entry::Text(t) => t.clone(),
        Entry::Path(_) => String::new(),
    };
    for (_, b) in &s.files {
        if let Some(x) = b.as_text() {
            t.push('\n');
            t.push_str(x);
        }
    }
    t
}

fn corpus_single(i: usize) -> Single {
    let e = &corpus()[i];
    let mut s = Single::scss(e.input.clone());
    s.syntax = Some(e.syntax());
    s.style = e.style();
    s
}

const NAMES: &[&str] = &[
    "alpha", "beta", "gamma", "delta", "eps", "zeta", "eta", "theta", "iota", "kappa", "lam", "mu",
];

/// identifiers mentioned by a source text, in first-occurrence order
fn identifiers(src: &str) -> Vec<String> {
    let mut out: Vec<String> = vec![];
    let mut cur = String::new();
    for c in src.chars().chain(std::iter::once(' ')) {
        if c.is_ascii_alphanumeric() || c == '-' || c == '_' {
            cur.push(c);
        } else {
            if cur.len() >= 1
                && cur.chars().next().map(|c| c.is_ascii_alphabetic() || c == '_').unwrap_or(false)
                && !out.contains(&cur)
            {
                out.push(cur.clone());
            }
            cur.clear();
        }
    }
    out
}

/// a sheet that interns `ids` (as variables, argument names, function names and plain
/// identifiers) in the given order
fn interning_prefix(ids: &[String]) -> String {
    let mut s = String::from("@function -h($args...) { @return length($args); }\n");
    for id in ids {
        s.push_str(&format!("${}: 1;\n", id));
    }
    s.push_str("a {\n");
    for id in ids {
        s.push_str(&format!("  {}: {};\n", id, id));
    }
    s.push_str("  n: -h(");
    s.push_str(
        &ids.iter()
            .map(|i| format!("${}: 1", i))
            .collect::<Vec<_>>()
            .join(", "),
    );
    s.push_str(");\n}\n");
    s
}

fn permute(ids: &[String], perm: &[u16]) -> Vec<String> {
    let mut v: Vec<String> = ids.to_vec();
    // Fisher-Yates driven by the generated indices (monotone mapping)
    for i in (1..v.len()).rev() {
        let j = idx(perm.get(i % perm.len().max(1)).copied().unwrap_or(0), i + 1);
        v.swap(i, j);
    }
    v
}

#[derive(Clone, Debug)]
enum Hist {
    Corpus(u16),
    Permuted(Vec<u16>),
    Failing(u16),
}

fn hist() -> impl Strategy<Value = Hist> {
    prop_oneof![
        3 => any::<u16>().prop_map(Hist::Corpus),
        4 => proptest::collection::vec(any::<u16>(), 1..12).prop_map(Hist::Permuted),
        1 => any::<u16>().prop_map(Hist::Failing),
    ]
}

fn order_sensitive(kind: u8, names: Vec<u16>) -> (String, Single) {
    // distinct names in generated order
    let mut ns: Vec<&str> = vec![];
    for n in names {
        let x = NAMES[idx(n, NAMES.len())];
        if !ns.contains(&x) {
            ns.push(x);
        }
    }
    if ns.len() < 2 {
        ns = vec!["beta", "alpha"];
    }
    match kind % 10 {
        0 => {
            let args = ns.iter().enumerate().map(|(i, n)| format!("${}: {}", n, i)).collect::<Vec<_>>().join(", ");
            ("gen-keywords".into(), Single::scss(format!(
                "@function kw($args...) {{ @return inspect(keywords($args)); }}\n@mixin m($args...) {{ x: inspect(map-keys(keywords($args))); }}\na {{ b: kw({}); @include m({}); }}\n", args, args)))
        }
        1 => {
            let args = ns.iter().map(|n| format!("${}: 1%", n)).collect::<Vec<_>>().join(", ");
            ("gen-named-arg-error".into(), Single::scss(format!("a {{ b: adjust-color(red, {}); }}\n", args)))
        }
        2 => {
            let mut m = String::new();
            for (i, n) in ns.iter().enumerate() {
                m.push_str(&format!("${}: {};\n@function f-{}() {{ @return {}; }}\n@mixin m-{}() {{ x: y; }}\n", n, i, n, i, n));
            }
            let mut s = Single::scss("");
            s.files.push(("m.scss".into(), Bytes::Text(m)));
            s.files.push(("entry.scss".into(), Bytes::Text(
                "@use \"sass:meta\";\n@use \"m\";\na { v: inspect(meta.module-variables(\"m\")); f: inspect(meta.module-functions(\"m\")); }\n".into())));
            s.entry = Entry::Path("entry.scss".into());
            ("gen-module-members".into(), s)
        }
        3 => {
            // extend-heavy: output order could leak hash iteration order
            let mut t = String::new();
            for (i, n) in ns.iter().enumerate() {
                if i == 0 {
                    t.push_str(&format!(".{} {{ p: {}; }}\n", n, i));
                } else {
                    t.push_str(&format!(".{} {{ @extend .{}; q: {}; }}\n.x-{} .{}:hover {{ @extend .{}; }}\n", n, ns[i - 1], i, n, n, ns[0]));
                }
            }
            ("gen-extend-heavy".into(), Single::scss(t))
        }
        4 => {
            // named arguments with side effects: evaluation order is observable through @debug
            let args = ns.iter().enumerate().map(|(i, n)| format!("${}: t({})", n, i)).collect::<Vec<_>>().join(", ");
            let params = ns.iter().map(|n| format!("${}", n)).collect::<Vec<_>>().join(", ");
            let body = ns.iter().map(|n| format!("${}", n)).collect::<Vec<_>>().join(" ");
            ("gen-named-arg-eval-order".into(), Single::scss(format!(
                "@function t($x) {{ @debug $x; @return $x; }}\n@function g({}) {{ @return {}; }}\na {{ b: g({}); }}\n", params, body, args)))
        }
        8 => {
            // more than a hundred complex selectors in one extended list (above the size where
            // redundant-selector trimming is skipped)
            let n = 101 + (names_len_hint(&ns) * 7) % 40;
            let mut t = String::from(".base { p: v; }\n");
            for i in 0..n {
                t.push_str(&format!(".{}-{} {{ @extend .base; }}\n", ns[i % ns.len()], i));
            }
            ("gen-extend-many".into(), Single::scss(t))
        }
        9 => {
            // built-ins called with keyword arguments: their parameter names are identifiers too
            let a = ns[0];
            let b = ns[1 % ns.len()];
            ("gen-named-builtin-args".into(), Single::scss(format!(
                "${a}: 3;\n${b}: (k: 1, {a}: 2);\nx {{\n  i: if($condition: ${a} > 2, $if-true: {a}, $if-false: {b});\n  m: map-get($map: ${b}, $key: {a});\n  n: nth($list: 1 2 3, $n: ${a});\n  s: str-slice($string: \"{a}{b}\", $start-at: 2, $end-at: 4);\n  c: rgba($red: 1, $green: 2, $blue: 3, $alpha: 0.5);\n  j: join($list1: {a}, $list2: {b}, $separator: comma);\n  r: math-or-global-round(${a});\n}}\n@function math-or-global-round($number) {{ @return round($number: $number); }}\n",
                a = a, b = b)))
        }
        6 | 7 => {
            // members reached through `@forward … show/hide` (optionally prefixed): the filtered
            // member view must list them in a stable order
            let mut m = String::new();
            for (i, n) in ns.iter().enumerate() {
                m.push_str(&format!("${}: {};\n@function f-{}() {{ @return {}; }}\n", n, i, n, i));
            }
            let prefix = if kind % 16 >= 8 { " as p-*" } else { "" };
            let pre = if prefix.is_empty() { "" } else { "p-" };
            let list = ns
                .iter()
                .map(|n| format!("${}{}", pre, n))
                .chain(ns.iter().map(|n| format!("{}f-{}", pre, n)))
                .collect::<Vec<_>>()
                .join(", ");
            let filter = if kind % 8 == 6 { format!(" show {}", list) } else { format!(" hide {}zz-none", pre) };
            let mut s = Single::scss("");
            s.files.push(("m.scss".into(), Bytes::Text(m)));
            s.files.push(("mid.scss".into(), Bytes::Text(format!("@forward \"m\"{}{};\n", prefix, filter))));
            s.files.push(("entry.scss".into(), Bytes::Text(
                "@use \"sass:meta\";\n@use \"mid\";\na { v: inspect(meta.module-variables(\"mid\")); f: inspect(meta.module-functions(\"mid\")); }\n".into())));
            s.entry = Entry::Path("entry.scss".into());
            ("gen-forwarded-members".into(), s)
        }
        _ => {
            let conf = ns.iter().map(|n| format!("${}: 1", n)).collect::<Vec<_>>().join(", ");
            let mut s = Single::scss("");
            let decls = ns.iter().skip(1).map(|n| format!("${}: 0 !default;\n", n)).collect::<String>();
            s.files.push(("m.scss".into(), Bytes::Text(decls)));
            s.files.push(("entry.scss".into(), Bytes::Text(format!("@use \"m\" with ({});\n", conf))));
            s.entry = Entry::Path("entry.scss".into());
            ("gen-with-config".into(), s)
        }
    }
}

fn names_len_hint(ns: &[&str]) -> usize {
    ns.iter().map(|n| n.len()).sum::<usize>() + ns.len()
}

fn sorted_tokens(s: &str) -> Vec<String> {
    let mut v: Vec<String> = s
        .split(|c: char| !(c.is_alphanumeric() || c == '-' || c == '$' || c == '_'))
        .filter(|t| !t.is_empty())
        .map(|t| t.to_string())
        .collect();
    v.sort();
    v
}

fn res_text(r: &Res) -> String {
    let mut t = r.outcome.text();
    for l in &r.logs {
        t.push_str(&format!("\nLOG {} {}:{}:{} {}", l.kind, l.file, l.line, l.col, l.message));
    }
    t
}

/// classify a difference: the conditions of the known finding (Identifier ordered by interner key)
/// are recognised by what differs, so that any other kind of difference is reported.
fn classify(observed: &Single, a: &str, b: &str) -> &'static str {
    let src = match &observed.entry {
        Entry::Text(t) => t.clone(),
        Entry::Path(_) => observed
            .files
            .iter()
            .filter_map(|(_, b)| b.as_text().map(|s| s.to_string()))
            .collect::<Vec<_>>()
            .join("\n"),
    };
    let perm = sorted_tokens(a) == sorted_tokens(b);
    if perm && (a.contains("No arguments named") || a.contains("No argument named")) {
        return "named-args-message-order";
    }
    if perm && src.contains("keywords(") {
        return "keywords-order";
    }
    if perm && (src.contains("module-variables(") || src.contains("module-functions(")) {
        return "module-members-order";
    }
    if perm && a.contains("\nLOG ") {
        return "log-order";
    }
    if a.starts_with("ERR") && b.starts_with("ERR") && a.contains("!default") {
        return "with-config-error-choice";
    }
    "differs"
}

impl Prop for C02 {
    type Case = Case;
    fn id(&self) -> &'static str {
        "C02"
    }
    fn rule(&self) -> String {
        "observed compilation X = corpus entry (no random()/unique-id()) or a generated order-sensitive program (keywords(), unknown-named-argument errors, meta.module-variables/functions, @extend chains and lists of more than 100 extended selectors, named arguments with @debug side effects, keyword-argument calls of built-ins, members listed through @forward show/hide, with() configuration); history = 0..8 prior compilations on the same thread (corpus entries, failing inputs, and sheets that intern X's identifiers in a permuted order); plus repetition in 0..2 fresh worker processes and 0/2/4/16 concurrent noise threads. Oracle: byte equality of CSS / error text / logger calls with the fresh-thread, empty-history run. Non-trivial = history non-empty and contains a permuted-identifier sheet sharing >= 2 identifiers with X, or a fresh-process repeat of a generated order-sensitive program, or a storm; distinct by (X, history). unique-id(): n in [2,200] calls yield n distinct CSS identifiers.".into()
    }
    fn assumptions(&self) -> Vec<String> {
        vec!["the harness does not own the thread schedule: concurrent interleavings are sampled with real threads, not enumerated".into()]
    }
    fn strategy(&self, tier: Tier) -> Option<(BoxedStrategy<Case>, u32)> {
        let n = eligible().len();
        let observed = prop_oneof![
            3 => any::<u16>().prop_map(move |i| ("corpus".to_string(), corpus_single(eligible()[idx(i, n)]))),
            2 => (any::<u8>(), proptest::collection::vec(any::<u16>(), 2..6)).prop_map(|(k, ns)| order_sensitive(k, ns)),
        ];
        let purity = (
            observed,
            proptest::collection::vec(hist(), 0..8),
            prop_oneof![4 => Just(0u8), 1 => Just(1u8), 1 => Just(2u8)],
            prop_oneof![6 => Just(0u8), 1 => Just(2u8), 1 => Just(4u8), 1 => Just(16u8)],
        )
            .prop_map(move |((kind, observed), hs, fresh_procs, storm)| {
                let ids = identifiers(&all_text(&observed));
                let errs: Vec<usize> = eligible()
                    .iter()
                    .copied()
                    .filter(|i| corpus()[*i].kind == "error")
                    .collect();
                let history = hs
                    .into_iter()
                    .map(|h| match h {
                        Hist::Corpus(i) => corpus_single(eligible()[idx(i, n)]),
                        Hist::Failing(i) => corpus_single(errs[idx(i, errs.len())]),
                        Hist::Permuted(p) => {
                            let mut ids2 = permute(&ids, &p);
                            ids2.truncate(24);
                            Single::scss(interning_prefix(&ids2))
                        }
                    })
                    .collect();
                Case::Purity {
                    kind,
                    observed,
                    history,
                    fresh_procs,
                    storm,
                }
            });
        let uid = (2u16..200, any::<bool>()).prop_map(|(n, compressed)| Case::UniqueId { n, compressed });
        let s = prop_oneof![30 => purity, 1 => uid].boxed();
        Some((s, tier.pick(4_000, 40_000)))
    }
    fn check(&self, case: &Case, cx: &mut Ctx) -> Verdict {
        match case {
            Case::UniqueId { n, compressed } => {
                let mut src = String::from("a {\n");
                for i in 0..*n {
                    src.push_str(&format!("  p{}: unique-id();\n", i));
                }
                src.push_str("}\n");
                let mut s = Single::scss(src);
                if *compressed {
                    s.style = Style::Compressed;
                }
                let r = cx.compile(&s);
                cx.class("unique-id");
                let css = match &r.outcome {
                    Outcome::Css(c) => c.clone(),
                    o if o.is_abnormal() => {
                        cx.inconclusive("abnormal");
                        return Verdict::Discard;
                    }
                    o => {
                        return Verdict::Fail(Failure::new(
                            "unique-id:error",
                            "a sheet of unique-id() calls failed to compile",
                            json!({"outcome": o.short()}),
                        ))
                    }
                };
                let rows = crate::oracle::css::rows(&css);
                let mut seen = HashSet::new();
                for row in &rows {
                    let v = &row.value;
                    let ok = v
                        .chars()
                        .next()
                        .map(|c| c.is_ascii_alphabetic() || c == '_')
                        .unwrap_or(false)
                        && v.chars().all(|c| c.is_ascii_alphanumeric() || c == '-' || c == '_');
                    if !ok {
                        return Verdict::Fail(Failure::new(
                            "unique-id:not-identifier",
                            format!("unique-id() returned {:?}, not a CSS identifier", v),
                            json!({"value": v}),
                        ));
                    }
                    if !seen.insert(v.clone()) {
                        return Verdict::Fail(Failure::new(
                            "unique-id:duplicate",
                            format!("unique-id() returned {:?} twice in one compilation", v),
                            json!({"value": v, "n": n}),
                        ));
                    }
                }
                if rows.len() != *n as usize {
                    return Verdict::Fail(Failure::new(
                        "unique-id:count",
                        "not every unique-id() call produced a declaration",
                        json!({"expected": n, "got": rows.len()}),
                    ));
                }
                cx.nontrivial(&("uid", n, compressed));
                Verdict::Pass
            }
            Case::Purity {
                kind,
                observed,
                history,
                fresh_procs,
                storm,
            } => {
                cx.class(&format!("observed:{}", kind));
                let base = cx.run_job(&Job::one(observed.clone())).pop().unwrap();
                if base.outcome.is_abnormal() {
                    // crashes / panics are C01's subject
                    cx.inconclusive("observed-abnormal");
                    return Verdict::Discard;
                }
                let base_t = res_text(&base);
                let fail = |cond: &str, other: &str| {
                    let cls = classify(observed, &base_t, other);
                    Verdict::Fail(Failure::new(
                        format!("{}:{}", cond, cls),
                        format!("result differs {} ({})", cond, cls),
                        json!({"fresh_thread_empty_history": base_t, "other": other}),
                    ))
                };
                // 0. once more on another fresh thread: nothing but the source may decide the result
                // (per-instance hash seeds differ between two compilations even within one process)
                let again = cx.run_job(&Job::one(observed.clone())).pop().unwrap();
                if !again.outcome.is_abnormal() && res_text(&again) != base_t {
                    return fail("repeat-fresh-thread", &res_text(&again));
                }
                // 1. same thread, after the history
                if !history.is_empty() {
                    let mut steps = history.clone();
                    steps.push(observed.clone());
                    let rs = cx.run_job(&Job { steps, storm: vec![] });
                    let last = rs.last().unwrap();
                    if last.outcome.is_abnormal() {
                        cx.inconclusive("history-abnormal");
                        return Verdict::Discard;
                    }
                    let t = res_text(last);
                    if t != base_t {
                        return fail("history", &t);
                    }
                    cx.class(&format!("history-len:{}", history.len().min(8)));
                    // twice in a row on one thread
                    let rs2 = cx.run_job(&Job {
                        steps: vec![observed.clone(), observed.clone()],
                        storm: vec![],
                    });
                    if let Some(r2) = rs2.last() {
                        if !r2.outcome.is_abnormal() && res_text(r2) != base_t {
                            return fail("repeat-same-thread", &res_text(r2));
                        }
                    }
                }
                // 2. fresh processes (fresh hash seeds)
                for _ in 0..*fresh_procs {
                    let mut w = Worker::new();
                    let r = w.one(observed);
                    if r.outcome.is_abnormal() {
                        cx.inconclusive("fresh-process-abnormal");
                        continue;
                    }
                    cx.class("fresh-process-repeat");
                    let t = res_text(&r);
                    if t != base_t {
                        return fail("process", &t);
                    }
                }
                // 3. concurrent storm
                if *storm > 0 {
                    let noise: Vec<Single> = if history.is_empty() {
                        vec![Single::scss(interning_prefix(&permute(
                            &identifiers(&all_text(&observed)),
                            &[40000, 20000, 60000, 1000],
                        )))]
                    } else {
                        history.clone()
                    };
                    let storm_seqs: Vec<Vec<Single>> = (0..*storm as usize)
                        .map(|k| {
                            let mut v = noise.clone();
                            let l = v.len();
                            v.rotate_left(k % l.max(1));
                            v
                        })
                        .collect();
                    let rs = cx.run_job(&Job {
                        steps: vec![observed.clone(), observed.clone(), observed.clone()],
                        storm: storm_seqs,
                    });
                    for r in &rs {
                        if r.outcome.is_abnormal() {
                            cx.inconclusive("storm-abnormal");
                            return Verdict::Discard;
                        }
                        let t = res_text(r);
                        if t != base_t {
                            return fail("storm", &t);
                        }
                    }
                    cx.class(&format!("storm:{}", storm));
                }
                let x_ids = identifiers(&all_text(&observed));
                let permuted_shared = history.iter().any(|h| {
                    let t = h.entry_text().unwrap_or_default();
                    t.starts_with("@function -h(") && x_ids.len() >= 2
                });
                let nt = permuted_shared || (*fresh_procs > 0 && kind.starts_with("gen-")) || *storm > 0;
                let key = (res_text(&base), history.len(), history.first().map(|h| h.entry_text()), *storm, *fresh_procs);
                if nt {
                    cx.nontrivial(&key);
                    cx.sample_nontrivial(|| json!({"kind": kind, "observed": observed.entry_text(), "history_len": history.len(), "first_history": history.first().and_then(|h| h.entry_text()), "fresh_procs": fresh_procs, "storm": storm}));
                } else {
                    cx.sample(|| json!({"kind": kind, "observed": observed.entry_text(), "history_len": history.len()}));
                }
                Verdict::Pass
            }
        }
    }
    fn extra_evidence(&self, stats: &Stats) -> serde_json::Value {
        let m: BTreeMap<&String, &u64> = stats.classes.iter().filter(|(k, _)| k.starts_with("storm") || k.starts_with("fresh")).collect();
        json!({"concurrency_and_process_repeats": m})
    }
}

//! C10 — @extend makes extenders match wherever the target matched, nothing else.
//!
//! The oracle is semantic: every selector grass prints for a rule is matched natively against small
//! DOM forests and compared with the rule's *original* selector matched "with credits" (an element
//! is credited with target T if it natively matches T or matches, with credits, an extender of T —
//! least fixed point). See DESIGN.md §2 C10.

use crate::engine::*;
use crate::oracle::css;
use crate::oracle::dom::*;
use crate::oracle::selector::*;
use proptest::prelude::*;
use serde::{Deserialize, Serialize};
use serde_json::json;
use std::collections::BTreeSet;
use std::sync::OnceLock;

pub struct C10;

#[derive(Clone, Debug, Serialize, Deserialize, PartialEq, Eq, Hash)]
pub struct Ext {
    pub target: String,
    #[serde(default)]
    pub optional: bool,
}

#[derive(Clone, Debug, Serialize, Deserialize, PartialEq, Eq, Hash)]
pub struct Rule {
    pub sel: String,
    #[serde(default)]
    pub extends: Vec<Ext>,
}

#[derive(Clone, Debug, Serialize, Deserialize, PartialEq, Eq, Hash)]
pub enum Item {
    Rule(Rule),
    /// `@media screen { rules }` — at most one per sheet
    Media(Vec<Rule>),
}

#[derive(Clone, Debug, Serialize, Deserialize)]
pub struct Case {
    pub items: Vec<Item>,
    /// seed of the sampled DOM forests
    pub seed: u64,
    #[serde(default)]
    pub class: String,
}

pub const RANDOM_DOMS: u64 = 20_000;

// ------------------------------------------------------------------------------------------------
// known findings that are excluded by construction while they are listed as `known`

pub const KF_MISSING: &str = "missing-target-accepted";
pub const KF_MEDIA: &str = "cross-media-extend-applied";
pub const KF_CHAIN: &str = "chain-before-target";
pub const KF_SPEC: &str = "specificity-min-max-swapped";
pub const KF_WEAVE: &str = "weave-breaks-sibling-run";
pub const KF_DOUBLE: &str = "two-targets-in-one-compound";
pub const KF_LOOP: &str = "complex-extender-loop";
pub const KF_DUP: &str = "duplicate-selector-rules";
pub const KF_PHSPEC: &str = "placeholder-in-not-counts-specificity";

/// a placeholder inside `:not()`/`:is()`..: Sass counts it as a class (1000) when it decides whether
/// a generated selector may be trimmed, but the placeholder (`:not(%p)` as a whole) is not printed
fn placeholder_in_pseudo(l: &List) -> bool {
    let mut hit = false;
    l.walk(&mut |s| {
        if let Simple::Sel(_, inner) = s {
            inner.walk(&mut |t| hit |= matches!(t, Simple::Placeholder(_)));
        }
    });
    hit
}

/// exclusion by construction applies during the search only; a replay judges the case in full
fn active(cx: &Ctx, id: &str) -> bool {
    !cx.replay && known_active(id)
}

fn known_active(id: &str) -> bool {
    static K: OnceLock<Vec<String>> = OnceLock::new();
    K.get_or_init(|| {
        load_known("C10")
            .into_iter()
            .filter(|e| e.status == "known")
            .map(|e| e.id)
            .collect()
    })
    .iter()
    .any(|k| k == id)
}

// ------------------------------------------------------------------------------------------------
// the sheet model

#[derive(Clone, Debug)]
struct PRule {
    marker: usize,
    in_media: bool,
    sel: List,
    /// (target, optional)
    extends: Vec<(Simple, bool)>,
}

fn flatten(items: &[Item]) -> Vec<(bool, &Rule)> {
    let mut v = vec![];
    for it in items {
        match it {
            Item::Rule(r) => v.push((false, r)),
            Item::Media(rs) => {
                for r in rs {
                    v.push((true, r))
                }
            }
        }
    }
    v
}

/// markers are assigned in the order of `items`; `order` prints the items in another order
fn render(items: &[Item], order: &[usize]) -> String {
    let mut first_marker = vec![];
    let mut k = 0;
    for it in items {
        first_marker.push(k);
        k += match it {
            Item::Rule(_) => 1,
            Item::Media(rs) => rs.len(),
        };
    }
    let rule_text = |r: &Rule, m: usize| {
        let mut s = format!("{} {{ m: {};", r.sel, m);
        for e in &r.extends {
            s.push_str(&format!(" @extend {}{};", e.target, if e.optional { " !optional" } else { "" }));
        }
        s.push_str(" }\n");
        s
    };
    let mut out = String::new();
    for &i in order {
        match &items[i] {
            Item::Rule(r) => out.push_str(&rule_text(r, first_marker[i])),
            Item::Media(rs) => {
                out.push_str("@media screen {\n");
                for (j, r) in rs.iter().enumerate() {
                    out.push_str("  ");
                    out.push_str(&rule_text(r, first_marker[i] + j));
                }
                out.push_str("}\n");
            }
        }
    }
    out
}

fn parse_simple(t: &str) -> Result<Simple, String> {
    let l = parse_list(t)?;
    if l.0.len() == 1 && l.0[0].combs.is_empty() && l.0[0].comps[0].0.len() == 1 {
        Ok(l.0[0].comps[0].0[0].clone())
    } else {
        Err(format!("extend target {:?} is not a simple selector", t))
    }
}

fn parse_rules(items: &[Item]) -> Result<Vec<PRule>, String> {
    let mut out = vec![];
    for (k, (in_media, r)) in flatten(items).into_iter().enumerate() {
        let sel = parse_list(&r.sel)?;
        let mut extends = vec![];
        for e in &r.extends {
            extends.push((parse_simple(&e.target)?, e.optional));
        }
        out.push(PRule {
            marker: k,
            in_media,
            sel,
            extends,
        });
    }
    Ok(out)
}

fn plain_extender_simple(s: &Simple) -> bool {
    match s {
        Simple::Type(_) | Simple::Class(_) | Simple::Id(_) | Simple::Attr(_) => true,
        Simple::PseudoClass(_, None) => true,
        _ => false,
    }
}

fn target_under_not(l: &List, t: &Simple) -> bool {
    let mut hit = false;
    l.walk(&mut |s| {
        if let Simple::Sel(n, inner) = s {
            if unvendored(n) == "not" && inner.mentions(t) {
                hit = true;
            }
        }
    });
    hit
}

/// finding #25: an extension (E2 -> T2) declared after an extension (E1 -> T1) whose extender E1
/// mentions T2, followed by a rule that mentions T1. `order` = rules in printed order.
fn in_chain_region(rules: &[&PRule]) -> bool {
    for (i1, r1) in rules.iter().enumerate() {
        for (t1, _) in &r1.extends {
            for (i2, r2) in rules.iter().enumerate().skip(i1) {
                for (t2, _) in &r2.extends {
                    // same rule: a later directive of the same rule counts as "after" only if it is a different directive
                    if i2 == i1 && t1 == t2 {
                        continue;
                    }
                    if !r1.sel.mentions(t2) {
                        continue;
                    }
                    if rules.iter().skip(i2 + 1).any(|r3| r3.sel.mentions(t1)) {
                        return true;
                    }
                }
            }
        }
    }
    false
}

fn all_complexes<'a>(l: &'a List, out: &mut Vec<&'a Complex>) {
    for c in &l.0 {
        out.push(c);
        for k in &c.comps {
            for s in &k.0 {
                if let Simple::Sel(_, inner) = s {
                    all_complexes(inner, out);
                }
            }
        }
    }
}

/// weave finding: one complex has `+` directly followed by another sibling combinator, and a
/// *different* complex of the sheet has `~` (the merge of trailing sibling combinators inserts a
/// compound into the `+` run)
fn in_weave_region(rules: &[PRule], targets: &[&Simple]) -> bool {
    let mut cs = vec![];
    for r in rules {
        all_complexes(&r.sel, &mut cs);
    }
    // extenders that are themselves extended (they mention a target) grow: `a.y + b {@extend .y}`
    // also stands for `a.y + a + b`, so one `+` is enough there
    let growing: Vec<&Complex> = rules
        .iter()
        .filter(|r| !r.extends.is_empty())
        .flat_map(|r| r.sel.0.iter())
        .filter(|c| c.combs.contains(&Comb::Next) && targets.iter().any(|t| c.mentions(t)))
        .collect();
    let run = |c: &Complex| {
        c.combs
            .windows(2)
            .any(|w| w[0] == Comb::Next && matches!(w[1], Comb::Next | Comb::Sib))
            || growing.iter().any(|g| std::ptr::eq(*g, c))
    };
    let sib = |c: &Complex| c.combs.contains(&Comb::Sib);
    for (i, a) in cs.iter().enumerate() {
        if !run(a) {
            continue;
        }
        for (k, b) in cs.iter().enumerate() {
            if i != k && sib(b) {
                return true;
            }
        }
    }
    false
}

/// double-target finding: some compound holds two distinct extend targets, one of them a type or
/// id selector (the intermediate unification with the not-yet-replaced type/id fails and the
/// combination is lost when the extensions are applied one after the other)
fn in_double_region(rules: &[PRule], targets: &[&Simple]) -> bool {
    let mut cs = vec![];
    for r in rules {
        all_complexes(&r.sel, &mut cs);
    }
    cs.iter().any(|c| {
        c.comps.iter().any(|k| {
            let here: Vec<&&Simple> = targets.iter().filter(|t| k.0.contains(t)).collect();
            let mut distinct: Vec<&&Simple> = vec![];
            for t in here {
                if !distinct.contains(&t) {
                    distinct.push(t);
                }
            }
            distinct.len() >= 2 && distinct.iter().any(|t| matches!(t, Simple::Type(_) | Simple::Id(_)))
        })
    })
}

/// loop finding: an extender with a combinator mentions a target of the sheet (its own or another
/// directive's); extensions of extensions are then registered incompletely, depending on the order
fn in_loop_region(rules: &[PRule], targets: &[&Simple]) -> bool {
    rules.iter().filter(|r| !r.extends.is_empty()).any(|r| {
        r.sel
            .0
            .iter()
            .any(|c| !c.combs.is_empty() && targets.iter().any(|t| c.mentions(t)))
    })
}

fn permutations(n: usize) -> Vec<Vec<usize>> {
    fn rec(n: usize, cur: &mut Vec<usize>, out: &mut Vec<Vec<usize>>) {
        if cur.len() == n {
            out.push(cur.clone());
            return;
        }
        for i in 0..n {
            if !cur.contains(&i) {
                cur.push(i);
                rec(n, cur, out);
                cur.pop();
            }
        }
    }
    let mut out = vec![];
    rec(n, &mut vec![], &mut out);
    out
}

/// rules of `items` in the printed order `order`
fn ordered<'a>(items: &[Item], rules: &'a [PRule], order: &[usize]) -> Vec<&'a PRule> {
    let mut first = vec![];
    let mut k = 0;
    for it in items {
        first.push(k);
        k += match it {
            Item::Rule(_) => 1,
            Item::Media(rs) => rs.len(),
        };
    }
    let mut out = vec![];
    for &i in order {
        let n = match &items[i] {
            Item::Rule(_) => 1,
            Item::Media(rs) => rs.len(),
        };
        for j in 0..n {
            out.push(&rules[first[i] + j]);
        }
    }
    out
}

/// marker -> selector text of the output rule carrying `m: marker`
fn output_selectors(css_text: &str, n: usize) -> Result<Vec<Option<String>>, String> {
    let mut out = vec![None; n];
    for row in css::rows(css_text) {
        if row.prop == "m" {
            let k: usize = row.value.parse().map_err(|_| format!("odd marker {:?}", row.value))?;
            if k >= n {
                return Err(format!("marker {} out of range", k));
            }
            if out[k].is_some() {
                return Err(format!("marker {} printed twice", k));
            }
            out[k] = Some(row.selector.clone());
        }
    }
    Ok(out)
}

/// Specificity with which a printed complex applies to one element: Sass's *maximum* for the
/// non-subject compounds, and for the subject compound the element-aware value (an `:is()`-like
/// pseudo counts as its most specific argument that matches the element). This is never below
/// Sass's minimum specificity, so a law that holds for the minimum holds for it.
struct EffSpec {
    base: u64,
    pseudos: Vec<Vec<(CComplex, u64)>>,
}

impl EffSpec {
    fn new(c: &Complex, f: &Features) -> EffSpec {
        let mut base = 0;
        let mut pseudos = vec![];
        let last = c.comps.len() - 1;
        for (i, k) in c.comps.iter().enumerate() {
            if i < last {
                base += k.specificity().1;
                continue;
            }
            for s in &k.0 {
                match s {
                    Simple::Sel(n, l) if unvendored(n) != "not" => {
                        let cl = compile_inner(l, f, &[]);
                        pseudos.push(cl.0.into_iter().zip(l.0.iter().map(|a| a.specificity().1)).collect());
                    }
                    other => base += other.specificity().1,
                }
            }
        }
        EffSpec { base, pseudos }
    }
    fn at(&self, d: &Dom, i: usize) -> u64 {
        let mut s = self.base;
        for p in &self.pseudos {
            s += p
                .iter()
                .filter(|(c, _)| c.mask(d, &[]) >> i & 1 == 1)
                .map(|(_, sp)| *sp)
                .max()
                .unwrap_or(0);
        }
        s
    }
}

struct Judge {
    f: Features,
    templates: Vec<Elem>,
    plan: DomPlan,
    targets: Vec<Simple>,
    /// native masks of the targets themselves
    target_native: Vec<CList>,
    /// (extender compiled with credits, extender compiled natively, per-complex (spec, native)), target index, in_media
    exts: Vec<JExt>,
    compound_only: bool,
}

struct JExt {
    credited: CList,
    native: CList,
    min_spec: u64,
    target: usize,
    in_media: bool,
    /// the extender's rule
    rule: usize,
}

impl Judge {
    fn credits(&self, d: &Dom, media_ctx: bool) -> Vec<u8> {
        let mut c: Vec<u8> = self.target_native.iter().map(|t| t.mask(d, &[])).collect();
        loop {
            let mut changed = false;
            for e in &self.exts {
                if e.in_media && !media_ctx {
                    continue;
                }
                let m = e.credited.mask(d, &c);
                if c[e.target] | m != c[e.target] {
                    c[e.target] |= m;
                    changed = true;
                }
            }
            if !changed {
                return c;
            }
        }
    }
}

struct Regions {
    dup: bool,
    chain: bool,
    cross_media: bool,
    weave: bool,
    double: bool,
}

fn sig_for(base: &str, r: &Regions) -> String {
    if r.dup && base != "unsound:extra-match" {
        format!("C10/duplicate-selector-rules:{}", base)
    } else if r.cross_media {
        format!("C10/cross-media-extend-applied:{}", base)
    } else if r.chain && base != "unsound:extra-match" {
        format!("C10/chain-before-target:{}", base)
    } else if r.double && base == "incomplete:missing-match" {
        format!("C10/two-targets-in-one-compound:{}", base)
    } else if r.weave && base == "unsound:extra-match" {
        format!("C10/weave-breaks-sibling-run:{}", base)
    } else {
        format!("C10/{}", base)
    }
}

impl Prop for C10 {
    type Case = Case;
    fn id(&self) -> &'static str {
        "C10"
    }
    fn rule(&self) -> String {
        "sheets of 2-5 style rules (each `sel { m: k; @extend T.. }`, at most one `@media screen` block) over {a b .x .y .z #i #j [p] :hover %p %q, :not()/:is() with selector-list arguments in extended rules; descendant > + ~; <=3 compounds per complex, <=2 complexes per list} with 1-3 @extend directives (chains, cycles, !optional, missing targets, both orders). Every output selector is matched against all forests with <=3 elements over the mentioned features (when <=200 000) plus 20 000 seeded random forests with 4-5 elements and compared with credited matching of the source selector. Judged: equivalence (all extenders single compounds) or soundness + first law (some complex extender), original complexes printed verbatim, no compound with two ids, the weave lower bound for two-compound descendant pairs, the specificity law, placeholders, missing targets, @media, and - for sheets with <= 4 top-level items and compound-only extenders - every permutation of the top-level items (compared by spelling, then by matching). Non-trivial = some rule's selector list changed and its target sat in a compound with other simples or in a complex with a combinator; distinct = distinct sheet text.".into()
    }
    fn assumptions(&self) -> Vec<String> {
        vec![
            "extenders are built from type/class/id/attribute/:hover simples only (Sass does not merge selector-pseudo extenders into enclosing :is()/:not())".into(),
            "sheets in which a target occurs under :not() while some extender is complex are outside the domain (Sass drops complex extenders inside :not()), counted as excluded".into(),
            "selectors are judged on DOM forests of bounded size (exhaustive <=3 where the label space allows, sampled 4-5)".into(),
            "the order relation is judged only when all extenders are single compounds: with a complex extender the surviving interleavings legitimately depend on whether extensions were applied one by one or together".into(),
            "specificity of a printed complex on an element = Sass's maximum for non-subject compounds, and in the subject compound an :is()-like pseudo counts as its most specific argument that matches the element (never below Sass's minimum specificity)".into(),
            "regions of the known findings of C10 are excluded by construction while they are listed as known in known_findings.json (counted under excluded_known)".into(),
            "an element has exactly one type and at most one id".into(),
        ]
    }
    fn strategy(&self, tier: Tier) -> Option<(BoxedStrategy<Case>, u32)> {
        Some((crate::gen::extend::sheet().boxed(), tier.pick(600, 20_000)))
    }
    fn enumerate(&self, _tier: Tier) -> Vec<Case> {
        crate::gen::extend::directed()
    }
    fn check(&self, case: &Case, cx: &mut Ctx) -> Verdict {
        let rules = match parse_rules(&case.items) {
            Ok(r) => r,
            Err(e) => {
                cx.class(&format!("discard:unparsable-case:{}", e.chars().take(30).collect::<String>()));
                return Verdict::Discard;
            }
        };
        let n_media_items = case.items.iter().filter(|i| matches!(i, Item::Media(_))).count();
        let n_ext: usize = rules.iter().map(|r| r.extends.len()).sum();
        if rules.is_empty() || n_media_items > 1 || n_ext == 0 {
            cx.class("discard:shape");
            return Verdict::Discard;
        }
        // ---- domain restriction (i): extenders from plain simples only
        for r in rules.iter().filter(|r| !r.extends.is_empty()) {
            let mut ok = true;
            r.sel.walk(&mut |s| ok &= plain_extender_simple(s));
            if !ok {
                cx.excluded("domain(i): extender contains a selector pseudo / placeholder / pseudo-element");
                return Verdict::Discard;
            }
        }
        let all_exts: Vec<(&PRule, &Simple, bool)> = rules
            .iter()
            .flat_map(|r| r.extends.iter().map(move |(t, o)| (r, t, *o)))
            .collect();
        let compound_only = rules
            .iter()
            .filter(|r| !r.extends.is_empty())
            .all(|r| r.sel.compound_only());
        // ---- domain restriction (ii): target under :not() needs compound extenders
        if !compound_only && all_exts.iter().any(|(_, t, _)| rules.iter().any(|r| target_under_not(&r.sel, t))) {
            cx.excluded("domain(ii): target under :not() with a complex extender");
            return Verdict::Discard;
        }
        let tv: Vec<&Simple> = all_exts.iter().map(|(_, t, _)| *t).collect();
        let weave_region = in_weave_region(&rules, &tv);
        if weave_region && active(cx, KF_WEAVE) {
            cx.excluded("known:weave-breaks-sibling-run");
            return Verdict::Discard;
        }
        // two rules with the same selector list: grass keeps registered rules in a set that hashes
        // by address but compares by value, so one of them is sometimes (about 1 run in 100) not extended
        let dup_region = rules.iter().enumerate().any(|(i, a)| rules.iter().skip(i + 1).any(|b| a.sel == b.sel));
        if dup_region && active(cx, KF_DUP) {
            cx.excluded("known:duplicate-selector-rules");
            return Verdict::Discard;
        }
        let double_region = in_double_region(&rules, &tv);
        if double_region && active(cx, KF_DOUBLE) {
            cx.excluded("known:two-targets-in-one-compound");
            return Verdict::Discard;
        }
        let identity: Vec<usize> = (0..case.items.len()).collect();
        let chain_region = in_chain_region(&ordered(&case.items, &rules, &identity));
        if chain_region && active(cx, KF_CHAIN) {
            cx.excluded("known:chain-before-target (#25)");
            return Verdict::Discard;
        }
        // ---- missing targets
        let found = |t: &Simple| rules.iter().any(|r| r.sel.mentions(t));
        let missing_mandatory = all_exts.iter().any(|(_, t, o)| !*o && !found(t));
        let missing_optional = all_exts.iter().any(|(_, t, o)| *o && !found(t));
        if missing_mandatory && active(cx, KF_MISSING) {
            cx.excluded("known:missing-target-accepted (#16)");
            return Verdict::Discard;
        }
        // ---- cross-media: an extend inside @media whose target occurs outside the block
        let cross_media = all_exts
            .iter()
            .any(|(r, t, _)| r.in_media && rules.iter().any(|o| !o.in_media && o.sel.mentions(t)));
        if cross_media && active(cx, KF_MEDIA) {
            cx.excluded("known:cross-media-extend-applied (#16)");
            return Verdict::Discard;
        }

        let text = render(&case.items, &identity);
        let res = cx.compile(&Single::scss(text.clone()));
        cx.class(if compound_only { "extenders:compound-only" } else { "extenders:some-complex" });
        if rules.iter().any(|r| r.in_media) {
            cx.class("has:media");
        }
        if missing_optional {
            cx.class("has:missing-optional");
        }
        let is_chain = all_exts.iter().any(|(r1, _, _)| all_exts.iter().any(|(_, t2, _)| r1.sel.mentions(t2)));
        if is_chain {
            cx.class("has:chain-or-cycle");
        }
        if all_exts.iter().any(|(_, t, _)| rules.iter().any(|r| target_under_not(&r.sel, t))) {
            cx.class("has:target-under-not");
        }
        if rules.iter().any(|r| r.sel.has_selector_pseudo()) {
            cx.class("has:selector-pseudo");
        }
        if all_exts.iter().any(|(_, t, _)| matches!(t, Simple::Placeholder(_))) {
            cx.class("has:placeholder-target");
        }
        let css_text = match &res.outcome {
            Outcome::Css(c) => c.clone(),
            Outcome::Error(e) => {
                if missing_mandatory {
                    cx.class("outcome:error-for-missing-target");
                    return Verdict::Pass;
                }
                if cross_media {
                    cx.class("outcome:error-for-cross-media");
                    return Verdict::Pass;
                }
                return Verdict::Fail(Failure::new(
                    "C10/unexpected-error",
                    format!("a sheet inside the domain is rejected: {}", e.message),
                    json!({"sheet": text, "error": e.display}),
                ));
            }
            Outcome::Panic { at, msg } => {
                cx.inconclusive("panic (C01's subject)");
                cx.class(&format!("panic:{}:{}", at, msg.chars().take(40).collect::<String>()));
                return Verdict::Discard;
            }
            other => {
                if std::env::var("VP_DEBUG").is_ok() {
                    eprintln!("ABNORMAL {}\n{}", other.short(), text);
                }
                cx.inconclusive(&format!("abnormal outcome {}", other.short().chars().take(40).collect::<String>()));
                return Verdict::Discard;
            }
        };
        if missing_mandatory {
            return Verdict::Fail(Failure::new(
                "C10/missing-target-accepted",
                "@extend of a selector that occurs nowhere in the sheet (without !optional) is accepted",
                json!({"sheet": text, "css": css_text}),
            ));
        }
        // ---- read the output
        let outs = match output_selectors(&css_text, rules.len()) {
            Ok(o) => o,
            Err(e) => {
                return Verdict::Fail(Failure::new(
                    "C10/output-structure",
                    format!("cannot map output rules to source rules: {}", e),
                    json!({"sheet": text, "css": css_text}),
                ))
            }
        };
        let mut sp: Vec<List> = vec![];
        for (k, o) in outs.iter().enumerate() {
            match o {
                None => sp.push(List(vec![])),
                Some(t) => match parse_list(t) {
                    Ok(l) => {
                        if l.has_placeholder() {
                            return Verdict::Fail(Failure::new(
                                "C10/placeholder-in-output",
                                format!("rule {} is printed with a placeholder selector: {}", k, t),
                                json!({"sheet": text, "css": css_text}),
                            ));
                        }
                        sp.push(l)
                    }
                    Err(e) => {
                        return Verdict::Fail(Failure::new(
                            "C10/output-selector-outside-alphabet",
                            format!("rule {} is printed with a selector the oracle cannot read ({}): {}", k, e, t),
                            json!({"sheet": text, "css": css_text}),
                        ))
                    }
                },
            }
        }
        // ---- structural laws that matching cannot see
        // (a) originals are never trimmed: a source complex without selector pseudos is printed verbatim
        for r in &rules {
            let set = sp[r.marker].complex_set();
            for c in &r.sel.0 {
                let mut skip = c.has_placeholder();
                c.walk(&mut |s| skip |= matches!(s, Simple::Sel(..)));
                if !skip && !set.contains(&c.sorted().text()) {
                    return Verdict::Fail(Failure::new(
                        sig_for("first-law:original-complex-missing", &Regions { dup: dup_region, chain: chain_region, cross_media, weave: weave_region, double: double_region }),
                        format!("rule {} `{}` is printed as `{}`: the original complex `{}` is gone", r.marker, r.sel.text(), sp[r.marker].text(), c.text()),
                        json!({"sheet": text, "css": css_text, "rule": r.marker}),
                    ));
                }
            }
        }
        // (b) unification never yields a compound that cannot match (two different ids)
        let two_ids = |l: &List| {
            let mut cs = vec![];
            all_complexes(l, &mut cs);
            cs.iter().any(|c| {
                c.comps.iter().any(|k| {
                    let ids: BTreeSet<&Simple> = k.0.iter().filter(|s| matches!(s, Simple::Id(_))).collect();
                    ids.len() > 1
                })
            })
        };
        if !rules.iter().any(|r| two_ids(&r.sel)) {
            for r in &rules {
                if two_ids(&sp[r.marker]) {
                    return Verdict::Fail(Failure::new(
                        "C10/impossible-compound-in-output",
                        format!("rule {} `{}` is printed as `{}`: a compound with two different ids was generated", r.marker, r.sel.text(), sp[r.marker].text()),
                        json!({"sheet": text, "css": css_text, "rule": r.marker}),
                    ));
                }
            }
        }

        // ---- non-triviality
        let mut changed_any = false;
        let mut nontrivial = false;
        for r in &rules {
            let visible: BTreeSet<String> = r.sel.0.iter().filter(|c| !c.has_placeholder()).map(|c| c.sorted().text()).collect();
            if sp[r.marker].complex_set() != visible {
                changed_any = true;
                for (_, t, _) in &all_exts {
                    for c in &r.sel.0 {
                        if !c.mentions(t) {
                            continue;
                        }
                        let in_big_compound = c.comps.iter().any(|k| k.0.len() > 1 && k.0.iter().any(|s| {
                            let mut h = false;
                            s.walk(&mut |x| h |= x == *t);
                            h
                        }));
                        if in_big_compound || !c.combs.is_empty() {
                            nontrivial = true;
                        }
                    }
                }
            }
        }
        cx.class(if changed_any { "effect:some-selector-changed" } else { "effect:none" });
        if nontrivial {
            cx.nontrivial(&text);
            cx.sample_nontrivial(|| json!({"sheet": text, "css": css_text}));
        } else {
            cx.sample(|| json!({"sheet": text, "css": css_text}));
        }

        // ---- the judge
        let mut f = Features::default();
        for r in &rules {
            f.add_list(&r.sel);
            for (t, _) in &r.extends {
                f.add_simple(t);
            }
        }
        for l in &sp {
            f.add_list(l);
        }
        f.normalise();
        if !f.ok() {
            cx.class("discard:too-many-features");
            return Verdict::Discard;
        }
        let mut targets: Vec<Simple> = vec![];
        for (_, t, _) in &all_exts {
            if !targets.contains(t) {
                targets.push((*t).clone());
            }
        }
        let mut exts = vec![];
        for r in rules.iter() {
            for (t, _) in &r.extends {
                exts.push(JExt {
                    credited: compile(&r.sel, &f, &targets),
                    native: compile(&r.sel, &f, &[]),
                    min_spec: r.sel.0.iter().map(|c| c.specificity().0).min().unwrap_or(0),
                    target: targets.iter().position(|x| x == t).unwrap(),
                    in_media: r.in_media,
                    rule: r.marker,
                });
            }
        }
        let lists: Vec<&List> = rules.iter().map(|r| &r.sel).chain(sp.iter()).collect();
        let j = Judge {
            templates: templates_of(&f, &lists),
            plan: plan(&f, RANDOM_DOMS),
            target_native: targets
                .iter()
                .map(|t| compile(&List(vec![Complex::single(Compound(vec![t.clone()]))]), &f, &[]))
                .collect(),
            targets,
            exts,
            compound_only,
            f,
        };
        cx.class(&format!("doms:exhaustive<={}", j.plan.exhaustive_upto));

        struct RJ {
            cred: CList,
            nat: CList,
            out: CList,
            out_eff: Vec<EffSpec>,
            has_not: bool,
            /// per original complex: targets sitting at the top level of its subject compound
            routes: Vec<(CComplex, Vec<usize>)>,
            spec_ok: bool,
        }
        let rj: Vec<RJ> = rules
            .iter()
            .map(|r| RJ {
                cred: compile(&r.sel, &j.f, &j.targets),
                nat: compile(&r.sel, &j.f, &[]),
                out: compile(&sp[r.marker], &j.f, &[]),
                out_eff: sp[r.marker].0.iter().map(|c| EffSpec::new(c, &j.f)).collect(),
                has_not: r.sel.has_not(),
                routes: r
                    .sel
                    .0
                    .iter()
                    .map(|c| {
                        let last = c.comps.last().unwrap();
                        let ts: Vec<usize> = j
                            .targets
                            .iter()
                            .enumerate()
                            .filter(|(_, t)| last.0.contains(t))
                            .map(|(k, _)| k)
                            .collect();
                        (compile(&List(vec![c.clone()]), &j.f, &j.targets).0.remove(0), ts)
                    })
                    .collect(),
                // finding #21 lives where a printed complex contains an :is()-like pseudo (min != max specificity)
                spec_ok: !(active(cx, KF_SPEC)
                    && (r.sel.has_selector_pseudo() || sp[r.marker].has_selector_pseudo()))
                    && !(active(cx, KF_PHSPEC) && placeholder_in_pseudo(&r.sel)),
            })
            .collect();
        // Lower bound for complex extenders (the one place where Sass's weave is complete): source
        // complex `Q T'` and extender `P E`, both with one descendant combinator and without ids or
        // targets in Q and P. An element that matches T' (minus the target) and E and has two
        // *different* ancestors matching Q and P must be matched: `Q P E'` or `P Q E'`.
        struct Lower {
            rule: usize,
            q: CList,
            p: CList,
            e: CList,
            text: String,
        }
        let mut lowers: Vec<Lower> = vec![];
        let plain = |k: &Compound| k.0.iter().all(|s| plain_extender_simple(s) && !matches!(s, Simple::Id(_)) && !j.targets.contains(s));
        for r in &rules {
            for o in &r.sel.0 {
                if o.comps.len() != 2 || o.combs[0] != Comb::Desc || !plain(&o.comps[0]) {
                    continue;
                }
                let subj = &o.comps[1];
                if !subj.0.iter().all(plain_extender_simple) {
                    continue;
                }
                let ts: Vec<&Simple> = subj.0.iter().filter(|s| j.targets.contains(s)).collect();
                if ts.len() != 1 {
                    continue;
                }
                let t = ts[0];
                for x in rules.iter().filter(|x| !x.in_media || r.in_media) {
                    if !x.extends.iter().any(|(xt, _)| xt == t) {
                        continue;
                    }
                    for xc in &x.sel.0 {
                        if xc.comps.len() != 2 || xc.combs[0] != Comb::Desc || !plain(&xc.comps[0]) || !plain(&xc.comps[1]) {
                            continue;
                        }
                        let mut merged: Vec<Simple> = subj.0.iter().filter(|s| *s != t).cloned().collect();
                        merged.extend(xc.comps[1].0.iter().cloned());
                        let one = |k: Compound| compile(&List(vec![Complex::single(k)]), &j.f, &[]);
                        lowers.push(Lower {
                            rule: r.marker,
                            q: one(o.comps[0].clone()),
                            p: one(xc.comps[0].clone()),
                            e: one(Compound(merged)),
                            text: format!("`{}` extended by `{}`", o.text(), xc.text()),
                        });
                    }
                }
            }
        }
        if !lowers.is_empty() {
            cx.class("weave-lower-bound:judged");
        }
        if active(cx, KF_SPEC) && rj.iter().any(|r| !r.spec_ok) {
            cx.excluded("known:specificity-min-max-swapped (#21): specificity law skipped for rules with a selector pseudo");
        }
        if active(cx, KF_PHSPEC) && rules.iter().any(|r| placeholder_in_pseudo(&r.sel)) {
            cx.excluded("known:placeholder-in-not-counts-specificity: specificity law skipped for rules with a placeholder inside a selector pseudo");
        }

        let regions = Regions {
            dup: dup_region,
            chain: chain_region,
            cross_media,
            weave: weave_region,
            double: double_region,
        };
        let mut failure: Option<(String, String, serde_json::Value)> = None;
        let mut doms = 0u64;
        for_each_dom(&j.f, &j.templates, &j.plan, case.seed, |d| {
            doms += 1;
            let c_top = j.credits(d, false);
            let any_media = rules.iter().any(|r| r.in_media);
            let c_media = if any_media { j.credits(d, true) } else { vec![] };
            // specificity bound: the least specific extender natively matched by any element
            let mut bound: Option<u64> = None;
            for e in &j.exts {
                if e.native.mask(d, &[]) != 0 {
                    bound = Some(bound.map_or(e.min_spec, |b| b.min(e.min_spec)));
                }
            }
            for (r, q) in rules.iter().zip(rj.iter()) {
                let credits = if r.in_media { &c_media } else { &c_top };
                let cred = q.cred.mask(d, credits);
                let out = q.out.mask(d, &[]);
                let nat = q.nat.mask(d, &[]);
                let mut bad: Option<(&str, u8, String)> = None;
                if out & !cred != 0 {
                    bad = Some(("unsound:extra-match", out & !cred, "the printed selector matches an element the source selector does not match even with credits".into()));
                } else if j.compound_only && cred & !out != 0 {
                    bad = Some(("incomplete:missing-match", cred & !out, "the source selector matches the element with credits, the printed selector does not (all extenders are single compounds)".into()));
                } else if !q.has_not && nat & !out != 0 {
                    bad = Some(("first-law", nat & !out, "the source selector matched this element before extension, the printed selector does not".into()));
                } else if q.spec_ok {
                    if let Some(b) = bound {
                        // elements to judge
                        let mut subj = 0u8;
                        if j.compound_only {
                            // strong form: e natively matches an extender (E -> T) and matches, with credits,
                            // a source complex whose subject compound contains T
                            for e in &j.exts {
                                if e.in_media && !r.in_media {
                                    continue;
                                }
                                let em = e.native.mask(d, &[]);
                                if em == 0 {
                                    continue;
                                }
                                for (c, ts) in &q.routes {
                                    if ts.contains(&e.target) {
                                        subj |= em & c.mask(d, credits);
                                    }
                                }
                            }
                            subj &= out;
                        } else {
                            subj = out & !nat;
                        }
                        if subj != 0 {
                            for i in 0..d.n {
                                if subj >> i & 1 == 0 {
                                    continue;
                                }
                                let best = q
                                    .out
                                    .0
                                    .iter()
                                    .zip(q.out_eff.iter())
                                    .filter(|(c, _)| c.mask(d, &[]) >> i & 1 == 1)
                                    .map(|(_, s)| s.at(d, i))
                                    .max()
                                    .unwrap_or(0);
                                if best < b {
                                    bad = Some(("specificity", 1 << i, format!("every printed complex matching the element applies with specificity <= {} but the least specific extender matched in this DOM has {}", best, b)));
                                    break;
                                }
                            }
                        }
                    }
                }
                if let Some((kind, mask, why)) = bad {
                    let elem = (0..d.n).find(|i| mask >> i & 1 == 1).unwrap();
                    let kind = if kind == "specificity" && placeholder_in_pseudo(&r.sel) {
                        "specificity:placeholder-in-selector-pseudo"
                    } else if kind == "specificity" && (r.sel.has_selector_pseudo() || sp[r.marker].has_selector_pseudo()) {
                        "specificity:selector-pseudo"
                    } else {
                        kind
                    };
                    failure = Some((
                        sig_for(kind, &regions),
                        format!("rule {} `{}` is printed as `{}`: {}", r.marker, r.sel.text(), sp[r.marker].text(), why),
                        json!({
                            "sheet": text, "css": css_text, "rule": r.marker,
                            "source_selector": r.sel.text(), "printed_selector": sp[r.marker].text(),
                            "dom": d.describe(&j.f), "element": elem,
                            "printed_matches": out, "credited_matches": cred, "native_matches": nat,
                        }),
                    ));
                    return false;
                }
            }
            true
        });
        if failure.is_none() && !lowers.is_empty() {
            let outs: Vec<CList> = rules.iter().map(|r| compile(&sp[r.marker], &j.f, &[])).collect();
            for_each_dom(&j.f, &j.templates, &j.plan, case.seed, |d| {
                for l in &lowers {
                    let me = l.e.mask(d, &[]);
                    if me == 0 {
                        continue;
                    }
                    let (mq, mp) = (l.q.mask(d, &[]), l.p.mask(d, &[]));
                    let out = outs[l.rule].mask(d, &[]);
                    for i in 0..d.n {
                        if me >> i & 1 == 0 || out >> i & 1 == 1 {
                            continue;
                        }
                        let anc = d.ancestors(i);
                        let (a, b) = (anc & mq, anc & mp);
                        if a != 0 && b != 0 && !(a == b && a.count_ones() == 1) {
                            failure = Some((
                                sig_for("weave-lower-bound", &regions),
                                format!("rule {} is printed as `{}`: {} must match an element with two different ancestors for the two parents, in either order", l.rule, sp[l.rule].text(), l.text),
                                json!({"sheet": text, "css": css_text, "rule": l.rule, "dom": d.describe(&j.f), "element": i}),
                            ));
                            return false;
                        }
                    }
                }
                true
            });
        }
        cx.class_n("doms-judged", doms);
        if let Some((sig, what, details)) = failure {
            return Verdict::Fail(Failure::new(sig, what, details));
        }

        // ---- rule-order independence
        // Only for sheets whose extenders are all single compounds: with a complex extender Sass omits
        // interleavings, and which ones survive depends on whether extensions were applied one after
        // the other (rule first) or together (rule last) - in dart-sass as well.
        let loop_region = in_loop_region(&rules, &tv);
        if !compound_only {
            cx.class("order:not-judged(complex extender)");
        } else if case.items.len() <= 4 && case.items.len() >= 2 {
            let perms: Vec<Vec<usize>> = permutations(case.items.len()).into_iter().filter(|p| *p != identity).collect();
            let mut used = vec![];
            let mut steps = vec![];
            for p in perms {
                if active(cx, KF_CHAIN) && in_chain_region(&ordered(&case.items, &rules, &p)) {
                    cx.excluded("known:chain-before-target (#25): permutation skipped");
                    continue;
                }
                steps.push(Single::scss(render(&case.items, &p)));
                used.push(p);
            }
            if !steps.is_empty() {
                let rs = cx.run_job(&Job { steps: steps.clone(), storm: vec![] });
                cx.class_n("order:permutations-compiled", rs.len() as u64);
                for ((p, s), r) in used.iter().zip(steps.iter()).zip(rs.iter()) {
                    let ptext = s.entry_text().unwrap_or_default();
                    let in_region = in_chain_region(&ordered(&case.items, &rules, p));
                    match &r.outcome {
                        Outcome::Css(c) => {
                            let o = match output_selectors(c, rules.len()) {
                                Ok(o) => o,
                                Err(e) => {
                                    return Verdict::Fail(Failure::new(
                                        "C10/order:output-structure",
                                        format!("permuted sheet: {}", e),
                                        json!({"sheet": ptext, "css": c}),
                                    ))
                                }
                            };
                            for k in 0..rules.len() {
                                let a = sp[k].complex_set();
                                let b: BTreeSet<String> = match &o[k] {
                                    None => BTreeSet::new(),
                                    Some(t) => match parse_list(t) {
                                        Ok(l) => l.complex_set(),
                                        Err(_) => [t.clone()].into_iter().collect(),
                                    },
                                };
                                if a != b {
                                    // different spellings: decide by matching
                                    let pl = match &o[k] {
                                        None => List(vec![]),
                                        Some(t) => match parse_list(t) {
                                            Ok(l) => l,
                                            Err(e) => {
                                                return Verdict::Fail(Failure::new(
                                                    "C10/order:output-selector-outside-alphabet",
                                                    format!("permuted sheet prints a selector the oracle cannot read ({}): {}", e, t),
                                                    json!({"sheet": ptext, "css": c}),
                                                ))
                                            }
                                        },
                                    };
                                    let ca = compile(&sp[k], &j.f, &[]);
                                    let cb = compile(&pl, &j.f, &[]);
                                    let mut witness: Option<(String, usize)> = None;
                                    for_each_dom(&j.f, &j.templates, &j.plan, case.seed, |d| {
                                        let (ma, mb) = (ca.mask(d, &[]), cb.mask(d, &[]));
                                        if ma != mb {
                                            let e = (0..d.n).find(|i| (ma ^ mb) >> i & 1 == 1).unwrap();
                                            witness = Some((d.describe(&j.f), e));
                                            return false;
                                        }
                                        true
                                    });
                                    let (dom, elem) = match witness {
                                        None => {
                                            cx.class("order:spelling-differs-matching-equal");
                                            continue;
                                        }
                                        Some(w) => w,
                                    };
                                    let base = if dup_region {
                                        "C10/duplicate-selector-rules:order-dependence"
                                    } else if loop_region {
                                        "C10/complex-extender-loop:order-dependence"
                                    } else if in_region || chain_region {
                                        "C10/chain-before-target:order-dependence"
                                    } else if double_region {
                                        "C10/two-targets-in-one-compound:order-dependence"
                                    } else {
                                        "C10/order-dependence"
                                    };
                                    return Verdict::Fail(Failure::new(
                                        base,
                                        format!(
                                            "rule {} `{}` is printed as `{}` in the given order but as `{}` when the top-level rules are reordered; they differ on an element",
                                            k,
                                            rules[k].sel.text(),
                                            sp[k].text(),
                                            pl.text()
                                        ),
                                        json!({"sheet": text, "css": css_text, "permuted_sheet": ptext, "permuted_css": c, "rule": k, "dom": dom, "element": elem}),
                                    ));
                                }
                            }
                        }
                        Outcome::Error(e) => {
                            if cross_media {
                                continue;
                            }
                            return Verdict::Fail(Failure::new(
                                "C10/order-dependence:error",
                                format!("the sheet compiles in the given order but a permutation is rejected: {}", e.message),
                                json!({"sheet": text, "permuted_sheet": ptext, "error": e.display}),
                            ));
                        }
                        other => {
                            cx.inconclusive(&format!("abnormal outcome in permutation {}", other.short().chars().take(40).collect::<String>()));
                        }
                    }
                }
            }
        }
        Verdict::Pass
    }
}

//! C06 — output style changes formatting only: expanded and compressed output describe the same
//! CSS, and SassScript evaluation does not depend on the style.

use crate::corpus::{corpus, fuzz_corpus};
use crate::engine::*;
use crate::gen::chooser::{choices, Chooser};
use crate::gen::sheet::{gen_sheet, SheetOpts};
use crate::oracle::canon::{canon_sheet, diff, CanonOpts, Comments};
use proptest::prelude::*;
use serde::{Deserialize, Serialize};
use serde_json::json;

pub struct C06;

#[derive(Clone, Debug, Serialize, Deserialize)]
pub struct Case {
    pub class: String,
    pub source: String,
    pub syntax: Syntax,
    #[serde(default)]
    pub features: Vec<String>,
    /// extra generated sources (program / rule-tree generators) plug in through `source`
    #[serde(default)]
    pub files: Vec<(String, Bytes)>,
}

pub fn corpus_case(i: usize) -> Case {
    let e = &corpus()[i];
    Case {
        class: "corpus".into(),
        source: e.input.clone(),
        syntax: e.syntax(),
        features: vec![],
        files: vec![],
    }
}

pub fn strip_ws(s: &str) -> String {
    s.chars().filter(|c| !c.is_whitespace()).collect()
}

fn kind_of(d: &str) -> &'static str {
    if d.contains(": selector ") {
        "selector"
    } else if d.contains(": value of ") {
        "value"
    } else if d.contains(": property ") {
        "property-name"
    } else if d.contains("at-rule prelude") || d.contains("at-statement") {
        "at-rule"
    } else if d.contains("comment") {
        "comment"
    } else {
        "structure"
    }
}

/// compile `case` in both styles and compare; shared with the known-finding probe
pub fn compare_styles(case: &Case, cx: &mut Ctx) -> Verdict {
    let mut s = Single::scss(case.source.clone());
    s.syntax = Some(case.syntax);
    s.files = case.files.clone();
    let e = cx.compile(&s);
    let mut sc = s.clone();
    sc.style = Style::Compressed;
    let c = cx.compile(&sc);
    if e.outcome.is_abnormal() || c.outcome.is_abnormal() {
        cx.inconclusive("abnormal (C01's subject)");
        return Verdict::Discard;
    }
    match (&e.outcome, &c.outcome) {
        (Outcome::Error(_), Outcome::Error(_)) => {
            cx.class("both-fail");
            Verdict::Pass
        }
        (Outcome::Css(a), Outcome::Css(b)) => {
            cx.class("both-ok");
            // a value such as a lone quote character (corpus test values) makes the output
            // untokenizable; that is C05's subject (for CSS-representable inputs), not a style matter
            for out in [a, b] {
                let t = out.strip_prefix('\u{feff}').unwrap_or(out);
                if !crate::oracle::css::wellformedness_problems(&crate::oracle::css::tokenize(t)).is_empty() {
                    cx.class("output-not-tokenizable");
                    return Verdict::Discard;
                }
            }
            let ca = canon_sheet(a, CanonOpts::FULL, Comments::Preserved);
            let cb = canon_sheet(b, CanonOpts::FULL, Comments::Preserved);
            // @debug/@warn messages are SassScript-computed values too
            let la: Vec<(&str, &str)> = e.logs.iter().map(|l| (l.kind.as_str(), l.message.as_str())).collect();
            let lb: Vec<(&str, &str)> = c.logs.iter().map(|l| (l.kind.as_str(), l.message.as_str())).collect();
            let nontrivial = strip_ws(a) != strip_ws(b);
            if nontrivial {
                cx.nontrivial(&case.source);
                cx.sample_nontrivial(|| json!({"class": case.class, "source": case.source, "expanded": a, "compressed": b}));
            } else {
                cx.sample(|| json!({"class": case.class, "source": case.source, "expanded": a}));
            }
            if let Some(d) = diff(&ca, &cb) {
                // only the hand-written probe of the known finding carries this feature flag;
                // the search never generates it (SheetOpts::style_dependent_interp is off)
                let region = if case.features.iter().any(|f| f == "interp-style-dependent") {
                    ":style-dependent-interpolation"
                } else {
                    ""
                };
                return Verdict::Fail(Failure::new(
                    format!("style-diff:{}{}", kind_of(&d), region),
                    format!("expanded and compressed output differ in meaning: {}", d),
                    json!({"diff": d, "expanded": a, "compressed": b}),
                ));
            }
            if la != lb {
                return Verdict::Fail(Failure::new(
                    "style-diff:logger-messages",
                    "@debug/@warn messages differ between output styles",
                    json!({"expanded": la, "compressed": lb}),
                ));
            }
            Verdict::Pass
        }
        (x, y) => Verdict::Fail(Failure::new(
            "style-diff:outcome",
            "one output style compiles, the other fails",
            json!({"expanded": x.short(), "compressed": y.short()}),
        )),
    }
}

impl Prop for C06 {
    type Case = Case;
    fn id(&self) -> &'static str {
        "C06"
    }
    fn rule(&self) -> String {
        "inputs: every corpus entry (enumerated) and generated value-heavy sheets (numbers, colours in all spellings, strings with escapes, lists, urls, comments, custom properties, nested rules/at-rules, interpolation into selectors/property names/strings, and str-length/str-index/==/if() over interpolated text). Both styles must both succeed or both fail; the outputs, reduced by an independent canonicaliser (whitespace, optional semicolons, non-/*! comments, numbers by exact decimal value, colours as rgba), must be equal node by node; selectors, property names and string contents textually; logger messages equal. Interpolation of fractions <1, colours and comma lists into strings/selectors/property names/measuring functions is excluded by construction (known finding). Non-trivial = the two raw outputs differ beyond whitespace; distinct by source.".into()
    }
    fn strategy(&self, tier: Tier) -> Option<(BoxedStrategy<Case>, u32)> {
        let s = choices(160)
            .prop_map(|ch| {
                let mut c = Chooser::new(&ch);
                let g = gen_sheet(&mut c, SheetOpts::default());
                Case {
                    class: "gen-sheet".into(),
                    source: g.scss,
                    syntax: Syntax::Scss,
                    features: g.features,
                    files: vec![],
                }
            })
            .boxed();
        Some((s, tier.pick(20_000, 300_000)))
    }
    fn enumerate(&self, tier: Tier) -> Vec<Case> {
        let mut v: Vec<Case> = (0..corpus().len())
            .filter(|i| !corpus()[*i].uses_random() && crate::gen::text::bracket_depth(&corpus()[*i].input) < 60)
            .map(corpus_case)
            .collect();
        if tier == Tier::Thorough {
            // inputs harvested from the coverage-guided campaign (committed snapshot)
            v.extend(fuzz_corpus().iter().filter(|e| !e.uses_random() && crate::gen::text::bracket_depth(&e.input) < 60).map(|e| Case {
                class: "fuzz-corpus".into(),
                source: e.input.clone(),
                syntax: e.syntax(),
                features: vec![],
                files: vec![],
            }));
        }
        v
    }
    fn check(&self, case: &Case, cx: &mut Ctx) -> Verdict {
        cx.class(&format!("class:{}", case.class));
        for f in &case.features {
            cx.class(&format!("feature:{}", f));
        }
        compare_styles(case, cx)
    }
}

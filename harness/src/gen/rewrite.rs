//! Token-preserving rewrites of SCSS source text (C18): newline style, extra whitespace / silent
//! comments at safe gaps, `_` <-> `-` inside variable, function and mixin names. A small scanner
//! tracks strings, comments, url() and interpolation so that only code positions are touched.

use super::chooser::Chooser;

#[derive(Clone, Copy, PartialEq, Debug)]
enum St {
    Code,
    /// inside `#{ ... }`; the payload is the brace depth inside the interpolation
    Interp(usize),
    Str(char),
    Block,
    Line,
    Url,
}

/// (char, is_code_position, paren_depth) for every char; `is_code_position` is true when the char
/// is SassScript / statement syntax (not inside a string, comment or unquoted url)
pub fn scan(src: &str) -> Vec<(char, bool, usize, bool)> {
    let cs: Vec<char> = src.chars().collect();
    let mut out = Vec::with_capacity(cs.len());
    let mut st: Vec<St> = vec![St::Code];
    let mut paren = 0usize;
    let mut i = 0;
    while i < cs.len() {
        let c = cs[i];
        let top = *st.last().unwrap();
        let next = cs.get(i + 1).copied();
        match top {
            St::Code | St::Interp(_) => {
                // `top_level` = plain statement level (not inside interpolation)
                let top_level = st.len() == 1;
                if c == '"' || c == '\'' {
                    out.push((c, false, paren, false));
                    st.push(St::Str(c));
                } else if c == '/' && next == Some('*') {
                    out.push((c, false, paren, false));
                    st.push(St::Block);
                } else if c == '/' && next == Some('/') {
                    out.push((c, false, paren, false));
                    st.push(St::Line);
                } else if c == '#' && next == Some('{') {
                    out.push((c, true, paren, false));
                    out.push(('{', true, paren, false));
                    st.push(St::Interp(0));
                    i += 2;
                    continue;
                } else if (c == 'u' || c == 'U')
                    && cs[i..].iter().take(4).collect::<String>().eq_ignore_ascii_case("url(")
                    && !matches!(cs.get(i + 4), Some('"') | Some('\''))
                    && (i == 0 || !(cs[i - 1].is_alphanumeric() || cs[i - 1] == '-' || cs[i - 1] == '_'))
                {
                    for k in 0..4 {
                        out.push((cs[i + k], false, paren, false));
                    }
                    st.push(St::Url);
                    i += 4;
                    continue;
                } else if c == '\\' {
                    // an escape in an identifier: `\31 x` – the hex digits and ONE following
                    // whitespace character belong to the escape
                    out.push((c, false, paren, false));
                    let mut k = i + 1;
                    let mut hex = 0;
                    while k < cs.len() && hex < 6 && cs[k].is_ascii_hexdigit() {
                        out.push((cs[k], false, paren, false));
                        k += 1;
                        hex += 1;
                    }
                    if hex == 0 {
                        if k < cs.len() {
                            out.push((cs[k], false, paren, false));
                            k += 1;
                        }
                    } else if k < cs.len() && (cs[k] == ' ' || cs[k] == '\t' || cs[k] == '\n') {
                        out.push((cs[k], false, paren, false));
                        k += 1;
                    }
                    i = k;
                    continue;
                } else {
                    match c {
                        '(' => paren += 1,
                        ')' => paren = paren.saturating_sub(1),
                        '{' => {
                            if let St::Interp(d) = top {
                                *st.last_mut().unwrap() = St::Interp(d + 1);
                            }
                        }
                        '}' => {
                            if let St::Interp(d) = top {
                                if d == 0 {
                                    st.pop();
                                } else {
                                    *st.last_mut().unwrap() = St::Interp(d - 1);
                                }
                            }
                        }
                        _ => {}
                    }
                    out.push((c, true, paren, top_level));
                }
            }
            St::Str(q) => {
                if c == '\\' {
                    out.push((c, false, paren, false));
                    if let Some(n) = next {
                        out.push((n, false, paren, false));
                        i += 1;
                    }
                } else if c == q {
                    out.push((c, false, paren, false));
                    st.pop();
                } else if c == '#' && next == Some('{') {
                    out.push((c, false, paren, false));
                    out.push(('{', false, paren, false));
                    st.push(St::Interp(0));
                    i += 2;
                    continue;
                } else {
                    out.push((c, false, paren, false));
                }
            }
            St::Block => {
                out.push((c, false, paren, false));
                if c == '*' && next == Some('/') {
                    out.push(('/', false, paren, false));
                    st.pop();
                    i += 2;
                    continue;
                }
            }
            St::Line => {
                if c == '\n' || c == '\r' || c == '\u{c}' {
                    // the newline that ends a silent comment is syntax
                    st.pop();
                    out.push((c, true, paren, st.len() == 1));
                } else {
                    out.push((c, false, paren, false));
                }
            }
            St::Url => {
                out.push((c, false, paren, false));
                if c == '\\' {
                    if let Some(n) = next {
                        out.push((n, false, paren, false));
                        i += 1;
                    }
                } else if c == ')' {
                    st.pop();
                } else if c == '#' && next == Some('{') {
                    out.push(('{', false, paren, false));
                    st.push(St::Interp(0));
                    i += 2;
                    continue;
                }
            }
        }
        i += 1;
    }
    out
}

/// replace every newline that is syntax (not inside a string / loud comment) by `nl`
pub fn newlines(src: &str, nl: &str) -> (String, usize) {
    let mut out = String::new();
    let mut n = 0;
    for (c, code, _, _) in scan(src) {
        if c == '\n' && code {
            out.push_str(nl);
            n += 1;
        } else {
            out.push(c);
        }
    }
    (out, n)
}

/// insert whitespace / silent comments after `;` `{` `}` at statement level
pub fn gaps(src: &str, c: &mut Chooser) -> (String, usize) {
    let fillers = [" ", "\n", "  \n", "// gap\n", " // x {;}\n", "\t", "\n\n"];
    let mut out = String::new();
    let mut n = 0;
    for (ch, code, paren, top) in scan(src) {
        out.push(ch);
        if code && top && paren == 0 && (ch == ';' || ch == '{' || ch == '}') && c.chance(1, 2) {
            out.push_str(c.of(&fillers));
            n += 1;
        }
    }
    (out, n)
}

/// replace single spaces inside declaration / variable values by other whitespace or a silent
/// comment (`margin: 1px -2px` == `margin: 1px\n-2px`); selectors and at-rule preludes are left
/// alone (a newline after a comma in a selector list is preserved in expanded output)
pub fn value_gaps(src: &str, c: &mut Chooser) -> (String, usize) {
    let fillers = ["\n", "  ", "\n    ", "\t", "\r\n", " // note\n", "\n\n"];
    let sc = scan(src);
    let mut out = String::new();
    let mut n = 0;
    let mut in_value = false;
    for (i, (ch, code, paren, top)) in sc.iter().enumerate() {
        if *code && *top {
            match ch {
                ':' if *paren == 0 && !in_value => {
                    // `prop: value` / `$var: value` – a colon followed by whitespace, after a name
                    let after_ws = sc.get(i + 1).map_or(false, |x| x.0 == ' ');
                    let mut k = i;
                    while k > 0 && is_name_char(sc[k - 1].0) {
                        k -= 1;
                    }
                    // `@unknown-rule: …` is an at-rule prelude (raw text), not a declaration
                    let at_rule = k > 0 && sc[k - 1].0 == '@';
                    let before_name = i > 0 && (is_name_char(sc[i - 1].0) || sc[i - 1].0 == '}') && !at_rule;
                    if after_ws && before_name {
                        in_value = true;
                    }
                }
                ';' | '{' | '}' if *paren == 0 => in_value = false,
                _ => {}
            }
        }
        let prev_space = i > 0 && sc[i - 1].0 == ' ';
        let next_space = sc.get(i + 1).map_or(false, |x| x.0 == ' ');
        let prev_colon = i > 0 && sc[i - 1].0 == ':';
        // whitespace directly before a sign is where a list and an operation are told apart:
        // always rewritten, and with a filler that ends the line
        let before_sign = sc.get(i + 1).map_or(false, |x| x.0 == '-' || x.0 == '+') && sc.get(i + 2).map_or(false, |x| x.0 != ' ');
        if in_value && *code && *top && *paren == 0 && *ch == ' ' && !prev_space && !next_space && !prev_colon && (before_sign || c.chance(1, 2)) {
            if before_sign {
                out.push_str(c.of(&["\n", "\r\n", " // note\n", "\n\n", "\t", "  "]));
            } else {
                out.push_str(c.of(&fillers));
            }
            n += 1;
        } else {
            out.push(*ch);
        }
    }
    (out, n)
}

fn is_name_char(c: char) -> bool {
    c.is_alphanumeric() || c == '-' || c == '_' || !c.is_ascii()
}

/// names of user-defined functions and mixins (`@function NAME`, `@mixin NAME`)
pub fn user_callables(src: &str) -> Vec<String> {
    let sc = scan(src);
    let code: String = sc.iter().map(|(c, code, _, _)| if *code { *c } else { ' ' }).collect();
    let mut v = vec![];
    for kw in ["@function", "@mixin"] {
        let mut from = 0;
        while let Some(p) = code[from..].find(kw) {
            let start = from + p + kw.len();
            let rest = &code[start..];
            let name: String = rest.trim_start().chars().take_while(|c| is_name_char(*c)).collect();
            if !name.is_empty() && !v.contains(&name) {
                v.push(name);
            }
            from = start;
        }
    }
    v
}

fn norm(s: &str) -> String {
    s.replace('_', "-")
}

/// exchange `_` and `-` independently at each occurrence inside `$variable` names and the names of
/// user-defined functions / mixins (definitions, calls, `@include`)
pub fn swap_names(src: &str, c: &mut Chooser) -> (String, usize) {
    let callables: Vec<String> = user_callables(src).iter().map(|n| norm(n)).collect();
    let sc = scan(src);
    let chars: Vec<char> = sc.iter().map(|x| x.0).collect();
    let mut out = String::new();
    let mut n = 0;
    let mut i = 0;
    while i < chars.len() {
        let (ch, code, _, _) = sc[i];
        if !code {
            out.push(ch);
            i += 1;
            continue;
        }
        let prev_is_name = i > 0 && sc[i - 1].1 && is_name_char(chars[i - 1]);
        if ch == '$' {
            out.push(ch);
            i += 1;
            let mut first = true;
            while i < chars.len() && sc[i].1 && is_name_char(chars[i]) {
                let d = chars[i];
                // keep a leading `-`/`_` (privacy marker) and never create a trailing operator
                if (d == '-' || d == '_') && !first && c.chance(1, 2) {
                    out.push(if d == '-' { '_' } else { '-' });
                    n += 1;
                } else {
                    out.push(d);
                }
                first = false;
                i += 1;
            }
            continue;
        }
        if is_name_char(ch) && !prev_is_name && !ch.is_ascii_digit() {
            let mut j = i;
            while j < chars.len() && sc[j].1 && is_name_char(chars[j]) {
                j += 1;
            }
            let word: String = chars[i..j].iter().collect();
            // a module-qualified call `ns.name(` keeps its namespace part untouched: the word ends at '.'
            if callables.contains(&norm(&word)) && i > 0 && chars[..i].iter().rev().find(|c| !c.is_whitespace()).map_or(true, |p| *p != '.') {
                let mut first = true;
                for d in word.chars() {
                    if (d == '-' || d == '_') && !first && c.chance(1, 2) {
                        out.push(if d == '-' { '_' } else { '-' });
                        n += 1;
                    } else {
                        out.push(d);
                    }
                    first = false;
                }
            } else {
                out.push_str(&word);
            }
            i = j;
            continue;
        }
        out.push(ch);
        i += 1;
    }
    (out, n)
}

/// does the source contain a loud comment that spans several lines (its re-indentation depends on
/// the column it starts in)?
pub fn has_multiline_loud_comment(src: &str) -> bool {
    let mut rest = src;
    while let Some(p) = rest.find("/*") {
        let after = &rest[p + 2..];
        match after.find("*/") {
            Some(e) => {
                if after[..e].contains('\n') {
                    return true;
                }
                rest = &after[e + 2..];
            }
            None => return after.contains('\n'),
        }
    }
    false
}

#[cfg(test)]
mod tests {
    use super::*;
    #[test]
    fn newline_rewrite_skips_strings_and_comments() {
        let (s, n) = newlines("a {\n  b: \"x\ny\";\n  /* c\n d */\n}\n", "\r\n");
        assert_eq!(n, 4);
        assert!(s.contains("\"x\ny\""));
        assert!(s.contains("/* c\n d */"));
    }
    #[test]
    fn swap() {
        let data = vec![0u16; 64];
        let mut c = Chooser::new(&data);
        let (s, n) = swap_names("@function foo-bar($a_b) { @return $a_b; }\nx { y: foo-bar(1); z: \"$a_b foo-bar\"; }", &mut c);
        assert!(n >= 3);
        assert!(s.contains("\"$a_b foo-bar\""));
        assert!(s.contains("foo_bar(1)"));
    }
}
